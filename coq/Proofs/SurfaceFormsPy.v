(* C17, `<<py` ... `>>` versus `@py:` ... `@endpy` (on top of the block headers of Proofs/SurfaceForms.v):
   the two Python-block extractors compute the same code, and the whole-input theorem for the transformation
   that rewrites block headers AND Python-block delimiters. *)
From Coq Require Import String Ascii List Bool Arith ZArith Lia.
From Bardic Require Import PyStr Value Compiled Lex ParseBase ParseLine ParseMain ParseBlocks.
From Bardic Require Import LexProofs ParseProofs SurfaceProofs ParseBlocksInst ParseAllProofs.
From Bardic Require Import SurfaceFormsBase SurfaceForms.
Import ListNotations.
Local Open Scope string_scope.
Local Open Scope nat_scope.

(* ------------------------------------------------------------------------------------------- *)
(* _extract_py_old_syntax dedents line by line what _extract_py_new_syntax dedents at the end    *)
(* ------------------------------------------------------------------------------------------- *)

Lemma all_space_app : forall a b, all_space (a ++ b) = all_space a && all_space b.
Proof. induction a as [|x a IH]; intros b; simpl; [reflexivity|]. rewrite IH, andb_assoc. reflexivity. Qed.

Lemma strip_nonempty_blank : forall l, ParseBlocks.nonempty (strip l) = negb (all_space l).
Proof.
  intros l. destruct (lstrip_split l) as [w [Hw E]]. unfold strip.
  destruct (lstrip l) as [|a r] eqn:El.
  - rewrite E, LexProofs.app_nil_r, Hw. reflexivity.
  - pose proof (lstrip_head l a r El) as Ha. rewrite rstrip_cons_nonspace by exact Ha.
    rewrite E, all_space_app, Hw. cbn [all_space andb]. rewrite Ha. reflexivity.
Qed.

(* the per-line step of the old extractor, on the line without the opener's indentation *)
Definition old_base (base : option nat) (line : string) : option nat :=
  match base with
  | None => if negb (ParseBlocks.nonempty (strip line)) then None else Some (ws_run line)
  | Some b => Some b
  end.
Definition old_adjust (base : option nat) (line : string) : string :=
  if negb (ParseBlocks.nonempty (strip line)) then EmptyString
  else match old_base base line with
       | Some b => if (b <=? String.length line) && all_space (take b line) then drop b line else line
       | None => line
       end.
Fixpoint old_adj (base : option nat) (ls : list string) : list string :=
  match ls with
  | [] => []
  | l :: r => old_adjust base l :: old_adj (old_base base l) r
  end.
Fixpoint base_after (base : option nat) (ls : list string) : option nat :=
  match ls with
  | [] => base
  | l :: r => base_after (old_base base l) r
  end.

Lemma old_adj_snoc : forall ls base y,
  old_adj base (ls ++ [y])%list = (old_adj base ls ++ [old_adjust (base_after base ls) y])%list.
Proof. induction ls as [|l r IH]; intros base y; simpl; [reflexivity|]. rewrite IH. reflexivity. Qed.

Lemma base_after_snoc : forall ls base y, base_after base (ls ++ [y])%list = old_base (base_after base ls) y.
Proof. induction ls as [|l r IH]; intros base y; simpl; [reflexivity|]. apply IH. Qed.

Lemma take_all_space_indent : forall b l, all_space l = false ->
  ((b <=? String.length l) && all_space (take b l)) = (b <=? indent_of l).
Proof.
  intros b l Hl. destruct (lstrip_split l) as [w [Hw E]].
  assert (Hind : indent_of l = String.length w).
  { unfold indent_of. rewrite E at 1. rewrite length_append. lia. }
  destruct (lstrip l) as [|a r] eqn:El.
  { rewrite E, LexProofs.app_nil_r, Hw in Hl. discriminate. }
  pose proof (lstrip_head l a r El) as Ha.
  rewrite Hind. destruct (b <=? String.length w) eqn:Eb.
  - apply Nat.leb_le in Eb.
    assert (H1 : b <=? String.length l = true).
    { apply Nat.leb_le. rewrite E, length_append. lia. }
    rewrite H1. cbn [andb]. rewrite E. rewrite take_app_le by exact Eb.
    clear -Hw Eb. revert w Hw Eb. induction b as [|b IH]; intros w Hw Eb; [reflexivity|].
    destruct w as [|x w]; [simpl in Eb; lia|]. simpl in Hw |- *. apply andb_prop in Hw. destruct Hw as [Hx Hw].
    rewrite Hx. apply IH; [exact Hw|simpl in Eb; lia].
  - apply Nat.leb_gt in Eb. destruct (b <=? String.length l) eqn:Hb; [|reflexivity]. cbn [andb].
    rewrite E. replace b with (String.length w + (b - String.length w)) by lia.
    rewrite take_app_ge. rewrite all_space_app, Hw. cbn [andb].
    destruct (b - String.length w) as [|m] eqn:Em; [lia|]. cbn [take all_space]. rewrite Ha. reflexivity.
Qed.

Lemma blank_to_empty_dedent : forall b l, all_space l = false -> b <= indent_of l ->
  blank_to_empty (drop b l) = drop b l.
Proof.
  intros b l Hl Hb. unfold blank_to_empty. rewrite strip_nonempty_blank.
  destruct (lstrip_split l) as [w [Hw E]].
  assert (Hind : indent_of l = String.length w).
  { unfold indent_of. rewrite E at 1. rewrite length_append. lia. }
  rewrite E. rewrite drop_app_le by lia. rewrite all_space_app.
  assert (H2 : all_space (lstrip l) = false).
  { rewrite E, all_space_app, Hw in Hl. exact Hl. }
  rewrite H2, andb_false_r. reflexivity.
Qed.

Lemma old_adjust_some : forall b l,
  old_adjust (Some b) l = blank_to_empty (dedent_line b l).
Proof.
  intros b l. unfold old_adjust, dedent_line, blank_to_empty, is_blank. cbn [old_base].
  rewrite strip_nonempty_blank, negb_involutive.
  destruct (all_space l) eqn:Hl; cbv iota.
  - rewrite strip_nonempty_blank, Hl. reflexivity.
  - rewrite (take_all_space_indent b l Hl). destruct (b <=? indent_of l) eqn:Eb; cbv iota.
    + apply Nat.leb_le in Eb. pose proof (blank_to_empty_dedent b l Hl Eb) as H. unfold blank_to_empty in H. rewrite H. reflexivity.
    + rewrite strip_nonempty_blank, Hl. reflexivity.
Qed.

Lemma old_adj_some : forall ls b, old_adj (Some b) ls = map (fun l => blank_to_empty (dedent_line b l)) ls.
Proof. induction ls as [|l r IH]; intros b; simpl; [reflexivity|]. rewrite old_adjust_some, IH. reflexivity. Qed.

Lemma old_adj_none : forall ls,
  old_adj None ls = map blank_to_empty (detect_and_strip_indentation ls).
Proof.
  intros ls. unfold detect_and_strip_indentation.
  induction ls as [|l r IH]; [reflexivity|].
  cbn [old_adj base_indent]. unfold is_blank.
  destruct (all_space l) eqn:Hl.
  - assert (Hb : old_base None l = None) by (unfold old_base; rewrite strip_nonempty_blank, Hl; reflexivity).
    assert (Ha : old_adjust None l = EmptyString) by (unfold old_adjust; rewrite strip_nonempty_blank, Hl; reflexivity).
    rewrite Hb, Ha, IH.
    assert (Hbe : blank_to_empty l = EmptyString) by (unfold blank_to_empty; rewrite strip_nonempty_blank, Hl; reflexivity).
    destruct (base_indent r) as [b|].
    + cbn [map]. f_equal. unfold dedent_line, is_blank. rewrite Hl. symmetry. exact Hbe.
    + cbn [map]. rewrite Hbe. reflexivity.
  - assert (Hb : old_base None l = Some (indent_of l)) by (unfold old_base; rewrite strip_nonempty_blank, Hl; reflexivity).
    rewrite Hb, old_adj_some. cbn [map]. f_equal; [|rewrite map_map; reflexivity].
    unfold old_adjust. rewrite Hb, strip_nonempty_blank, Hl. cbn [negb].
    rewrite (take_all_space_indent _ l Hl), Nat.leb_refl.
    unfold dedent_line, is_blank. rewrite Hl, Nat.leb_refl.
    symmetry. apply blank_to_empty_dedent; [exact Hl|lia].
Qed.

(* the old loop, in terms of old_adj *)
Lemma py_old_go_step : forall opener start raw rest base code k,
  String.eqb (strip raw) ">>" = false ->
  py_old_go opener start (raw :: rest) base code k =
  py_old_go opener start rest (old_base base (without_opener_indent raw opener))
            (code ++ [old_adjust base (without_opener_indent raw opener)])%list (S k).
Proof.
  intros opener start raw rest base code k H. cbn [py_old_go]. rewrite H.
  unfold old_adjust, old_base. destruct base as [b|]; reflexivity.
Qed.

(* ------------------------------------------------------------------------------------------- *)
(* the transformation and the line relation                                                     *)
(* ------------------------------------------------------------------------------------------- *)

(* block headers as in SurfaceFormsBase.to_at_form, and the two delimiter lines of a legacy Python block *)
Definition to_at_full (l : string) : string :=
  if String.eqb (strip l) "<<py" then take (ws_run l) l ++ "@py:"
  else if String.eqb (strip l) ">>" then take (ws_run l) l ++ "@endpy"
  else to_at_form l.

Definition is_leg2 (l : string) : bool :=
  is_leg l || String.eqb (strip l) "<<py" || String.eqb (strip l) ">>".

(* a line is a delimiter of a legacy Python block for one of the compiler's passes: the pre-pass tests the
   line without its trailing comment (key = strip of bare_of), everything after it tests the stripped line *)
Definition pydelim (s : string) : bool := startswith s "<<py" || String.eqb s ">>".

(* the delimiter lines of legacy Python blocks are written plainly: `<<py` and `>>`, nothing after them
   (`<<python`, `<<py // note`, `>> // note` are read as delimiters by some pass and are not rewritten) *)
Definition py_plain_line (l : string) : bool :=
  if pydelim (strip l) || pydelim (strip (bare_of l))
  then String.eqb (strip l) "<<py" || String.eqb (strip l) ">>" else true.

Inductive hp2 : string -> string -> Prop :=
| HP2_hdr : forall B B', hdr_pair B B' -> hp2 B B'
| HP2_py : hp2 "<<py" "@py:"
| HP2_endpy : hp2 ">>" "@endpy".

(* same line, which no pass takes for a legacy Python delimiter; or a header / delimiter in its two forms.
   raw = true: also for the pre-pass *)
Definition Rz (raw : bool) (l l' : string) : Prop :=
  (l = l' /\ pydelim (strip l) = false /\ (raw = true -> pydelim (strip (bare_of l)) = false)) \/
  exists ind B B' t t', all_space ind = true /\ all_space t = true /\ all_space t' = true /\
    hp2 B B' /\ l = ind ++ B ++ t /\ l' = ind ++ B' ++ t'.

Lemma hp2_strip : forall B B', hp2 B B' -> strip B = B /\ strip B' = B' /\ B <> "" /\ B' <> "".
Proof.
  intros B B' H. destruct H as [B B' H| |]; [exact (hp_strip _ _ H)| |]; repeat split; try discriminate; reflexivity.
Qed.

Lemma hp2_nc : forall B B', hp2 B B' ->
  strip_inline_comment B = (B, "") /\ strip_inline_comment B' = (B', "").
Proof. intros B B' H. destruct H as [B B' H| |]; [exact (hp_nc _ _ H)| |]; split; reflexivity. Qed.

Lemma hp2_mid : forall B B', hp2 B B' -> exists p p' m q q',
  B = p ++ m ++ q /\ B' = p' ++ m ++ q' /\ nobr p = true /\ nobr p' = true /\ nobr q = true /\ nobr q' = true.
Proof.
  intros B B' H. destruct H as [B B' H| |]; [exact (hp_mid _ _ H)| |].
  - exists "<<py", "@py:", "", "", "". repeat split; reflexivity.
  - exists ">>", "@endpy", "", "", "". repeat split; reflexivity.
Qed.

Lemma hdr_pair_not_py : forall B B', hdr_pair B B' ->
  pydelim B = false /\ pydelim B' = false /\ String.eqb B' "@endpy" = false /\ String.eqb B' "@py:" = false.
Proof. intros B B' H. destruct H; repeat split; reflexivity. Qed.

Lemma hp2_leg : forall B B', hp2 B B' ->
  (exists k, leg_kind B = Some k) \/ B = "<<py" \/ B = ">>".
Proof. intros B B' H. destruct H as [B B' H| |]; [left; exact (hp_leg _ _ H)|right; left; reflexivity|right; right; reflexivity]. Qed.

Lemma changed2_is_leg : forall ind B B' t, all_space ind = true -> all_space t = true -> hp2 B B' ->
  is_leg2 (ind ++ B ++ t) = true.
Proof.
  intros ind B B' t Hi Ht HP. unfold is_leg2, is_leg. destruct (hp2_strip _ _ HP) as [Hs [_ [Hn _]]].
  rewrite (strip_mid ind B t Hi Ht Hs Hn).
  destruct (hp2_leg _ _ HP) as [[k Hk]|[->| ->]]; [rewrite Hk; reflexivity|reflexivity|reflexivity].
Qed.

Lemma Rz_changed : forall raw l l', Rz raw l l' -> is_leg2 l = false -> l = l'.
Proof.
  intros raw l l' [[E _]|(ind & B & B' & t & t' & Hi & Ht & Ht' & HP & -> & ->)] H; [exact E|].
  rewrite (changed2_is_leg ind B B' t Hi Ht HP) in H. discriminate.
Qed.

Lemma sic_fixed_bare : forall l, strip_inline_comment l = (l, "") -> bare_of l = l.
Proof. intros l H. unfold bare_of. rewrite H. reflexivity. Qed.

(* generic Forall2 *)
Lemma F2_length : forall (A : Type) (P : A -> A -> Prop) l l', Forall2 P l l' -> List.length l' = List.length l.
Proof. intros A P l l' F. induction F; simpl; congruence. Qed.

Lemma F2_skipn : forall (A : Type) (P : A -> A -> Prop) n l l', Forall2 P l l' -> Forall2 P (skipn n l) (skipn n l').
Proof. intros A P. induction n as [|n IH]; intros l l' F; [exact F|]. destruct F; simpl; [constructor|apply IH; assumption]. Qed.

Lemma F2_nth : forall (A : Type) (P : A -> A -> Prop) i l l', Forall2 P l l' ->
  match nth_error l i, nth_error l' i with
  | Some x, Some x' => P x x'
  | None, None => True
  | _, _ => False
  end.
Proof. intros A P. induction i as [|i IH]; intros l l' F; destruct F; simpl; auto. apply IH. assumption. Qed.

Lemma F2_app : forall (A : Type) (P : A -> A -> Prop) a a' b b',
  Forall2 P a a' -> Forall2 P b b' -> Forall2 P (a ++ b)%list (a' ++ b')%list.
Proof. intros A P a a' b b' F G. induction F; simpl; [exact G|constructor; assumption]. Qed.

Lemma F2_map : forall (A : Type) (P : A -> A -> Prop) f, (forall x x', P x x' -> P (f x) (f x')) ->
  forall l l', Forall2 P l l' -> Forall2 P (map f l) (map f l').
Proof. intros A P f Hf l l' F. induction F; simpl; constructor; auto. Qed.

(* ---- to_at_full produces related lines ---- *)

Lemma to_at_full_Rz : forall l, hdr_ok l = true -> py_plain_line l = true -> Rz true l (to_at_full l).
Proof.
  intros l Hh Hp. unfold to_at_full. destruct (line_split l) as [t [Ht [Hi E]]].
  destruct (String.eqb (strip l) "<<py") eqn:E1.
  { apply String.eqb_eq in E1. right. exists (take (ws_run l) l), "<<py", "@py:", t, "".
    split; [exact Hi|]. split; [exact Ht|]. split; [reflexivity|]. split; [apply HP2_py|].
    split; [rewrite <- E1; exact E|rewrite LexProofs.app_nil_r; reflexivity]. }
  destruct (String.eqb (strip l) ">>") eqn:E2.
  { apply String.eqb_eq in E2. right. exists (take (ws_run l) l), ">>", "@endpy", t, "".
    split; [exact Hi|]. split; [exact Ht|]. split; [reflexivity|]. split; [apply HP2_endpy|].
    split; [rewrite <- E2; exact E|rewrite LexProofs.app_nil_r; reflexivity]. }
  unfold py_plain_line in Hp. rewrite E1, E2 in Hp. cbn [orb] in Hp.
  destruct (pydelim (strip l) || pydelim (strip (bare_of l))) eqn:Ed; [discriminate|].
  apply orb_false_elim in Ed. destruct Ed as [Ed1 Ed2].
  destruct (to_at_form_Rx l Hh) as [Eq|(ind & B & B' & t1 & t1' & H1 & H2 & H3 & HP & H5 & H6)].
  - left. repeat split; [exact Eq|exact Ed1|intros _; exact Ed2].
  - right. exists ind, B, B', t1, t1'. repeat split; try assumption. constructor. exact HP.
Qed.

Lemma F2_to_at_full : forall ls, forallb hdr_ok ls = true -> forallb py_plain_line ls = true ->
  Forall2 (Rz true) ls (map to_at_full ls).
Proof.
  induction ls as [|l r IH]; intros H1 H2; simpl; [constructor|].
  simpl in H1, H2. apply andb_prop in H1. apply andb_prop in H2. destruct H1 as [A1 A2]. destruct H2 as [B1 B2].
  constructor; [apply to_at_full_Rz; assumption|apply IH; assumption].
Qed.

(* ---- closure ---- *)

Lemma Rz_mk_changed : forall raw ind B B' t t', all_space ind = true -> all_space t = true -> all_space t' = true ->
  hp2 B B' -> Rz raw (ind ++ B ++ t) (ind ++ B' ++ t').
Proof. intros. right. exists ind, B, B', t, t'. repeat split; assumption. Qed.

Lemma strip_dedent_line : forall b l, strip (dedent_line b l) = strip l.
Proof.
  intros b l. unfold dedent_line. destruct (is_blank l); [reflexivity|].
  destruct (b <=? indent_of l) eqn:E; [|reflexivity]. apply Nat.leb_le in E.
  destruct (lstrip_split l) as [w [Hw El]].
  assert (Hind : indent_of l = String.length w).
  { unfold indent_of. rewrite El at 1. rewrite length_append. lia. }
  unfold strip. rewrite El at 1. rewrite drop_app_le by lia.
  rewrite lstrip_app_ws by (apply all_space_drop; exact Hw). rewrite lstrip_idem. reflexivity.
Qed.

Lemma Rz_blank : forall raw l l', Rz raw l l' -> is_blank l' = is_blank l.
Proof.
  intros raw l l' [[-> _]|(ind & B & B' & t & t' & Hi & Ht & Ht' & HP & -> & ->)]; [reflexivity|].
  destruct (hp2_strip _ _ HP) as [Hs [Hs' [Hn Hn']]].
  rewrite (blank_mid ind B t Hi Hs Hn), (blank_mid ind B' t' Hi Hs' Hn'). reflexivity.
Qed.

Lemma Rz_indent : forall raw l l', Rz raw l l' -> indent_of l' = indent_of l.
Proof.
  intros raw l l' [[-> _]|(ind & B & B' & t & t' & Hi & Ht & Ht' & HP & -> & ->)]; [reflexivity|].
  destruct (hp2_strip _ _ HP) as [Hs [Hs' [Hn Hn']]].
  change (ws_run (ind ++ B' ++ t') = ws_run (ind ++ B ++ t)).
  rewrite (ws_run_mid ind B t Hi Hs Hn), (ws_run_mid ind B' t' Hi Hs' Hn'). reflexivity.
Qed.

Lemma Rz_dedent_line : forall base l l', Rz false l l' -> Rz false (dedent_line base l) (dedent_line base l').
Proof.
  intros base l l' H. pose proof (Rz_blank _ _ _ H) as Hb. pose proof (Rz_indent _ _ _ H) as Hind.
  destruct H as [[<- [Hd _]]|(ind & B & B' & t & t' & Hi & Ht & Ht' & HP & -> & ->)].
  - left. repeat split; [rewrite strip_dedent_line; exact Hd|discriminate].
  - unfold dedent_line. rewrite Hb, Hind.
    destruct (is_blank (ind ++ B ++ t)) eqn:Eb; [apply Rz_mk_changed; assumption|].
    destruct (base <=? indent_of (ind ++ B ++ t)) eqn:El; [|apply Rz_mk_changed; assumption].
    destruct (hp2_strip _ _ HP) as [Hs [Hs' [Hn Hn']]].
    change (indent_of (ind ++ B ++ t)) with (ws_run (ind ++ B ++ t)) in El.
    rewrite (ws_run_mid ind B t Hi Hs Hn) in El. apply Nat.leb_le in El.
    rewrite !drop_app_le by exact El. apply Rz_mk_changed; try assumption. apply all_space_drop. exact Hi.
Qed.

Lemma Rz_base_indent : forall raw ls ls', Forall2 (Rz raw) ls ls' -> base_indent ls' = base_indent ls.
Proof.
  intros raw ls ls' F. induction F as [|l l' r r' H F IH]; [reflexivity|].
  simpl. rewrite (Rz_blank _ _ _ H), (Rz_indent _ _ _ H), IH. reflexivity.
Qed.

Lemma Rz_dedent : forall ls ls', Forall2 (Rz false) ls ls' ->
  Forall2 (Rz false) (detect_and_strip_indentation ls) (detect_and_strip_indentation ls').
Proof.
  intros ls ls' F. unfold detect_and_strip_indentation. rewrite (Rz_base_indent _ _ _ F).
  destruct (base_indent ls) as [b|]; [|exact F]. apply F2_map; [|exact F].
  intros l l'. apply Rz_dedent_line.
Qed.

Lemma Rz_scan : forall raw l l' st, Rz raw l l' -> scan_brackets l' st = scan_brackets l st.
Proof.
  intros raw l l' st [[-> _]|(ind & B & B' & t & t' & Hi & Ht & Ht' & HP & -> & ->)]; [reflexivity|].
  destruct (hp2_mid _ _ HP) as (p & p' & m & q & q' & -> & -> & Hp & Hp' & Hq & Hq').
  rewrite !(sb_skip ind) by (apply all_space_nobr; assumption).
  rewrite !LexProofs.app_assoc. rewrite (sb_skip p) by exact Hp. rewrite (sb_skip p') by exact Hp'.
  rewrite (sb_tail m (q ++ t)) by (apply nobr_app; [exact Hq|apply all_space_nobr; exact Ht]).
  rewrite (sb_tail m (q' ++ t')) by (apply nobr_app; [exact Hq'|apply all_space_nobr; exact Ht']).
  reflexivity.
Qed.

Lemma Rz_eme_count : forall raw r r', Forall2 (Rz raw) r r' -> forall st, eme_count r' st = eme_count r st.
Proof.
  intros raw r r' F. induction F as [|l l' r r' H F IH]; intros st; [reflexivity|].
  cbn [eme_count]. destruct st as [|t st]; [reflexivity|]. rewrite (Rz_scan raw l l' _ H).
  destruct (scan_brackets l (t :: st)); [reflexivity|]. rewrite IH. reflexivity.
Qed.

(* a view of a related pair: equal (and no legacy delimiter), or both stripped texts known *)
Lemma Rz_strip : forall raw l l', Rz raw l l' ->
  (l = l' /\ pydelim (strip l) = false) \/ hp2 (strip l) (strip l').
Proof.
  intros raw l l' [[E [Hd _]]|(ind & B & B' & t & t' & Hi & Ht & Ht' & HP & -> & ->)]; [left; split; assumption|]. right.
  destruct (hp2_strip _ _ HP) as [Hs [Hs' [Hn Hn']]].
  rewrite (strip_mid ind B t Hi Ht Hs Hn), (strip_mid ind B' t' Hi Ht' Hs' Hn'). exact HP.
Qed.

(* ------------------------------------------------------------------------------------------- *)
(* the comment pre-pass                                                                         *)
(* ------------------------------------------------------------------------------------------- *)

(* the Python-block state of the pre-pass on the two inputs: outside; inside an @py: block (both); inside a
   legacy block on the left, its rewritten form on the right *)
Inductive pmode := MN | MA | MC.
Definition m_l (m : pmode) : option string :=
  match m with MN => None | MA => Some "@endpy" | MC => Some ">>" end.
Definition m_r (m : pmode) : option string :=
  match m with MN => None | MA => Some "@endpy" | MC => Some "@endpy" end.

(* inside a legacy block no line reads `@endpy` (it would close the rewritten block early); inside an @py: block
   no line reads `>>` (rewritten, it would close that block early) *)
Definition pre_local_ok (l : string) (closer : option string) : bool :=
  match closer with
  | Some c =>
      if String.eqb (strip (bare_of l)) c then true
      else negb (String.eqb c ">>" && String.eqb (strip (bare_of l)) "@endpy") &&
           negb (String.eqb c "@endpy" && String.eqb (strip l) ">>")
  | None => true
  end.

Fixpoint pre_chk (rest : list string) (closer : option string) (in_story : bool) (skip : nat) : bool :=
  match rest with
  | [] => true
  | l :: r =>
      match skip with
      | S k => pre_chk r closer in_story k
      | 0 =>
          pre_local_ok l closer &&
          pre_chk r (fst (fst (pre_next l r closer in_story))) (snd (fst (pre_next l r closer in_story)))
                  (snd (pre_next l r closer in_story))
      end
  end.

Lemma Rz_weaken : forall l l', Rz true l l' -> Rz false l l'.
Proof.
  intros l l' [[E [H1 _]]|H]; [left; repeat split; [exact E|exact H1|discriminate]|right; exact H].
Qed.

Lemma pydelim_false : forall s, pydelim s = false -> startswith s "<<py" = false /\ String.eqb s ">>" = false.
Proof. intros s H. unfold pydelim in H. apply orb_false_elim in H. exact H. Qed.

Lemma changed2_bare : forall ind B B' t, all_space ind = true -> all_space t = true -> hp2 B B' ->
  bare_of (ind ++ B ++ t) = ind ++ B ++ t.
Proof. intros ind B B' t Hi Ht HP. apply sic_fixed_bare. apply sic_mid; try assumption. exact (proj1 (hp2_nc _ _ HP)). Qed.

Lemma changed2_bare' : forall ind B B' t, all_space ind = true -> all_space t = true -> hp2 B B' ->
  bare_of (ind ++ B' ++ t) = ind ++ B' ++ t.
Proof. intros ind B B' t Hi Ht HP. apply sic_fixed_bare. apply sic_mid; try assumption. exact (proj2 (hp2_nc _ _ HP)). Qed.

Lemma Rz_same : forall raw l, pydelim (strip l) = false -> (raw = true -> pydelim (strip (bare_of l)) = false) -> Rz raw l l.
Proof. intros raw l H1 H2. left. repeat split; assumption. Qed.

Lemma prepass_sim2 : forall ls ls', Forall2 (Rz true) ls ls' -> forall m ins sk,
  pre_chk ls (m_l m) ins sk = true ->
  Forall2 (Rz false) (spcop ls (m_l m) ins sk) (spcop ls' (m_r m) ins sk).
Proof.
  intros ls ls' F. induction F as [|l l' r r' H F IH]; intros m ins sk Hc; [constructor|].
  destruct sk as [|k].
  2:{ cbn [strip_comments_outside_python pre_chk] in *. constructor; [apply Rz_weaken; exact H|apply IH; exact Hc]. }
  cbn [pre_chk] in Hc. apply andb_prop in Hc. destruct Hc as [Hloc Hc].
  rewrite !spcop_0. cbv zeta.
  destruct H as [[<- [Hd Hdb]]|(ind & B & B' & t & t' & Hi & Ht & Ht' & HP & -> & ->)].
  - (* the same line, not a legacy delimiter for any pass *)
    specialize (Hdb eq_refl). destruct (pydelim_false _ Hdb) as [Hb1 Hb2]. destruct (pydelim_false _ Hd) as [Hs1 Hs2].
    assert (Rb : Rz false (bare_of l) (bare_of l)).
    { apply Rz_same; [exact Hdb|discriminate]. }
    assert (Rr : Rz false (rstrip (bare_of l)) (rstrip (bare_of l))).
    { apply Rz_same; [rewrite strip_rstrip; exact Hdb|discriminate]. }
    assert (Rl : Rz false l l) by (apply Rz_same; [exact Hd|discriminate]).
    destruct m; cbn [m_l m_r] in *.
    + (* outside *)
      unfold pre_next in Hc. cbv zeta in Hc. rewrite Hb1 in *.
      destruct (ins || startswith l ":: " || startswith (strip (bare_of l)) "@start ");
        [|constructor; [exact Rl|apply (IH MN); exact Hc]].
      destruct (startswith (strip (bare_of l)) "@py"); [constructor; [exact Rr|apply (IH MA); exact Hc]|].
      destruct (startswith (strip (bare_of l)) "~ ").
      * unfold eme_skip in *. rewrite (Rz_eme_count _ _ _ F). constructor; [exact Rr|apply (IH MN); exact Hc].
      * constructor; [exact Rr|apply (IH MN); exact Hc].
    + (* inside an @py: block *)
      unfold pre_next in Hc. cbv zeta in Hc.
      destruct (String.eqb (strip (bare_of l)) "@endpy"); constructor; try assumption; [apply (IH MN)|apply (IH MA)]; exact Hc.
    + (* inside a rewritten legacy block *)
      unfold pre_next in Hc. cbv zeta in Hc. unfold pre_local_ok in Hloc. rewrite Hb2 in *.
      cbn [String.eqb Ascii.eqb Bool.eqb andb negb] in Hloc.
      destruct (String.eqb (strip (bare_of l)) "@endpy"); [discriminate Hloc|].
      constructor; [exact Rl|apply (IH MC); exact Hc].
  - (* a header or delimiter in its two forms *)
    destruct (hp2_strip _ _ HP) as [Hs [Hs' [Hn Hn']]].
    unfold pre_next in Hc. cbv zeta in Hc. unfold pre_local_ok in Hloc.
    rewrite (changed2_bare ind B B' t Hi Ht HP) in *. rewrite (changed2_bare' ind B B' t' Hi Ht' HP).
    rewrite (strip_mid ind B t Hi Ht Hs Hn) in *. rewrite (strip_mid ind B' t' Hi Ht' Hs' Hn').
    assert (HR : Rz false (ind ++ B ++ t) (ind ++ B' ++ t')) by (apply Rz_mk_changed; assumption).
    assert (HRr : Rz false (rstrip (ind ++ B ++ t)) (rstrip (ind ++ B' ++ t'))).
    { rewrite (rstrip_mid ind B t Ht Hs Hn), (rstrip_mid ind B' t' Ht' Hs' Hn').
      pose proof (Rz_mk_changed false ind B B' "" "" Hi eq_refl eq_refl HP) as Hx.
      rewrite !LexProofs.app_nil_r in Hx. exact Hx. }
    assert (Hh : startswith (ind ++ B ++ t) ":: " = false /\ startswith (ind ++ B' ++ t') ":: " = false).
    { split; apply sw_line; try assumption; try reflexivity; destruct HP as [B B' HP| |]; try reflexivity; destruct HP; reflexivity. }
    destruct Hh as [Hh Hh']. rewrite Hh in *. rewrite Hh'.
    destruct HP as [B B' HP| |].
    + (* block header: no pass reacts to it *)
      assert (E : startswith B "@start " = false /\ startswith B' "@start " = false /\
                  startswith B "@py" = false /\ startswith B' "@py" = false /\
                  startswith B "<<py" = false /\ startswith B' "<<py" = false /\
                  startswith B "~ " = false /\ startswith B' "~ " = false /\
                  String.eqb B "@endpy" = false /\ String.eqb B' "@endpy" = false /\
                  String.eqb B ">>" = false /\ String.eqb B' ">>" = false)
        by (destruct HP; repeat split; reflexivity).
      destruct E as (e1 & e2 & e3 & e4 & e5 & e6 & e7 & e8 & e9 & e10 & e11 & e12).
      destruct m; cbn [m_l m_r] in *.
      * rewrite e1, e3, e5, e7 in *. rewrite e2, e4, e6, e8. rewrite !orb_false_r in *.
        destruct ins; cbn [orb] in *; (constructor; [assumption|apply (IH MN); exact Hc]).
      * rewrite e9 in *. rewrite e10. constructor; [exact HR|apply (IH MA); exact Hc].
      * rewrite e11 in *. rewrite e10. constructor; [exact HR|apply (IH MC); exact Hc].
    + (* <<py / @py: *)
      destruct m; cbn [m_l m_r] in *.
      * cbn [startswith ascii_eqb Ascii.eqb Bool.eqb andb orb] in *.
        destruct ins; cbn [orb] in *; constructor; try assumption; [apply (IH MC)|apply (IH MN)]; exact Hc.
      * cbn in Hc |- *. constructor; [exact HR|apply (IH MA); exact Hc].
      * cbn in Hc |- *. constructor; [exact HR|apply (IH MC); exact Hc].
    + (* >> / @endpy *)
      destruct m; cbn [m_l m_r] in *.
      * cbn [startswith ascii_eqb Ascii.eqb Bool.eqb andb orb] in *.
        destruct ins; cbn [orb] in *; constructor; try assumption; apply (IH MN); exact Hc.
      * cbn in Hloc. discriminate Hloc.
      * cbn in Hc |- *. constructor; [exact HR|apply (IH MN); exact Hc].
Qed.

(* ------------------------------------------------------------------------------------------- *)
(* Python blocks                                                                                *)
(* ------------------------------------------------------------------------------------------- *)
Notation Rs := (Rz false).

Fixpoint safe_until2 (c : string) (r : list string) : bool :=
  match r with
  | [] => true
  | x :: r' => if String.eqb (strip x) c then true else negb (is_leg2 x) && safe_until2 c r'
  end.

(* a legacy block that is rewritten: before its `>>` there is no line that is rewritten and no line that reads
   `@endpy`.  (Since fix F17o an unclosed legacy block is rejected exactly like an unclosed @py: block; before the
   fix it was accepted and the block had to be required closed here.) *)
Fixpoint legacy_py_ok (r : list string) : bool :=
  match r with
  | [] => true
  | x :: r' =>
      if String.eqb (strip x) ">>" then true
      else negb (is_leg2 x) && negb (String.eqb (strip x) "@endpy") && legacy_py_ok r'
  end.

Definition py_chk2 (lines : list string) (i : nat) : bool :=
  match nth_error lines i with
  | None => true
  | Some line =>
      let s := strip line in
      if startswith s "<<py" then legacy_py_ok (skipn (S i) lines)
      else if startswith s "@py" then
        (if String.eqb s "@py:" then safe_until2 "@endpy" (skipn (S i) lines) else true)
      else true
  end.

Lemma hp2_left_not_endpy : forall B B', hp2 B B' -> String.eqb B "@endpy" = false.
Proof. intros B B' H. destruct H as [B B' H| |]; [destruct H|..]; reflexivity. Qed.

Lemma py_new_go_sim2 : forall fx opener start r r', Forall2 Rs r r' -> safe_until2 "@endpy" r = true ->
  forall code k, py_new_go fx opener start r' code k = py_new_go fx opener start r code k.
Proof.
  intros fx opener start r r' F. induction F as [|x x' r r' H F IH]; intros Hs code k; [reflexivity|].
  cbn [py_new_go]. cbn [safe_until2] in Hs.
  destruct H as [[<- _]|(ind & B & B' & t & t' & Hi & Ht & Ht' & HP & -> & ->)].
  - destruct (String.eqb (strip x) "@endpy"); [reflexivity|].
    apply andb_prop in Hs. destruct Hs as [_ Hs]. apply IH. exact Hs.
  - exfalso. destruct (hp2_strip _ _ HP) as [Hs1 [_ [Hn1 _]]].
    rewrite (strip_mid ind B t Hi Ht Hs1 Hn1), (hp2_left_not_endpy _ _ HP) in Hs.
    rewrite (changed2_is_leg ind B B' t Hi Ht HP) in Hs. discriminate Hs.
Qed.

Lemma hp2_gt_inv : forall B', hp2 ">>" B' -> B' = "@endpy".
Proof. intros B' H. inversion H as [B0 B0' HH| |]; [inversion HH|reflexivity]. Qed.

(* the rewritten block: old extractor on the left, new extractor on the right *)
Lemma py_conv_go : forall opener opener' start r r', Forall2 Rs r r' -> legacy_py_ok r = true ->
  (forall line, without_opener_indent line opener' = without_opener_indent line opener) ->
  forall codeN k,
  py_new_go true opener' start r' codeN k =
  py_old_go opener start r (base_after None codeN) (old_adj None codeN) k.
Proof.
  intros opener opener' start r r' F. induction F as [|x x' r r' H F IH]; intros Hs Hw codeN k; [reflexivity|].
  cbn [legacy_py_ok] in Hs.
  destruct (String.eqb (strip x) ">>") eqn:Ex.
  - (* the closer *)
    destruct (Rz_strip _ _ _ H) as [[_ Hd]|HP].
    { destruct (pydelim_false _ Hd) as [_ Hd2]. rewrite Hd2 in Ex. discriminate. }
    apply String.eqb_eq in Ex. rewrite Ex in HP. apply hp2_gt_inv in HP.
    cbn [py_new_go py_old_go]. rewrite HP, Ex. cbn [String.eqb Ascii.eqb Bool.eqb].
    rewrite old_adj_none. reflexivity.
  - apply andb_prop in Hs. destruct Hs as [Hs Hrest]. apply andb_prop in Hs. destruct Hs as [Hl He].
    apply negb_true_iff in Hl. apply negb_true_iff in He.
    pose proof (Rz_changed _ _ _ H Hl) as <-.
    rewrite (py_old_go_step opener start x r _ _ k Ex). cbn [py_new_go]. rewrite He.
    rewrite (IH Hrest Hw). rewrite Hw, old_adj_snoc, base_after_snoc. reflexivity.
Qed.

Lemma woi_same_indent : forall ind X Y t t' line x y X' Y', all_space ind = true ->
  X = String x X' -> Y = String y Y' -> is_space x = false -> is_space y = false ->
  without_opener_indent line (ind ++ Y ++ t') = without_opener_indent line (ind ++ X ++ t).
Proof.
  intros ind X Y t t' line x y X' Y' Hi -> -> Hx Hy. unfold without_opener_indent.
  assert (E1 : ws_run (ind ++ String x X' ++ t) = String.length ind).
  { rewrite (ws_run_app ind _ Hi). cbn [append]. rewrite (ws_run_head x _ Hx). lia. }
  assert (E2 : ws_run (ind ++ String y Y' ++ t') = String.length ind).
  { rewrite (ws_run_app ind _ Hi). cbn [append]. rewrite (ws_run_head y _ Hy). lia. }
  rewrite E1, E2, !take_app_len. reflexivity.
Qed.

Lemma py_sim2 : forall L L' i, Forall2 Rs L L' -> py_chk2 L i = true ->
  extract_python_block_v true L' i = extract_python_block_v true L i.
Proof.
  intros L L' i F Hc. unfold extract_python_block_v, py_chk2 in *.
  pose proof (F2_nth _ _ i _ _ F) as Hn.
  destruct (nth_error L i) as [l|] eqn:El; destruct (nth_error L' i) as [l'|] eqn:El'; try contradiction; [|reflexivity].
  destruct Hn as [[<- [Hd _]]|(ind & B & B' & t & t' & Hi & Ht & Ht' & HP & -> & ->)].
  - destruct (pydelim_false _ Hd) as [Hd1 _]. rewrite Hd1 in *.
    destruct (startswith (strip l) "@py"); [|reflexivity].
    unfold extract_py_new_syntax_v. rewrite El, El'.
    destruct (String.eqb (strip l) "@py:"); [|reflexivity]. cbn [negb].
    apply py_new_go_sim2; [apply F2_skipn; exact F|exact Hc].
  - destruct (hp2_strip _ _ HP) as [Hs [Hs' [Hn Hn']]].
    rewrite (strip_mid ind B t Hi Ht Hs Hn) in *. rewrite (strip_mid ind B' t' Hi Ht' Hs' Hn').
    destruct HP as [B B' HP| |].
    + assert (E : startswith B "<<py" = false /\ startswith B' "<<py" = false /\
                  startswith B "@py" = false /\ startswith B' "@py" = false)
        by (destruct HP; repeat split; reflexivity).
      destruct E as [E1 [E2 [E3 E4]]]. rewrite E1, E2, E3, E4. reflexivity.
    + cbn [startswith ascii_eqb Ascii.eqb Bool.eqb andb] in *.
      unfold extract_py_new_syntax_v, extract_py_old_syntax. rewrite El'.
      rewrite (strip_mid ind "@py:" t' Hi Ht' eq_refl) by discriminate. cbn [String.eqb Ascii.eqb Bool.eqb negb].
      rewrite (nth_default_error _ _ _ El).
      apply (py_conv_go (ind ++ "<<py" ++ t) (ind ++ "@py:" ++ t') i _ _ (F2_skipn _ _ (S i) _ _ F) Hc).
      intros line. apply (woi_same_indent ind "<<py" "@py:" t t' line "<" "@" "<py" "py:" Hi); reflexivity.
    + reflexivity.
Qed.

(* ------------------------------------------------------------------------------------------- *)
(* multi-line `~` statements, blocks of `-> @join` choices                                      *)
(* ------------------------------------------------------------------------------------------- *)

Fixpoint eme_safe2 (rest : list string) (stack : list ascii) : bool :=
  match rest with
  | [] => true
  | l :: r =>
      match stack with
      | [] => true
      | _ => negb (is_leg2 l) &&
             match scan_brackets l stack with
             | [] => true
             | st' => eme_safe2 r st'
             end
      end
  end.

Definition emx_chk2 (lines : list string) (i : nat) (code : string) : bool :=
  let s := strip code in
  if negb (endswith s "[" || endswith s "{" || endswith s "(") then true
  else eme_safe2 (skipn (S i) lines) (initial_stack s []).

Lemma eme_loop_sim2 : forall r r', Forall2 Rs r r' -> forall st acc n, eme_safe2 r st = true ->
  eme_loop r' st acc n = eme_loop r st acc n /\
  firstn (eme_count r st) r' = firstn (eme_count r st) r.
Proof.
  intros r r' F. induction F as [|l l' r r' H F IH]; intros st acc n Hs; [split; reflexivity|].
  cbn [eme_loop eme_safe2 eme_count] in *. destruct st as [|t st]; [split; reflexivity|].
  apply andb_prop in Hs. destruct Hs as [Hl Hs]. apply negb_true_iff in Hl.
  pose proof (Rz_changed _ _ _ H Hl) as <-.
  destruct (scan_brackets l (t :: st)) as [|t' st'] eqn:E; [split; reflexivity|].
  destruct (IH (t' :: st') (l :: acc) (S n) Hs) as [H1 H2]. split; [exact H1|].
  cbn [firstn]. f_equal. exact H2.
Qed.

Lemma emx_sim2 : forall L L' i code, Forall2 Rs L L' -> emx_chk2 L i code = true ->
  extract_multiline_expression L' i code = extract_multiline_expression L i code /\
  firstn (snd (extract_multiline_expression L i code) - 1) (skipn (S i) L') =
  firstn (snd (extract_multiline_expression L i code) - 1) (skipn (S i) L).
Proof.
  intros L L' i code F Hc. unfold extract_multiline_expression, emx_chk2 in *.
  destruct (negb _); [split; reflexivity|].
  destruct (eme_loop_sim2 _ _ (F2_skipn _ _ (S i) _ _ F) (initial_stack (strip code) []) [code] 0 Hc) as [H1 H2].
  rewrite H1. split; [reflexivity|].
  pose proof (eme_loop_count (skipn (S i) L) (initial_stack (strip code) []) [code] 0) as Hn.
  destruct (eme_loop (skipn (S i) L) (initial_stack (strip code) []) [code] 0) as [acc n].
  cbn [snd] in *. replace (S n - 1) with (eme_count (skipn (S i) L) (initial_stack (strip code) [])) by lia.
  exact H2.
Qed.

(* Since fix F17n the block of a `-> @join` choice ends at a legacy header or `<<py` as at its @ form; what is left
   is the closer `>>` of a legacy Python block, which does not end the block while `@endpy` does *)
Fixpoint join_safe2 (ci : nat) (rest : list string) : bool :=
  match rest with
  | [] => true
  | line :: rest' =>
      if is_join_block_terminator line then true
      else if negb (ParseBlocks.nonempty (strip line)) || is_comment_line line then join_safe2 ci rest'
      else if ws_run line <=? ci then true
      else negb (String.eqb (strip line) ">>") && join_safe2 ci rest'
  end.

Definition jterm (stripped : string) : bool :=
  if negb (ParseBlocks.nonempty stripped) then false
  else if startswith stripped "+ [" || startswith stripped "* [" then true
  else if startswith stripped "+ {" || startswith stripped "* {" then true
  else if String.eqb stripped "@join" then true
  else if startswith stripped ":: " then true
  else if existsb (fun m => startswith stripped m || String.eqb stripped (rstrip_colons m)) block_markers then true
  else existsb (fun m => startswith stripped m) legacy_markers.

Lemma hp2_join_facts : forall B B', hp2 B B' ->
  jterm B' = true /\ (jterm B = true \/ (jterm B = false /\ B = ">>")) /\
  ParseBlocks.nonempty B = true /\ startswith B "#" = false.
Proof.
  intros B B' H. unfold jterm. destruct H as [B B' H| |]; [destruct H|..]; repeat split; try (left; hp_refl); try hp_refl.
  right. split; reflexivity.
Qed.

Lemma join_collect_sim2 : forall ci r r', Forall2 Rs r r' -> join_safe2 ci r = true ->
  forall blk k, join_collect ci r' blk k = join_collect ci r blk k.
Proof.
  intros ci r r' F. induction F as [|x x' r r' H F IH]; intros Hs blk k; [reflexivity|].
  cbn [join_collect]. cbn [join_safe2] in Hs.
  destruct H as [[<- _]|(ind & B & B' & t & t' & Hi & Ht & Ht' & HP & -> & ->)].
  - destruct (is_join_block_terminator x); [reflexivity|].
    destruct (negb (ParseBlocks.nonempty (strip x)) || is_comment_line x); [apply IH; exact Hs|].
    destruct (ws_run x <=? ci); [reflexivity|]. apply andb_prop in Hs. apply IH. tauto.
  - destruct (hp2_strip _ _ HP) as [Hs1 [Hs1' [Hn1 Hn1']]].
    destruct (hp2_join_facts _ _ HP) as [E2 [E1 [E3 E4]]].
    unfold is_join_block_terminator, is_comment_line in *. fold (jterm (strip (ind ++ B ++ t))) in *.
    fold (jterm (strip (ind ++ B' ++ t'))).
    rewrite (strip_mid ind B t Hi Ht Hs1 Hn1) in *. rewrite (strip_mid ind B' t' Hi Ht' Hs1' Hn1').
    rewrite E2. destruct E1 as [E1|[E1 ->]]; rewrite E1 in *; [reflexivity|].
    cbn [ParseBlocks.nonempty negb orb startswith ascii_eqb Ascii.eqb Bool.eqb andb String.eqb] in *.
    rewrite (ws_run_mid ind ">>" t Hi eq_refl) in * by discriminate.
    destruct (String.length ind <=? ci); [reflexivity|discriminate Hs].
Qed.

Lemma join_sim2 : forall lf L L' start ci, Forall2 Rs L L' -> join_safe2 ci (skipn start L) = true ->
  extract_join_choice_block lf L' start ci = extract_join_choice_block lf L start ci.
Proof.
  intros lf L L' start ci F Hs. unfold extract_join_choice_block.
  rewrite (join_collect_sim2 ci _ _ (F2_skipn _ _ start _ _ F) Hs). reflexivity.
Qed.

(* ------------------------------------------------------------------------------------------- *)
(* the conditional and the loop extractor                                                       *)
(* ------------------------------------------------------------------------------------------- *)

Section Blocks2.
Variable cap : option nat.
Variable lf : linefns.
Hypothesis Hemx : lf_emx lf = extract_multiline_expression.
Local Notation fixed := true (only parsing).

Section OpenChk2.
Variables rc rl : list string -> nat -> pres (token * nat).
Variables rcchk rlchk : list string -> nat -> bool.

Definition cond_line_chk2 (lines : list string) (start i : nat) (line : string) (st : cstate) : bool :=
  let stripped := strip line in
  let cur := has_cur st in
  if startswith stripped "#" then true
  else if is_py_line stripped && cur then py_chk2 lines i
  else if startswith stripped "@input" && cur then true
  else if startswith stripped "@render" && cur then true
  else if startswith stripped "@hook " && cur then true
  else if startswith stripped "@unhook " && cur then true
  else if startswith stripped "~ " && cur
       then emx_chk2 lines i (fst (strip_inline_comment (strip (drop 2 stripped))))
  else if is_if_line stripped && negb (i =? start) && cur then rcchk lines i
  else if is_for_line stripped && cur then rlchk lines i
  else negb ((String.eqb stripped "<<endfor>>" || String.eqb stripped ">>") && cur).

Fixpoint cond_go_chk2 (lines : list string) (start : nat) (rest : list string) (i skip : nat) (st : cstate)
  : bool :=
  match rest with
  | [] => true
  | line :: rest' =>
      match skip with
      | S k => cond_go_chk2 lines start rest' (S i) k st
      | O =>
          cond_line_chk2 lines start i line st &&
          match cond_step fixed lf rc rl lines start i line st with
          | POk (CNext st' (S k)) => cond_go_chk2 lines start rest' (S i) k st'
          | _ => true
          end
      end
  end.

Definition body_line_chk2 (ded : list string) (j : nat) (line : string) : bool :=
  let stripped := strip line in
  if startswith stripped "#" then true
  else if is_py_line stripped then py_chk2 ded j
  else if startswith stripped "@input" then true
  else if startswith stripped "@render" then true
  else if startswith stripped "@hook " then true
  else if startswith stripped "@unhook " then true
  else if startswith line "~ " then emx_chk2 ded j (fst (strip_inline_comment (strip (drop 2 line))))
  else if is_for_line stripped then rlchk ded j
  else if is_if_line stripped then rcchk ded j
  else if startswith stripped "->" then true
  else if is_choice_line stripped then true
  else negb (is_leg2 line).

Fixpoint body_go_chk2 (ded rest : list string) (j skip : nat) (content : list token) (chs : list choice)
  : bool :=
  match rest with
  | [] => true
  | line :: rest' =>
      match skip with
      | S k => body_go_chk2 ded rest' (S j) k content chs
      | O =>
          body_line_chk2 ded j line &&
          match ParseBlocks.body_step fixed lf rc rl ded j line content chs with
          | POk (content', chs', S k) => body_go_chk2 ded rest' (S j) k content' chs'
          | _ => true
          end
      end
  end.

Definition loop_body_chk2 (lines : list string) (start : nat) : bool :=
  match loop_collect start (skipn start lines) start false 0%Z [] "" "" with
  | POk (_, _, raw, _, _) =>
      let ded := detect_and_strip_indentation (drop_leading_comments raw) in
      body_go_chk2 ded ded 0 0 [] []
  | _ => true
  end.

Hypothesis Hrc : forall M M' i, Forall2 Rs M M' -> rcchk M i = true -> rc M' i = rc M i.
Hypothesis Hrl : forall M M' i, Forall2 Rs M M' -> rlchk M i = true -> rl M' i = rl M i.

Lemma cond_py_statement_sim2 : forall L L' i line raw, Forall2 Rs L L' ->
  emx_chk2 L i (fst (strip_inline_comment (strip raw))) = true ->
  cond_py_statement fixed lf L' i line raw = cond_py_statement fixed lf L i line raw.
Proof.
  intros L L' i line raw F Hc. unfold cond_py_statement, py_statement. rewrite Hemx.
  destruct (emx_sim2 L L' i _ F Hc) as [H1 H2]. rewrite H1.
  destruct (fixed && (1 <? snd (extract_multiline_expression L i (fst (strip_inline_comment (strip raw)))))); [|reflexivity].
  rewrite H2. reflexivity.
Qed.

Lemma cond_step_sim2 : forall L L' start i line line' st, Forall2 Rs L L' -> Rs line line' ->
  cond_line_chk2 L start i line st = true ->
  cond_step fixed lf rc rl L' start i line' st = cond_step fixed lf rc rl L start i line st.
Proof.
  intros L L' start i line line' st F H Hc.
  destruct (Rz_strip _ _ _ H) as [[<- _]|HP].
  - unfold cond_step, cond_line_chk2 in *. cbv zeta in *.
    destruct (startswith (strip line) "#"); [reflexivity|].
    destruct (is_py_line (strip line) && has_cur st); [rewrite (py_sim2 L L' i F Hc); reflexivity|].
    destruct (startswith (strip line) "@input" && has_cur st); [reflexivity|].
    destruct (startswith (strip line) "@render" && has_cur st); [reflexivity|].
    destruct (startswith (strip line) "@hook " && has_cur st); [reflexivity|].
    destruct (startswith (strip line) "@unhook " && has_cur st); [reflexivity|].
    destruct (startswith (strip line) "~ " && has_cur st);
      [rewrite (cond_py_statement_sim2 L L' i line _ F Hc); reflexivity|].
    destruct (is_if_line (strip line) && negb (i =? start) && has_cur st); [rewrite (Hrc L L' i F Hc); reflexivity|].
    destruct (is_for_line (strip line) && has_cur st); [rewrite (Hrl L L' i F Hc); reflexivity|].
    reflexivity.
  - unfold cond_step, cond_line_chk2 in *. cbv zeta in *.
    destruct (hp2_nc _ _ HP) as [Hf Hf']. rewrite Hf, Hf'. cbn [fst].
    revert Hc.
    destruct HP as [B B' HP| |];
      [destruct HP as [c x body Hne Hn1 Hn2 Hm1 Hm2 Hx | c x body Hne Hn1 Hn2 Hm1 Hm2 Hx | | | m v coll Hne Hn1 Hn2 Hm1 Hm2 | ]| |];
      unfold is_if_line, is_for_line, is_py_line, is_choice_line, legacy_condition.
    + (* if *)
      cbn [append] in Hm1, Hm2.
      cbn -[strip strip_inline_comment flush_cur match_legacy match_colon_tail]. rewrite ?sw_nil.
      rewrite Hm1, Hm2, Hx.
      intros Hc. destruct (i =? start); destruct (has_cur st); cbn in *; try reflexivity.
      rewrite (Hrc L L' i F Hc). reflexivity.
    + (* elif *)
      cbn [append] in Hm1, Hm2.
      cbn -[strip strip_inline_comment flush_cur match_legacy match_colon_tail start_new_branch]. rewrite ?sw_nil.
      rewrite Hm1, Hm2, Hx.
      intros _. reflexivity.
    + (* else *)
      cbn -[flush_cur start_new_branch]. intros _. reflexivity.
    + (* endif *)
      cbn -[flush_cur finalize]. intros _. reflexivity.
    + (* for *)
      cbn -[strip strip_inline_comment flush_cur]. rewrite ?sw_nil.
      intros Hc. destruct (has_cur st); cbn in *; try reflexivity.
      rewrite (Hrl L L' i F Hc). reflexivity.
    + (* endfor *)
      cbn -[flush_cur]. destruct (has_cur st); cbn; [discriminate|reflexivity].
    + (* <<py / @py: *)
      cbn -[flush_cur extract_python_block_v py_chk2]. intros Hc. destruct (has_cur st); cbn -[flush_cur extract_python_block_v py_chk2] in *; [|reflexivity].
      rewrite (py_sim2 L L' i F Hc). reflexivity.
    + (* >> / @endpy *)
      cbn -[flush_cur]. destruct (has_cur st); cbn; [discriminate|reflexivity].
Qed.

Lemma cond_go_sim2 : forall L L' start, Forall2 Rs L L' ->
  forall rest rest', Forall2 Rs rest rest' -> forall i skip st,
  cond_go_chk2 L start rest i skip st = true ->
  cond_go fixed lf rc rl L' start rest' i skip st = cond_go fixed lf rc rl L start rest i skip st.
Proof.
  intros L L' start F rest rest' G. induction G as [|line line' rest rest' H G IH]; intros i skip st Hc; [reflexivity|].
  cbn [cond_go cond_go_chk2] in *. destruct skip as [|k]; [|apply IH; exact Hc].
  apply andb_prop in Hc. destruct Hc as [Hc1 Hc2].
  rewrite (cond_step_sim2 L L' start i line line' st F H Hc1).
  destruct (cond_step fixed lf rc rl L start i line st) as [[st' [|k]|brs]|d|e|]; try reflexivity.
  apply IH. exact Hc2.
Qed.

Lemma cond_body_sim2 : forall L L' start, Forall2 Rs L L' ->
  cond_go_chk2 L start (skipn start L) start 0 cstate0 = true ->
  cond_body fixed lf rc rl L' start = cond_body fixed lf rc rl L start.
Proof.
  intros L L' start F Hc. unfold cond_body. apply cond_go_sim2; [exact F|apply F2_skipn; exact F|exact Hc].
Qed.

Definition collect_rel2 (a b : pres (bool * nat * list string * string * string)) : Prop :=
  match a, b with
  | POk (f, i, raw, v, c), POk (f', i', raw', v', c') => f' = f /\ i' = i /\ Forall2 Rs raw raw' /\ v' = v /\ c' = c
  | PDiag d, PDiag d' => d' = d
  | PInternal e, PInternal e' => e' = e
  | POutOfFuel, POutOfFuel => True
  | _, _ => False
  end.

Lemma loop_collect_sim2 : forall start rest rest', Forall2 Rs rest rest' ->
  forall i started depth raw raw' vr cl, Forall2 Rs raw raw' ->
  collect_rel2 (loop_collect start rest i started depth raw vr cl)
               (loop_collect start rest' i started depth raw' vr cl).
Proof.
  intros start rest rest' G. induction G as [|line line' rest rest' H G IH]; intros i started depth raw raw' vr cl Hr.
  - cbn. repeat split; try reflexivity. exact Hr.
  - cbn [loop_collect].
    assert (Happ : Forall2 Rs (raw ++ [line])%list (raw' ++ [line'])%list) by (apply F2_app; [exact Hr|constructor; [exact H|constructor]]).
    destruct (Rz_strip _ _ _ H) as [[<- _]|HP].
    + destruct (is_for_line (strip line) && (i =? start)).
      * destruct (startswith (strip line) "@for ").
        -- destruct (match_for_colon _) as [[v c]|]; [apply IH; exact Hr|reflexivity].
        -- destruct (match_for_legacy _) as [[v c]|]; [apply IH; exact Hr|reflexivity].
      * destruct (String.eqb (strip line) "@endfor:"); [reflexivity|].
        destruct (started && is_for_line (strip line)); [apply IH; exact Happ|].
        destruct (startswith (strip line) "<<endfor>>" || String.eqb (strip line) "@endfor").
        -- destruct ((depth - 1 =? 0)%Z); [cbn; repeat split; try reflexivity; exact Hr|apply IH; exact Happ].
        -- apply IH. destruct started; assumption.
    + destruct (hp2_nc _ _ HP) as [Hf Hf']. rewrite Hf, Hf'. cbn [fst].
      destruct HP as [B B' HP| |];
        [destruct HP as [c x body Hne Hn1 Hn2 Hm1 Hm2 Hx | c x body Hne Hn1 Hn2 Hm1 Hm2 Hx | | | m v coll Hne Hn1 Hn2 Hm1 Hm2 | ]| |];
        unfold is_for_line.
      * destruct started; cbn -[Z.add Z.sub Z.eqb collect_rel2]; rewrite ?sw_nil; apply IH; assumption.
      * destruct started; cbn -[Z.add Z.sub Z.eqb collect_rel2]; rewrite ?sw_nil; apply IH; assumption.
      * destruct started; cbn -[Z.add Z.sub Z.eqb collect_rel2]; apply IH; assumption.
      * destruct started; cbn -[Z.add Z.sub Z.eqb collect_rel2]; apply IH; assumption.
      * cbn [append] in Hm1, Hm2.
        destruct started; cbn -[Z.add Z.sub Z.eqb match_for_colon match_for_legacy collect_rel2]; rewrite ?sw_nil; rewrite Hm1, Hm2;
        destruct (i =? start); cbn -[Z.add Z.sub Z.eqb collect_rel2]; apply IH; assumption.
      * destruct started; cbn -[Z.add Z.sub Z.eqb collect_rel2];
        (destruct ((depth - 1 =? 0)%Z); [cbn; repeat split; try reflexivity; exact Hr|apply IH; assumption]).
      * destruct started; cbn -[Z.add Z.sub Z.eqb collect_rel2]; apply IH; assumption.
      * destruct started; cbn -[Z.add Z.sub Z.eqb collect_rel2]; apply IH; assumption.
Qed.

Lemma hp2_plain_facts : forall B B', hp2 B B' ->
  startswith B "#" = false /\ startswith B' "#" = false /\
  ParseBlocks.nonempty B = true /\ ParseBlocks.nonempty B' = true.
Proof. intros B B' H. destruct H as [B B' H| |]; [destruct H|..]; repeat split; reflexivity. Qed.

Lemma dlc_sim2 : forall raw raw', Forall2 Rs raw raw' ->
  Forall2 Rs (drop_leading_comments raw) (drop_leading_comments raw').
Proof.
  intros raw raw' F. induction F as [|l l' r r' H F IH]; [constructor|].
  cbn [drop_leading_comments].
  destruct (Rz_strip _ _ _ H) as [[E _]|HP].
  - subst l'. destruct (startswith (strip l) "#"); [exact IH|].
    destruct (negb (ParseBlocks.nonempty (strip l))); [constructor; [exact H|exact IH]|].
    constructor; [exact H|exact F].
  - destruct (hp2_plain_facts _ _ HP) as [E1 [E2 [E3 E4]]]. rewrite E1, E2, E3, E4. cbn [negb].
    constructor; assumption.
Qed.

Lemma py_statement_sim2 : forall D D' j raw, Forall2 Rs D D' ->
  emx_chk2 D j (fst (strip_inline_comment (strip raw))) = true ->
  py_statement lf D' j raw = py_statement lf D j raw.
Proof.
  intros D D' j raw F Hc. unfold py_statement. rewrite Hemx.
  destruct (emx_sim2 D D' j _ F Hc) as [H1 _]. exact H1.
Qed.

Lemma hp2_first_chars : forall B B', hp2 B B' ->
  startswith B "~" = false /\ startswith B' "~" = false /\ startswith B "+" = false /\ startswith B' "+" = false /\
  startswith B "*" = false /\ startswith B' "*" = false /\ startswith B ":" = false /\ startswith B' ":" = false.
Proof. intros B B' H. destruct H as [B B' H| |]; [destruct H|..]; repeat split; reflexivity. Qed.

Lemma lbody_step_sim2 : forall D D' j line line' content chs, Forall2 Rs D D' -> Rs line line' ->
  body_line_chk2 D j line = true ->
  ParseBlocks.body_step fixed lf rc rl D' j line' content chs =
  ParseBlocks.body_step fixed lf rc rl D j line content chs.
Proof.
  intros D D' j line line' content chs F H Hc.
  destruct H as [[<- _]|(ind & B & B' & t & t' & Hi & Ht & Ht' & HP & -> & ->)].
  - unfold ParseBlocks.body_step, body_line_chk2 in *. cbv zeta in *.
    destruct (startswith (strip line) "#"); [reflexivity|].
    destruct (is_py_line (strip line)); [rewrite (py_sim2 D D' j F Hc); reflexivity|].
    destruct (startswith (strip line) "@input"); [reflexivity|].
    destruct (startswith (strip line) "@render"); [reflexivity|].
    destruct (startswith (strip line) "@hook "); [reflexivity|].
    destruct (startswith (strip line) "@unhook "); [reflexivity|].
    destruct (startswith line "~ "); [rewrite (py_statement_sim2 D D' j _ F Hc); reflexivity|].
    destruct (is_for_line (strip line)); [rewrite (Hrl D D' j F Hc); reflexivity|].
    destruct (is_if_line (strip line)); [rewrite (Hrc D D' j F Hc); reflexivity|].
    reflexivity.
  - pose proof (changed2_is_leg ind B B' t Hi Ht HP) as Hleg.
    unfold ParseBlocks.body_step, body_line_chk2 in *. cbv zeta in *.
    destruct (hp2_strip _ _ HP) as [Hs [Hs' [Hn Hn']]].
    rewrite (strip_mid ind B t Hi Ht Hs Hn) in *. rewrite (strip_mid ind B' t' Hi Ht' Hs' Hn').
    assert (Ht1 : startswith (ind ++ B ++ t) "~ " = false /\ startswith (ind ++ B' ++ t') "~ " = false).
    { split; apply sw_line; try assumption; try reflexivity; destruct HP as [B B' HP| |]; try reflexivity; destruct HP; reflexivity. }
    destruct Ht1 as [Ht1 Ht2]. rewrite Ht1 in *. rewrite Ht2. rewrite Hleg in Hc. clear Hleg.
    revert Hc.
    destruct HP as [B B' HP| |]; [destruct HP| |]; unfold is_if_line, is_for_line, is_py_line, is_choice_line;
      cbn -[content_line_glue extract_python_block_v py_chk2]; rewrite ?sw_nil; intros Hc; try discriminate Hc.
    + rewrite (Hrc D D' j F Hc). reflexivity.
    + rewrite (Hrl D D' j F Hc). reflexivity.
    + rewrite (py_sim2 D D' j F Hc). reflexivity.
Qed.

Lemma lbody_go_sim2 : forall D D', Forall2 Rs D D' ->
  forall rest rest', Forall2 Rs rest rest' -> forall j skip content chs,
  body_go_chk2 D rest j skip content chs = true ->
  body_go fixed lf rc rl D' rest' j skip content chs = body_go fixed lf rc rl D rest j skip content chs.
Proof.
  intros D D' F rest rest' G. induction G as [|line line' rest rest' H G IH]; intros j skip content chs Hc; [reflexivity|].
  cbn [body_go body_go_chk2] in *. destruct skip as [|k]; [|apply IH; exact Hc].
  apply andb_prop in Hc. destruct Hc as [Hc1 Hc2].
  rewrite (lbody_step_sim2 D D' j line line' content chs F H Hc1).
  destruct (ParseBlocks.body_step fixed lf rc rl D j line content chs) as [[[c' ch'] [|k]]|d|e|]; try reflexivity.
  apply IH. exact Hc2.
Qed.

Lemma loop_body_sim2 : forall L L' start, Forall2 Rs L L' -> loop_body_chk2 L start = true ->
  loop_body fixed lf rc rl L' start = loop_body fixed lf rc rl L start.
Proof.
  intros L L' start F Hc. unfold loop_body, loop_body_chk2 in *.
  pose proof (loop_collect_sim2 start _ _ (F2_skipn _ _ start _ _ F) start false 0%Z [] [] "" "" (Forall2_nil _)) as Hcol.
  unfold collect_rel2 in Hcol.
  destruct (loop_collect start (skipn start L) start false 0 [] "" "") as [[[[[f i] raw] v] c]|d|e|];
  destruct (loop_collect start (skipn start L') start false 0 [] "" "") as [[[[[f' i'] raw'] v'] c']|d'|e'|];
  try contradiction; try (subst; reflexivity).
  destruct Hcol as [-> [-> [Hraw [-> ->]]]]. cbn [pbind].
  assert (Hd : Forall2 Rs (detect_and_strip_indentation (drop_leading_comments raw))
                          (detect_and_strip_indentation (drop_leading_comments raw'))).
  { apply Rz_dedent. apply dlc_sim2. exact Hraw. }
  rewrite (lbody_go_sim2 _ _ Hd _ _ Hd 0 0 [] [] Hc). reflexivity.
Qed.
End OpenChk2.

Fixpoint cond_chk_f2 (n depth : nat) (lines : list string) (start : nat) : bool :=
  match n with
  | O => true
  | S n' =>
      if too_deep cap depth then true
      else cond_go_chk2 (extract_conditional_block_f fixed cap lf n' (S depth))
                        (extract_loop_block_f fixed cap lf n' (S depth))
                        (cond_chk_f2 n' (S depth)) (loop_chk_f2 n' (S depth))
                        lines start (skipn start lines) start 0 cstate0
  end
with loop_chk_f2 (n depth : nat) (lines : list string) (start : nat) : bool :=
  match n with
  | O => true
  | S n' =>
      if too_deep cap depth then true
      else loop_body_chk2 (extract_conditional_block_f fixed cap lf n' (S depth))
                          (extract_loop_block_f fixed cap lf n' (S depth))
                          (cond_chk_f2 n' (S depth)) (loop_chk_f2 n' (S depth))
                          lines start
  end.

Lemma blocks_sim2 : forall n depth,
  (forall M M' i, Forall2 Rs M M' -> cond_chk_f2 n depth M i = true ->
     extract_conditional_block_f fixed cap lf n depth M' i = extract_conditional_block_f fixed cap lf n depth M i) /\
  (forall M M' i, Forall2 Rs M M' -> loop_chk_f2 n depth M i = true ->
     extract_loop_block_f fixed cap lf n depth M' i = extract_loop_block_f fixed cap lf n depth M i).
Proof.
  induction n as [|n IH]; intros depth; [split; intros; reflexivity|].
  destruct (IH (S depth)) as [IHc IHl].
  split; intros M M' i F Hc; cbn [extract_conditional_block_f extract_loop_block_f cond_chk_f2 loop_chk_f2] in *;
    destruct (too_deep cap depth); try reflexivity.
  - apply (cond_body_sim2 _ _ _ _ IHc IHl); assumption.
  - apply (loop_body_sim2 _ _ _ _ IHc IHl); assumption.
Qed.

Definition cond_chk_v2 (lines : list string) (start : nat) : bool :=
  cond_chk_f2 (block_fuel lines start) 0 lines start.
Definition loop_chk_v2 (lines : list string) (start : nat) : bool :=
  loop_chk_f2 (block_fuel lines start) 0 lines start.

Lemma block_fuel_Rs : forall L L' start, Forall2 Rs L L' -> block_fuel L' start = block_fuel L start.
Proof. intros L L' start F. unfold block_fuel. rewrite (F2_length _ _ _ _ F). reflexivity. Qed.

Lemma cond_v_sim2 : forall L L' start, Forall2 Rs L L' -> cond_chk_v2 L start = true ->
  extract_conditional_block_v fixed cap lf L' start = extract_conditional_block_v fixed cap lf L start.
Proof.
  intros L L' start F Hc. unfold extract_conditional_block_v. rewrite (block_fuel_Rs _ _ start F).
  apply (proj1 (blocks_sim2 _ _)); assumption.
Qed.

Lemma loop_v_sim2 : forall L L' start, Forall2 Rs L L' -> loop_chk_v2 L start = true ->
  extract_loop_block_v fixed cap lf L' start = extract_loop_block_v fixed cap lf L start.
Proof.
  intros L L' start F Hc. unfold extract_loop_block_v. rewrite (block_fuel_Rs _ _ start F).
  apply (proj2 (blocks_sim2 _ _)); assumption.
Qed.
End Blocks2.

(* ------------------------------------------------------------------------------------------- *)
(* the main loop                                                                                *)
(* ------------------------------------------------------------------------------------------- *)

Section MainLoop2.
Variable pp : pyparse.
Variable xs : extractors.
Variables cchk lchk : list string -> nat -> bool.
Hypothesis Hxp : forall L L' i, Forall2 Rs L L' -> py_chk2 L i = true -> x_python xs L' i = x_python xs L i.
Hypothesis Hxc : forall L L' i, Forall2 Rs L L' -> cchk L i = true -> x_conditional xs L' i = x_conditional xs L i.
Hypothesis Hxl : forall L L' i, Forall2 Rs L L' -> lchk L i = true -> x_loop xs L' i = x_loop xs L i.
Hypothesis Hxj : forall L L' s ci, Forall2 Rs L L' -> join_safe2 ci (skipn s L) = true ->
  x_join xs L' s ci = x_join xs L s ci.

Definition main_body_chk2 (lines : list string) (i : nat) (line : string) : bool :=
  let stripped := strip line in
  if startswith stripped "#" then true else
  if startswith stripped "<<py" || startswith stripped "@py" then py_chk2 lines i else
  if startswith stripped "<<if " || startswith stripped "@if " then cchk lines i else
  if startswith stripped "<<for " || startswith stripped "@for " then lchk lines i else
  if startswith stripped "@render" then true else
  if startswith stripped "@input" then true else
  if startswith stripped "@hook " then true else
  if startswith stripped "@unhook " then true else
  if String.eqb stripped "@join" then true else
  if startswith stripped "->" then true else
  if startswith line "~ " then emx_chk2 lines i (fst (strip_inline_comment (strip (drop 2 line)))) else
  if startswith line "+ " || startswith line "* " then
    match parse_choice_line line with
    | POk (Some (Choice _ target _ _ _ _ _ _)) =>
        if String.eqb target "@join" then join_safe2 (indent_of line) (skipn (S i) lines) else true
    | _ => true
    end else
  negb (is_leg2 line).

Lemma main_body_sim2 : forall L L' i line line' st cp, Forall2 Rs L L' -> Rs line line' ->
  main_body_chk2 L i line = true ->
  ParseMain.body_step pp xs L' i line' st cp = ParseMain.body_step pp xs L i line st cp.
Proof.
  intros L L' i line line' st cp F H Hc.
  destruct H as [[<- _]|(ind & B & B' & t & t' & Hi & Ht & Ht' & HP & -> & ->)].
  - unfold ParseMain.body_step, main_body_chk2 in *. cbv zeta in *.
    destruct (startswith (strip line) "#"); [reflexivity|].
    destruct (startswith (strip line) "<<py" || startswith (strip line) "@py"); [rewrite (Hxp L L' i F Hc); reflexivity|].
    destruct (startswith (strip line) "<<if " || startswith (strip line) "@if "); [rewrite (Hxc L L' i F Hc); reflexivity|].
    destruct (startswith (strip line) "<<for " || startswith (strip line) "@for "); [rewrite (Hxl L L' i F Hc); reflexivity|].
    destruct (startswith (strip line) "@render"); [reflexivity|].
    destruct (startswith (strip line) "@input"); [reflexivity|].
    destruct (startswith (strip line) "@hook "); [reflexivity|].
    destruct (startswith (strip line) "@unhook "); [reflexivity|].
    destruct (String.eqb (strip line) "@join"); [reflexivity|].
    destruct (startswith (strip line) "->"); [reflexivity|].
    destruct (startswith line "~ ").
    { destruct (strip_inline_comment (strip (drop 2 line))) as [code cm]. cbn [fst] in Hc.
      destruct (emx_sim2 L L' i code F Hc) as [H1 _]. rewrite H1. reflexivity. }
    destruct (startswith line "+ " || startswith line "* "); [|reflexivity].
    destruct (validate_choice_syntax line i); try reflexivity. cbn [pbind].
    destruct (parse_choice_line line) as [[[text target args cond sticky sec tags blk]|]|d|e|]; try reflexivity;
      try (destruct d; reflexivity).
    cbn [retag pbind]. destruct (String.eqb target "@join"); [|reflexivity].
    rewrite (Hxj L L' (S i) (indent_of line) F Hc). reflexivity.
  - pose proof (changed2_is_leg ind B B' t Hi Ht HP) as Hleg.
    unfold ParseMain.body_step, main_body_chk2 in *. cbv zeta in *.
    destruct (hp2_strip _ _ HP) as [Hs [Hs' [Hn Hn']]].
    rewrite (strip_mid ind B t Hi Ht Hs Hn) in *. rewrite (strip_mid ind B' t' Hi Ht' Hs' Hn').
    assert (Ht1 : startswith (ind ++ B ++ t) "~ " = false /\ startswith (ind ++ B' ++ t') "~ " = false /\
                  startswith (ind ++ B ++ t) "+ " = false /\ startswith (ind ++ B' ++ t') "+ " = false /\
                  startswith (ind ++ B ++ t) "* " = false /\ startswith (ind ++ B' ++ t') "* " = false).
    { repeat split; apply sw_line; try assumption; try reflexivity;
        destruct HP as [B B' HP| |]; try reflexivity; destruct HP; reflexivity. }
    destruct Ht1 as [E1 [E2 [E3 [E4 [E5 E6]]]]]. rewrite E1, E3, E5 in *. rewrite E2, E4, E6. rewrite Hleg in Hc. clear Hleg.
    revert Hc. destruct HP as [B B' HP| |]; [destruct HP| |];
      cbn -[x_conditional x_loop x_python py_chk2]; rewrite ?sw_nil; intros Hc; try discriminate Hc.
    + rewrite (Hxc L L' i F Hc). reflexivity.
    + rewrite (Hxl L L' i F Hc). reflexivity.
    + rewrite (Hxp L L' i F Hc). reflexivity.
Qed.

Definition meta_bad2 (line : string) (st0 : pstate) : bool :=
  is_leg2 line && st_in_metadata st0 &&
  (startswith line " " || startswith line (String (ascii_of_nat 9) EmptyString)).

Definition main_step_chk2 (lines : list string) (i : nat) (line : string) (st0 : pstate) : bool :=
  negb (meta_bad2 line st0) &&
  match route i line st0 with
  | inl _ => true
  | inr _ => main_body_chk2 lines i line
  end.

Lemma route_changed2 : forall i ind B B' t t' st0, all_space ind = true -> all_space t = true -> all_space t' = true ->
  hp2 B B' -> meta_bad2 (ind ++ B ++ t) st0 = false ->
  route i (ind ++ B' ++ t') st0 = route i (ind ++ B ++ t) st0.
Proof.
  intros i ind B B' t t' st0 Hi Ht Ht' HP Hc.
  pose proof (changed2_is_leg ind B B' t Hi Ht HP) as Hleg.
  unfold route, meta_bad2 in *. cbv zeta in *.
  destruct (hp2_strip _ _ HP) as [Hs [Hs' [Hn Hn']]].
  rewrite (strip_mid ind B t Hi Ht Hs Hn). rewrite (strip_mid ind B' t' Hi Ht' Hs' Hn').
  assert (Hh : startswith (ind ++ B ++ t) ":: " = false /\ startswith (ind ++ B' ++ t') ":: " = false).
  { split; apply sw_line; try assumption; try reflexivity; destruct HP as [B B' HP| |]; try reflexivity; destruct HP; reflexivity. }
  destruct Hh as [Hh Hh']. rewrite Hh, Hh'. rewrite Hleg in Hc. cbn [andb] in Hc.
  assert (Hsp : forall a, is_space a = true ->
            startswith (ind ++ B' ++ t') (String a "") = startswith (ind ++ B ++ t) (String a "")).
  { intros a Ha. destruct B as [|x X]; [congruence|]. destruct B' as [|y Y]; [congruence|].
    apply (sw_space_eq ind (String x X ++ t) (String y Y ++ t') x y (X ++ t) (Y ++ t') a Hi); try reflexivity; try exact Ha.
    - eapply strip_first_nonspace; [reflexivity|exact Hs].
    - eapply strip_first_nonspace; [reflexivity|exact Hs']. }
  rewrite (Hsp " "%char eq_refl). rewrite (Hsp (ascii_of_nat 9) eq_refl).
  assert (EB : ParseLine.nonempty B = true /\ ParseLine.nonempty B' = true /\
               startswith B "#" = false /\ startswith B' "#" = false /\
               startswith B "import " = false /\ startswith B' "import " = false /\
               startswith B "from " = false /\ startswith B' "from " = false /\
               String.eqb B "@metadata" = false /\ String.eqb B' "@metadata" = false /\
               startswith B "@start " = false /\ startswith B' "@start " = false)
    by (destruct HP as [B B' HP| |]; [destruct HP|..]; repeat split; reflexivity).
  destruct EB as (e1 & e2 & e3 & e4 & e5 & e6 & e7 & e8 & e9 & e10 & e11 & e12).
  rewrite e1, e3, e5, e7, e9, e11. rewrite e2, e4, e6, e8, e10, e12. cbn [negb orb].
  destruct (st_in_imports st0).
  - change (st_in_metadata (set_in_imports st0 false)) with (st_in_metadata st0).
    destruct (st_in_metadata st0); [|reflexivity]. cbn [andb] in Hc. rewrite Hc. reflexivity.
  - destruct (st_in_metadata st0); [|reflexivity]. cbn [andb] in Hc. rewrite Hc. reflexivity.
Qed.

Lemma main_step_sim2 : forall L L' i line line' st0, Forall2 Rs L L' -> Rs line line' ->
  main_step_chk2 L i line st0 = true ->
  parse_step pp xs L' i line' st0 = parse_step pp xs L i line st0.
Proof.
  intros L L' i line line' st0 F H Hc. unfold main_step_chk2 in Hc. apply andb_prop in Hc. destruct Hc as [Hm Hc].
  apply negb_true_iff in Hm. rewrite !parse_step_route.
  assert (Hr : route i line' st0 = route i line st0).
  { destruct H as [[<- _]|(ind & B & B' & t & t' & Hi & Ht & Ht' & HP & -> & ->)]; [reflexivity|].
    apply route_changed2; assumption. }
  rewrite Hr. destruct (route i line st0) as [r|[st cp]]; [reflexivity|].
  apply main_body_sim2; assumption.
Qed.

Fixpoint parse_loop_chk2 (fuel : nat) (lines : list string) (n i : nat) (st : pstate) : bool :=
  if n <=? i then true else
  match fuel with
  | 0 => true
  | S f =>
      match nth_error lines i with
      | None => true
      | Some line =>
          main_step_chk2 lines i line st &&
          match parse_step pp xs lines i line st with
          | POk (st', i') => parse_loop_chk2 f lines n i' st'
          | _ => true
          end
      end
  end.

Lemma parse_loop_sim2 : forall L L', Forall2 Rs L L' -> forall fuel n i st,
  parse_loop_chk2 fuel L n i st = true ->
  parse_loop pp xs fuel L' n i st = parse_loop pp xs fuel L n i st.
Proof.
  intros L L' F. induction fuel as [|f IH]; intros n i st Hc.
  - reflexivity.
  - cbn [parse_loop parse_loop_chk2] in *. destruct (n <=? i); [reflexivity|].
    pose proof (F2_nth _ _ i _ _ F) as Hn.
    destruct (nth_error L i) as [line|]; destruct (nth_error L' i) as [line'|]; try contradiction; [|reflexivity].
    apply andb_prop in Hc. destruct Hc as [Hc1 Hc2].
    rewrite (main_step_sim2 L L' i line line' st F Hn Hc1).
    destruct (parse_step pp xs L i line st) as [[st' i']|d|e|]; try reflexivity.
    cbn [pbind]. apply IH. exact Hc2.
Qed.
End MainLoop2.

Lemma parse_loop_chk2_mono : forall pp xs cchk lchk fuel L n i st,
  parse_loop_chk2 pp_yes xs cchk lchk fuel L n i st = true -> parse_loop_chk2 pp xs cchk lchk fuel L n i st = true.
Proof.
  intros pp xs cchk lchk. induction fuel as [|f IH]; intros L n i st H; [exact H|].
  cbn [parse_loop_chk2] in *. destruct (n <=? i); [reflexivity|].
  destruct (nth_error L i) as [line|]; [|reflexivity].
  apply andb_prop in H. destruct H as [H1 H2]. rewrite H1. cbn [andb].
  destruct (parse_step pp xs L i line st) as [[st' i']|d|e|] eqn:E; try reflexivity.
  rewrite (parse_step_mono pp xs L i line st _ E) in H2. apply IH. exact H2.
Qed.

(* ------------------------------------------------------------------------------------------- *)
(* the whole-input theorem: block headers and Python-block delimiters                           *)
(* ------------------------------------------------------------------------------------------- *)

Definition real_cchk2 : list string -> nat -> bool := cond_chk_v2 (Some max_block_depth) real_linefns.
Definition real_lchk2 : list string -> nat -> bool := loop_chk_v2 (Some max_block_depth) real_linefns.

Definition rewritten_lines_in_position (pp : pyparse) (ls : list string) : bool :=
  let L := strip_comments_outside_python ls None false 0 in
  parse_loop_chk2 pp real_extractors real_cchk2 real_lchk2 (S (List.length L)) L (List.length L) 0 init_state.

Definition admissible_full (ls : list string) : bool :=
  forallb hdr_ok ls && forallb py_plain_line ls && pre_chk ls None false 0 &&
  rewritten_lines_in_position pp_yes ls.

Lemma parse_Rz : forall pp is_call ls ls', Forall2 (Rz true) ls ls' -> pre_chk ls None false 0 = true ->
  rewritten_lines_in_position pp ls = true ->
  parse_real pp is_call ls' = parse_real pp is_call ls.
Proof.
  intros pp is_call ls ls' F Hp Hc. unfold parse_real, parse, rewritten_lines_in_position in *. cbv zeta in *.
  pose proof (prepass_sim2 ls ls' F MN false 0 Hp) as FL. cbn [m_l m_r] in FL.
  rewrite (F2_length _ _ _ _ FL).
  rewrite (parse_loop_sim2 pp real_extractors real_cchk2 real_lchk2) with (L := spcop ls None false 0).
  - reflexivity.
  - intros L L' i G H. exact (py_sim2 L L' i G H).
  - intros L L' i G H. exact (cond_v_sim2 (Some max_block_depth) real_linefns eq_refl L L' i G H).
  - intros L L' i G H. exact (loop_v_sim2 (Some max_block_depth) real_linefns eq_refl L L' i G H).
  - intros L L' s ci G H. exact (join_sim2 real_linefns L L' s ci G H).
  - exact FL.
  - exact Hc.
Qed.

Theorem legacy_and_at_forms_with_py_compile_identically_lemma : forall pp is_call ls,
  admissible_full ls = true ->
  parse_real pp is_call (map to_at_full ls) = parse_real pp is_call ls.
Proof.
  intros pp is_call ls H. unfold admissible_full in H.
  apply andb_prop in H. destruct H as [H H4]. apply andb_prop in H. destruct H as [H H3].
  apply andb_prop in H. destruct H as [H1 H2].
  apply parse_Rz; [apply F2_to_at_full; assumption|exact H3|].
  unfold rewritten_lines_in_position in *. apply parse_loop_chk2_mono. exact H4.
Qed.
Print Assumptions legacy_and_at_forms_with_py_compile_identically_lemma.
