(* C17, whole-input level: invariance of the parser model (Compiler/ParseMain.v, ParseBlocks.v) under
   surface decorations of the input, for ALL line lists.

   Part A  trailing `//` comments: the comment pre-pass strip_comments_outside_python returns the
           same list for the decorated and the undecorated input, hence `parse` does (any extractors,
           any oracles).  Since fix F17k (story lines are stored right-stripped) the line's own
           trailing blanks no longer matter, except on the line that closes a Python block (stored
           as `bare`).
   Part B  `#` comment lines inserted where the main loop is at top level.
   Part C  legacy `<<...>>` and `@...:` block headers are classified alike by the conditional
           extractor.  *)
From Coq Require Import String Ascii List Bool Arith Lia.
From Bardic Require Import PyStr Value Compiled Lex ParseBase ParseLine ParseMain.
From Bardic Require Import LexProofs ParseProofs.
Import ListNotations.
Local Open Scope string_scope.
Local Open Scope nat_scope.

(* =========================================================================================== *)
(* string lemmas                                                                                *)
(* =========================================================================================== *)

Lemma rstrip_cons : forall c r,
  rstrip (String c r) =
  match rstrip r with
  | EmptyString => if is_space c then EmptyString else String c EmptyString
  | String a b => String c (String a b)
  end.
Proof. reflexivity. Qed.

Lemma rstrip_idem : forall s, rstrip (rstrip s) = rstrip s.
Proof.
  induction s as [|c r IH]; [reflexivity|].
  rewrite rstrip_cons. destruct (rstrip r) as [|a b] eqn:E.
  - destruct (is_space c) eqn:Ec; [reflexivity|]. rewrite rstrip_cons. simpl. rewrite Ec. reflexivity.
  - rewrite rstrip_cons, IH. reflexivity.
Qed.

Lemma rstrip_all_space : forall w, all_space w = true -> rstrip w = "".
Proof.
  induction w as [|c r IH]; intros H; [reflexivity|].
  simpl in H. apply andb_prop in H. destruct H as [Hc Hr].
  rewrite rstrip_cons, (IH Hr), Hc. reflexivity.
Qed.

Lemma rstrip_app_ws : forall x w, all_space w = true -> rstrip (x ++ w) = rstrip x.
Proof.
  induction x as [|c r IH]; intros w H.
  - simpl. apply rstrip_all_space. exact H.
  - cbn [append]. rewrite !rstrip_cons, (IH w H). reflexivity.
Qed.

Lemma lstrip_rstrip : forall s, lstrip (rstrip s) = rstrip (lstrip s).
Proof.
  induction s as [|c r IH]; [reflexivity|].
  cbn [lstrip]. destruct (is_space c) eqn:Ec.
  - rewrite rstrip_cons. destruct (rstrip r) as [|a b] eqn:E.
    + rewrite Ec, <- IH. reflexivity.
    + cbn [lstrip]. rewrite Ec. exact IH.
  - rewrite rstrip_cons. destruct (rstrip r) as [|a b] eqn:E; rewrite ?Ec; cbn [lstrip]; rewrite Ec; reflexivity.
Qed.

Lemma strip_rstrip : forall s, strip (rstrip s) = strip s.
Proof. intros s. unfold strip. rewrite lstrip_rstrip, rstrip_idem. reflexivity. Qed.

Lemma take_app_le : forall n a b, n <= String.length a -> take n (a ++ b) = take n a.
Proof.
  induction n as [|n IH]; intros a b H; [reflexivity|].
  destruct a as [|x a]; simpl in H; [lia|]. simpl. rewrite IH by lia. reflexivity.
Qed.

Lemma take_app_len : forall a b, take (String.length a) (a ++ b) = a.
Proof. induction a as [|x a IH]; intros b; simpl; [reflexivity|now rewrite IH]. Qed.

Lemma startswith_app : forall p l b, startswith l p = true -> startswith (l ++ b) p = true.
Proof.
  induction p as [|x p IH]; intros l b H; [destruct (l ++ b); reflexivity|].
  destruct l as [|y l]; simpl in H; [discriminate|].
  apply andb_prop in H. destruct H as [H1 H2]. simpl. rewrite H1. simpl. apply IH. exact H2.
Qed.

Lemma startswith_length : forall p l, startswith l p = true -> String.length p <= String.length l.
Proof.
  induction p as [|x p IH]; intros l H; simpl; [lia|].
  destruct l as [|y l]; simpl in H; [discriminate|].
  apply andb_prop in H. destruct H as [_ H2]. apply IH in H2. simpl. lia.
Qed.

Lemma space_not_slash : forall c, is_space c = true -> is_slash c || is_bslash c = false.
Proof.
  intros c H. destruct (is_slash c) eqn:E1.
  - unfold is_slash in E1. apply Ascii.eqb_eq in E1. subst c. vm_compute in H. discriminate.
  - destruct (is_bslash c) eqn:E2; [|reflexivity].
    unfold is_bslash in E2. apply Ascii.eqb_eq in E2. subst c. vm_compute in H. discriminate.
Qed.

Lemma space_not_equals : forall c, is_space c = true -> is_equals c = false.
Proof.
  intros c H. destruct (is_equals c) eqn:E1; [|reflexivity].
  unfold is_equals in E1. apply Ascii.eqb_eq in E1. subst c. vm_compute in H. discriminate.
Qed.

(* =========================================================================================== *)
(* Part A: trailing comments                                                                    *)
(* =========================================================================================== *)

(* A decoration of one line: Some (w, c) appends  w ++ "//" ++ c  (w = the blanks before the comment,
   c = the comment text).  The documented form ` // text` is w = " ", c = " text". *)
Definition dcomment := (string * string)%type.

(* the blanks are at least one whitespace character, and the text does not begin with `=` (which
   would make `//=`, the floor-division assignment that the scanner keeps).  Nothing else is asked
   of the comment text: it may contain `//`, `\//`, `<>`, anything. *)
Definition sep_ok (d : dcomment) : bool :=
  nonempty (fst d) && all_space (fst d) && negb (starts_equals (snd d)).

Definition deco (d : option dcomment) (l : string) : string :=
  match d with Some (w, c) => l ++ w ++ "//" ++ c | None => l end.

Definition rstrip_if (d : option dcomment) (l : string) : string :=
  match d with Some _ => rstrip l | None => l end.

Fixpoint zipdec (f : option dcomment -> string -> string) (dec : list (option dcomment))
         (ls : list string) {struct ls} : list string :=
  match ls with
  | [] => []
  | l :: r => match dec with
              | d :: dr => f d l :: zipdec f dr r
              | [] => ls
              end
  end.

(* the decorated input; and the output lines at the decorated positions right-stripped *)
Definition decorate := zipdec deco.
Definition rstrip_at := zipdec rstrip_if.

(* what the pre-pass makes of a story line: `bare` in _strip_comments_outside_python *)
Definition bare_of (l : string) : string :=
  let comment := snd (strip_inline_comment l) in
  if nonempty comment then rstrip (take (String.length l - String.length comment) l) else l.

(* The lines that the pre-pass rewrites (`out[i] = bare`), decided exactly as the pre-pass decides:
   story lines outside Python blocks and outside the continuation lines of a multi-line ~ statement,
   plus the line that closes a Python block. *)
Fixpoint story_mask (rest : list string) (closer : option string) (in_story : bool) (skip : nat)
  : list bool :=
  match rest with
  | [] => []
  | l :: r =>
      match skip with
      | S k => false :: story_mask r closer in_story k
      | 0 =>
          let bare := bare_of l in
          let stripped := strip bare in
          match closer with
          | Some c =>
              if String.eqb stripped c then true :: story_mask r None in_story 0
              else false :: story_mask r closer in_story 0
          | None =>
              if in_story || startswith l ":: " || startswith stripped "@start " then
                let in_story' := in_story || startswith l ":: " in
                if startswith stripped "@py" then true :: story_mask r (Some "@endpy") in_story' 0
                else if startswith stripped "<<py" then true :: story_mask r (Some ">>") in_story' 0
                else if startswith stripped "~ " then
                  let n := snd (extract_multiline_expression (bare :: r) 0 (drop 2 stripped)) in
                  true :: story_mask r None in_story' (n - 1)
                else true :: story_mask r None in_story' 0
              else false :: story_mask r None in_story 0
          end
      end
  end.

(* every decoration sits on a line of the mask and has an admissible separator; the list of
   decorations is not longer than the input *)
Fixpoint within (dec : list (option dcomment)) (mask : list bool) : bool :=
  match dec, mask with
  | [], _ => true
  | _ :: _, [] => false
  | None :: dr, _ :: mr => within dr mr
  | Some d :: dr, m :: mr => m && sep_ok d && within dr mr
  end.

(* a line has no trailing whitespace of its own (or carries a comment already) *)
Definition tidy (l : string) : bool := String.eqb (rstrip (bare_of l)) (bare_of l).

(* The lines that close a Python block (`stripped == closer`), decided as the pre-pass decides.  They
   are the only lines of the mask that the pre-pass stores as `bare` and not as `bare.rstrip()`. *)
Fixpoint closer_mask (rest : list string) (closer : option string) (in_story : bool) (skip : nat)
  : list bool :=
  match rest with
  | [] => []
  | l :: r =>
      match skip with
      | S k => false :: closer_mask r closer in_story k
      | 0 =>
          let bare := bare_of l in
          let stripped := strip bare in
          match closer with
          | Some c =>
              if String.eqb stripped c then true :: closer_mask r None in_story 0
              else false :: closer_mask r closer in_story 0
          | None =>
              if in_story || startswith l ":: " || startswith stripped "@start " then
                let in_story' := in_story || startswith l ":: " in
                if startswith stripped "@py" then false :: closer_mask r (Some "@endpy") in_story' 0
                else if startswith stripped "<<py" then false :: closer_mask r (Some ">>") in_story' 0
                else if startswith stripped "~ " then
                  let n := snd (extract_multiline_expression (bare :: r) 0 (drop 2 stripped)) in
                  false :: closer_mask r None in_story' (n - 1)
                else false :: closer_mask r None in_story' 0
              else false :: closer_mask r None in_story 0
          end
      end
  end.

(* the decorated lines among those of `cm` are tidy *)
Fixpoint tidy_at (dec : list (option dcomment)) (cm : list bool) (ls : list string) : bool :=
  match dec, cm, ls with
  | Some _ :: dr, true :: mr, l :: r => tidy l && tidy_at dr mr r
  | _ :: dr, _ :: mr, _ :: r => tidy_at dr mr r
  | _, _, _ => true
  end.

(* every decoration sits on a line of the mask with an admissible separator; a decorated line that
   closes a Python block has no trailing blanks of its own *)
Definition decorable (dec : list (option dcomment)) (ls : list string) : bool :=
  within dec (story_mask ls None false 0) && tidy_at dec (closer_mask ls None false 0) ls.

(* ---- one line ---- *)

Lemma sic_ws_comment : forall w c,
  all_space w = true -> starts_equals c = false ->
  strip_inline_comment (w ++ "//" ++ c) = (w, "//" ++ c).
Proof.
  induction w as [|x w IH]; intros c Hw Hc.
  - simpl append. apply (sic_comment_start c Hc).
  - simpl in Hw. apply andb_prop in Hw. destruct Hw as [Hx Hw].
    cbn [append]. rewrite sic_regular_head by (left; apply space_not_slash; exact Hx).
    change (w ++ String "/" (String "/" c)) with (w ++ "//" ++ c).
    rewrite (IH c Hw Hc). reflexivity.
Qed.

Lemma sep_ok_parts : forall w c, sep_ok (w, c) = true ->
  all_space w = true /\ starts_equals c = false /\
  starts_slash (w ++ "//" ++ c) = false /\ starts_equals (w ++ "//" ++ c) = false.
Proof.
  intros w c H. unfold sep_ok in H. simpl in H.
  apply andb_prop in H. destruct H as [H H3]. apply andb_prop in H. destruct H as [H1 H2].
  apply negb_true_iff in H3. repeat split; auto.
  - destruct w as [|x w]; [discriminate|]. simpl in H2. apply andb_prop in H2. destruct H2 as [Hx _].
    simpl. pose proof (space_not_slash x Hx) as E. apply orb_false_iff in E. tauto.
  - destruct w as [|x w]; [discriminate|]. simpl in H2. apply andb_prop in H2. destruct H2 as [Hx _].
    simpl. apply space_not_equals. exact Hx.
Qed.

Lemma len_sub_suffix : forall a b, String.length (a ++ b) - String.length b = String.length a.
Proof. intros. rewrite length_append. lia. Qed.

Lemma len_sub_both : forall l b x cm,
  String.length (l ++ b) - String.length (String x (cm ++ b)) = String.length l - String.length (String x cm).
Proof. intros. simpl. rewrite !length_append. lia. Qed.

(* the pre-pass sees the decorated line as the undecorated one, right-stripped: for EVERY line *)
Lemma bare_deco : forall l w c, sep_ok (w, c) = true ->
  bare_of (l ++ w ++ "//" ++ c) = rstrip (bare_of l).
Proof.
  intros l w c H. destruct (sep_ok_parts w c H) as [Hw [Hc [Hs He]]].
  unfold bare_of. destruct (no_comment_dec l) as [Hn|Hn].
  - rewrite sic_app; [|exact Hn|unfold boundary_ok; rewrite Hs; apply orb_true_r].
    rewrite (sic_ws_comment w c Hw Hc). cbn [snd]. unfold no_comment in Hn. rewrite Hn.
    cbn [nonempty append].
    rewrite <- LexProofs.app_assoc, len_sub_suffix. rewrite take_app_len. apply rstrip_app_ws. exact Hw.
  - rewrite sic_absorb; [|exact Hn|exact He]. cbn [snd].
    destruct (snd (strip_inline_comment l)) as [|a cm] eqn:E; [congruence|].
    cbn [nonempty append].
    rewrite len_sub_both, take_app_le by lia. rewrite rstrip_idem. reflexivity.
Qed.

Lemma length_bare_le : forall l, String.length (bare_of l) <= String.length l.
Proof.
  intros l. unfold bare_of. destruct (nonempty _); [|lia].
  eapply Nat.le_trans; [apply length_rstrip_le|apply length_take_le].
Qed.

(* the header test of the pre-pass is not disturbed: the only lines that the appended text could
   turn into a `:: ` line are shorter than three characters, and those are not `@start ` lines *)
Lemma header_test_deco : forall l b,
  startswith l ":: " = false -> startswith (strip (bare_of l)) "@start " = true ->
  startswith (l ++ b) ":: " = false.
Proof.
  intros l b H1 H2. apply startswith_length in H2.
  pose proof (length_strip_le (bare_of l)) as L1. pose proof (length_bare_le l) as L2.
  simpl in H2. assert (L : 7 <= String.length l) by lia. clear H2 L1 L2.
  destruct l as [|x [|y [|z r]]]; simpl in L; try lia.
  simpl in H1 |- *. destruct (r ++ b); destruct r; exact H1.
Qed.

(* ---- extract_multiline_expression reads only the lines it consumes ---- *)

Fixpoint eme_count (rest : list string) (stack : list ascii) : nat :=
  match rest with
  | [] => 0
  | l :: r =>
      match stack with
      | [] => 0
      | _ => match scan_brackets l stack with
             | [] => 1
             | s' => S (eme_count r s')
             end
      end
  end.

Lemma eme_loop_count : forall rest stack acc n,
  snd (eme_loop rest stack acc n) = n + eme_count rest stack.
Proof.
  induction rest as [|l r IH]; intros stack acc n; simpl.
  - lia.
  - destruct stack as [|t st]; [simpl; lia|].
    destruct (scan_brackets l (t :: st)) as [|t' st'] eqn:E; [simpl; lia|].
    rewrite IH. lia.
Qed.

(* number of continuation lines of a `~` statement whose first line has the expression e *)
Definition eme_skip (r : list string) (e : string) : nat :=
  let stripped := strip e in
  if negb (endswith stripped "[" || endswith stripped "{" || endswith stripped "(") then 0
  else eme_count r (initial_stack stripped []).

Lemma eme_skip_eq : forall b r e, snd (extract_multiline_expression (b :: r) 0 e) - 1 = eme_skip r e.
Proof.
  intros b r e. unfold extract_multiline_expression, eme_skip.
  destruct (negb _); [reflexivity|].
  change (skipn 1 (b :: r)) with r.
  pose proof (eme_loop_count r (initial_stack (strip e) []) [e] 0) as H.
  destruct (eme_loop r (initial_stack (strip e) []) [e] 0) as [acc n]. simpl in H |- *. lia.
Qed.

Fixpoint nones (k : nat) (dec : list (option dcomment)) : bool :=
  match k, dec with
  | 0, _ => true
  | S _, [] => true
  | S k', None :: dr => nones k' dr
  | S _, Some _ :: _ => false
  end.

Lemma zipdec_nil : forall f ls, zipdec f [] ls = ls.
Proof. intros f [|l r]; reflexivity. Qed.

Lemma eme_count_decorate : forall r dr stack,
  nones (eme_count r stack) dr = true -> eme_count (decorate dr r) stack = eme_count r stack.
Proof.
  induction r as [|l r IH]; intros dr stack H; [reflexivity|].
  destruct dr as [|d dr]; [reflexivity|].
  unfold decorate in *. cbn [zipdec]. cbn [eme_count] in *.
  destruct stack as [|t st]; [reflexivity|].
  destruct d as [d|].
  - destruct (scan_brackets l (t :: st)); simpl in H; discriminate.
  - cbn [deco]. destruct (scan_brackets l (t :: st)) as [|t' st'] eqn:E; [reflexivity|].
    simpl in H. rewrite (IH dr (t' :: st') H). reflexivity.
Qed.

Lemma mask_skip_nones : forall k r dr cl ins,
  within dr (story_mask r cl ins k) = true -> nones k dr = true.
Proof.
  induction k as [|k IH]; intros r dr cl ins H; [reflexivity|].
  destruct dr as [|d dr]; [reflexivity|].
  destruct r as [|l r]; [destruct d; simpl in H; discriminate|].
  cbn [story_mask] in H. destruct d as [d|]; simpl in H; [discriminate|].
  simpl. eapply IH. exact H.
Qed.

(* ---- the pre-pass ---- *)

Notation spcop := strip_comments_outside_python.

Lemma spcop_0 : forall l r closer in_story,
  spcop (l :: r) closer in_story 0 =
  let bare := bare_of l in
  let stripped := strip bare in
  match closer with
  | Some c =>
      if String.eqb stripped c then bare :: spcop r None in_story 0
      else l :: spcop r closer in_story 0
  | None =>
      if in_story || startswith l ":: " || startswith stripped "@start " then
        let in_story' := in_story || startswith l ":: " in
        if startswith stripped "@py" then rstrip bare :: spcop r (Some "@endpy") in_story' 0
        else if startswith stripped "<<py" then rstrip bare :: spcop r (Some ">>") in_story' 0
        else if startswith stripped "~ " then
          rstrip bare :: spcop r None in_story' (eme_skip r (drop 2 stripped))
        else rstrip bare :: spcop r None in_story' 0
      else l :: spcop r None in_story 0
  end.
Proof.
  intros l r closer in_story. cbn [strip_comments_outside_python]. fold (bare_of l).
  cbv zeta. rewrite eme_skip_eq. reflexivity.
Qed.

Lemma cmask_0 : forall l r closer in_story,
  closer_mask (l :: r) closer in_story 0 =
  let bare := bare_of l in
  let stripped := strip bare in
  match closer with
  | Some c =>
      if String.eqb stripped c then true :: closer_mask r None in_story 0
      else false :: closer_mask r closer in_story 0
  | None =>
      if in_story || startswith l ":: " || startswith stripped "@start " then
        let in_story' := in_story || startswith l ":: " in
        if startswith stripped "@py" then false :: closer_mask r (Some "@endpy") in_story' 0
        else if startswith stripped "<<py" then false :: closer_mask r (Some ">>") in_story' 0
        else if startswith stripped "~ " then
          false :: closer_mask r None in_story' (eme_skip r (drop 2 stripped))
        else false :: closer_mask r None in_story' 0
      else false :: closer_mask r None in_story 0
  end.
Proof.
  intros l r closer in_story. cbn [closer_mask]. cbv zeta. rewrite eme_skip_eq. reflexivity.
Qed.

Lemma mask_0 : forall l r closer in_story,
  story_mask (l :: r) closer in_story 0 =
  let bare := bare_of l in
  let stripped := strip bare in
  match closer with
  | Some c =>
      if String.eqb stripped c then true :: story_mask r None in_story 0
      else false :: story_mask r closer in_story 0
  | None =>
      if in_story || startswith l ":: " || startswith stripped "@start " then
        let in_story' := in_story || startswith l ":: " in
        if startswith stripped "@py" then true :: story_mask r (Some "@endpy") in_story' 0
        else if startswith stripped "<<py" then true :: story_mask r (Some ">>") in_story' 0
        else if startswith stripped "~ " then
          true :: story_mask r None in_story' (eme_skip r (drop 2 stripped))
        else true :: story_mask r None in_story' 0
      else false :: story_mask r None in_story 0
  end.
Proof.
  intros l r closer in_story. cbn [story_mask]. cbv zeta. rewrite eme_skip_eq. reflexivity.
Qed.

Lemma within_none : forall dr m mr, within (None :: dr) (m :: mr) = within dr mr.
Proof. reflexivity. Qed.

Lemma within_some : forall d dr m mr,
  within (Some d :: dr) (m :: mr) = true -> m = true /\ sep_ok d = true /\ within dr mr = true.
Proof.
  intros d dr m mr H. simpl in H. apply andb_prop in H. destruct H as [H H3].
  apply andb_prop in H. tauto.
Qed.

(* The pre-pass of the decorated input is the pre-pass of the input with the decorated lines
   right-stripped: for all line lists, all pre-pass states. *)
Lemma prepass_decorate_gen : forall ls dec closer in_story skip,
  within dec (story_mask ls closer in_story skip) = true ->
  spcop (decorate dec ls) closer in_story skip = rstrip_at dec (spcop ls closer in_story skip).
Proof.
  unfold decorate, rstrip_at.
  induction ls as [|l r IH]; intros dec closer in_story skip H; [reflexivity|].
  destruct dec as [|d dr]; [rewrite !zipdec_nil; reflexivity|].
  cbn [zipdec]. destruct skip as [|k].
  2:{ (* a continuation line of a ~ statement: never decorated *)
      cbn [story_mask] in H. destruct d as [d|]; [simpl in H; discriminate|].
      rewrite within_none in H. cbn [deco strip_comments_outside_python zipdec rstrip_if].
      f_equal. apply IH. exact H. }
  rewrite mask_0 in H. rewrite !spcop_0. cbv zeta in *.
  destruct d as [[w c]|].
  - (* decorated line *)
    cbn [deco].
    assert (Hm : exists mr, within (Some (w, c) :: dr) (true :: mr) = true /\
                 (if match closer with Some c0 => String.eqb (strip (bare_of l)) c0
                        | None => in_story || startswith l ":: " || startswith (strip (bare_of l)) "@start " end
                  then True else False)).
    { destruct closer as [c0|].
      - destruct (String.eqb (strip (bare_of l)) c0); [eexists; split; [exact H|exact I]|].
        apply within_some in H. destruct H as [H _]. discriminate.
      - destruct (in_story || startswith l ":: " || startswith (strip (bare_of l)) "@start ").
        + repeat match type of H with context [if ?b then _ else _] => destruct b end;
            eexists; split; try exact H; exact I.
        + apply within_some in H. destruct H as [H _]. discriminate. }
    destruct Hm as [mr0 [Hs Hcond]]. apply within_some in Hs. destruct Hs as [_ [Hsep _]].
    rewrite (bare_deco l w c Hsep), strip_rstrip.
    destruct closer as [c0|].
    + destruct (String.eqb (strip (bare_of l)) c0); [|contradiction].
      apply within_some in H. destruct H as [_ [_ H]].
      cbn [zipdec rstrip_if]. f_equal. apply IH. exact H.
    + destruct (in_story || startswith l ":: " || startswith (strip (bare_of l)) "@start ") eqn:Ec;
        [|contradiction].
      assert (Ei : in_story || startswith (l ++ w ++ "//" ++ c) ":: " = in_story || startswith l ":: ").
      { destruct in_story; [reflexivity|]. simpl in Ec |- *.
        destruct (startswith l ":: ") eqn:E1; [apply startswith_app; exact E1|].
        simpl in Ec. apply header_test_deco; assumption. }
      assert (Ec' : in_story || startswith (l ++ w ++ "//" ++ c) ":: " ||
                    startswith (strip (bare_of l)) "@start " = true).
      { rewrite Ei. exact Ec. }
      rewrite Ec', Ei.
      destruct (startswith (strip (bare_of l)) "@py").
      { apply within_some in H. destruct H as [_ [_ H]].
        cbn [zipdec rstrip_if]. f_equal. apply IH. exact H. }
      destruct (startswith (strip (bare_of l)) "<<py").
      { apply within_some in H. destruct H as [_ [_ H]].
        cbn [zipdec rstrip_if]. f_equal. apply IH. exact H. }
      destruct (startswith (strip (bare_of l)) "~ ").
      { apply within_some in H. destruct H as [_ [_ H]].
        cbn [zipdec rstrip_if]. f_equal.
        assert (En : eme_skip (zipdec deco dr r) (drop 2 (strip (bare_of l))) =
                     eme_skip r (drop 2 (strip (bare_of l)))).
        { pose proof (mask_skip_nones _ _ _ _ _ H) as Hn. unfold eme_skip in Hn |- *.
          destruct (negb _); [reflexivity|]. apply eme_count_decorate. exact Hn. }
        rewrite En. apply IH. exact H. }
      apply within_some in H. destruct H as [_ [_ H]].
      cbn [zipdec rstrip_if]. f_equal. apply IH. exact H.
  - (* undecorated line *)
    cbn [deco].
    destruct closer as [c0|].
    + destruct (String.eqb (strip (bare_of l)) c0); rewrite within_none in H;
        cbn [zipdec rstrip_if]; f_equal; apply IH; exact H.
    + destruct (in_story || startswith l ":: " || startswith (strip (bare_of l)) "@start ").
      * destruct (startswith (strip (bare_of l)) "@py");
          [rewrite within_none in H; cbn [zipdec rstrip_if]; f_equal; apply IH; exact H|].
        destruct (startswith (strip (bare_of l)) "<<py");
          [rewrite within_none in H; cbn [zipdec rstrip_if]; f_equal; apply IH; exact H|].
        destruct (startswith (strip (bare_of l)) "~ ").
        { rewrite within_none in H. cbn [zipdec rstrip_if]. f_equal.
          assert (En : eme_skip (zipdec deco dr r) (drop 2 (strip (bare_of l))) =
                       eme_skip r (drop 2 (strip (bare_of l)))).
        { pose proof (mask_skip_nones _ _ _ _ _ H) as Hn. unfold eme_skip in Hn |- *.
          destruct (negb _); [reflexivity|]. apply eme_count_decorate. exact Hn. }
          rewrite En. apply IH. exact H. }
        rewrite within_none in H. cbn [zipdec rstrip_if]. f_equal. apply IH. exact H.
      * rewrite within_none in H. cbn [zipdec rstrip_if]. f_equal. apply IH. exact H.
Qed.

(* ... and right-stripping changes nothing: a story line is stored right-stripped already (F17k); the
   line that closes a Python block is stored as `bare`, and is tidy by hypothesis *)
Lemma tidy_at_none : forall dr m mr l r, tidy_at (None :: dr) (m :: mr) (l :: r) = tidy_at dr mr r.
Proof. intros dr [|] mr l r; reflexivity. Qed.
Lemma tidy_at_false : forall d dr mr l r, tidy_at (d :: dr) (false :: mr) (l :: r) = tidy_at dr mr r.
Proof. intros [d|] dr mr l r; reflexivity. Qed.

Lemma rstrip_at_tidy : forall ls dec closer in_story skip,
  within dec (story_mask ls closer in_story skip) = true ->
  tidy_at dec (closer_mask ls closer in_story skip) ls = true ->
  rstrip_at dec (spcop ls closer in_story skip) = spcop ls closer in_story skip.
Proof.
  unfold rstrip_at.
  induction ls as [|l r IH]; intros dec closer in_story skip H T; [reflexivity|].
  destruct dec as [|d dr]; [apply zipdec_nil|].
  destruct skip as [|k].
  2:{ cbn [story_mask] in H. cbn [closer_mask] in T. destruct d as [d|]; [simpl in H; discriminate|].
      rewrite within_none in H. rewrite tidy_at_none in T.
      cbn [strip_comments_outside_python zipdec rstrip_if].
      f_equal. apply IH; assumption. }
  rewrite mask_0 in H. rewrite cmask_0 in T. rewrite spcop_0. cbv zeta in *.
  destruct d as [d|].
  - destruct closer as [c0|].
    + destruct (String.eqb (strip (bare_of l)) c0);
        apply within_some in H; destruct H as [Hm [_ H]]; [|discriminate].
      cbn [tidy_at] in T. apply andb_prop in T. destruct T as [Tl Tr].
      unfold tidy in Tl. apply String.eqb_eq in Tl.
      cbn [zipdec rstrip_if]. rewrite Tl. f_equal. apply IH; assumption.
    + destruct (in_story || startswith l ":: " || startswith (strip (bare_of l)) "@start ").
      * destruct (startswith (strip (bare_of l)) "@py");
          [|destruct (startswith (strip (bare_of l)) "<<py");
            [|destruct (startswith (strip (bare_of l)) "~ ")]];
          apply within_some in H; destruct H as [Hm [_ H]]; rewrite tidy_at_false in T;
          cbn [zipdec rstrip_if]; rewrite rstrip_idem; f_equal; apply IH; assumption.
      * apply within_some in H. destruct H as [Hm _]. discriminate.
  - destruct closer as [c0|].
    + destruct (String.eqb (strip (bare_of l)) c0); rewrite within_none in H; rewrite tidy_at_none in T;
        cbn [zipdec rstrip_if]; f_equal; apply IH; assumption.
    + destruct (in_story || startswith l ":: " || startswith (strip (bare_of l)) "@start ").
      * destruct (startswith (strip (bare_of l)) "@py");
          [|destruct (startswith (strip (bare_of l)) "<<py");
            [|destruct (startswith (strip (bare_of l)) "~ ")]];
          rewrite within_none in H; rewrite tidy_at_none in T;
          cbn [zipdec rstrip_if]; f_equal; apply IH; assumption.
      * rewrite within_none in H. rewrite tidy_at_none in T.
        cbn [zipdec rstrip_if]. f_equal. apply IH; assumption.
Qed.

(* (a), pre-pass form: trailing comments on story lines are invisible to everything after the
   pre-pass *)
Lemma prepass_decorate : forall ls dec,
  decorable dec ls = true ->
  spcop (decorate dec ls) None false 0 = spcop ls None false 0.
Proof.
  intros ls dec H. unfold decorable in H. apply andb_prop in H. destruct H as [H T].
  rewrite prepass_decorate_gen by exact H. apply rstrip_at_tidy; assumption.
Qed.

(* (a), whole compiler model: any oracles, any block extractors *)
Lemma parse_decorate : forall pp is_call xs ls dec,
  decorable dec ls = true ->
  parse pp is_call xs (decorate dec ls) = parse pp is_call xs ls.
Proof.
  intros pp is_call xs ls dec H. unfold parse. rewrite (prepass_decorate ls dec H). reflexivity.
Qed.

(* the documented form ` // text` is an admissible decoration whatever the text *)
Lemma documented_form_ok : forall text, sep_ok (" ", " " ++ text) = true.
Proof. reflexivity. Qed.

(* tidy, spelled out: the line already carries a comment, or it has no trailing whitespace *)
Lemma tidy_spec : forall l,
  tidy l = true <-> (snd (strip_inline_comment l) <> "" \/ rstrip l = l).
Proof.
  intros l. unfold tidy, bare_of. split.
  - intros H. apply String.eqb_eq in H.
    destruct (snd (strip_inline_comment l)) as [|a cm]; [right; exact H|left; discriminate].
  - intros [H|H]; apply String.eqb_eq.
    + destruct (snd (strip_inline_comment l)) as [|a cm]; [congruence|]. cbn [nonempty]. apply rstrip_idem.
    + destruct (snd (strip_inline_comment l)) as [|a cm]; [exact H|]. cbn [nonempty]. apply rstrip_idem.
Qed.

(* =========================================================================================== *)
(* Part B: `#` comment lines                                                                    *)
(* =========================================================================================== *)

Definition insert_at (k : nat) (c : string) (ls : list string) : list string :=
  firstn k ls ++ c :: skipn k ls.

(* `stripped.startswith("#")` *)
Definition is_hash (c : string) : bool := startswith (strip c) "#".

(* diagnostics up to the line index they carry (an inserted line shifts the indices after it) *)
Definition erase_d (d : diag) : diag :=
  match d with DSyntax s _ => DSyntax s 0 | DValue s => DValue s end.
Definition erase {A} (m : pres A) : pres A :=
  match m with PDiag d => PDiag (erase_d d) | other => other end.

Lemma erase_ok_inv : forall A (m' : pres A) a, erase m' = erase (POk a) -> m' = POk a.
Proof. intros A [b|d|k|] a H; simpl in H; congruence. Qed.

Lemma erase_diag_inv : forall A (m' : pres A) d, erase m' = erase (PDiag d) ->
  exists d', m' = PDiag d' /\ erase_d d' = erase_d d.
Proof. intros A [b|d0|k|] d H; simpl in H; try discriminate. injection H as H. eauto. Qed.

Lemma erase_internal_inv : forall A (m' : pres A) k, erase m' = erase (PInternal k) -> m' = PInternal k.
Proof. intros A [b|d0|k0|] k H; simpl in H; congruence. Qed.

Lemma erase_fuel_inv : forall A (m' : pres A), erase m' = erase (@POutOfFuel A) -> m' = POutOfFuel.
Proof. intros A [b|d0|k0|] H; simpl in H; congruence. Qed.

(* ---- the state up to the recorded line numbers ---- *)

Definition set_locs (s : pstate) (l : list (string * list nat)) : pstate :=
  mkPS (st_imports s) (st_metadata s) (st_passages s) l (st_current s) (st_explicit_start s)
       (st_in_imports s) (st_in_metadata s).

Definition loc_rel (a b : list (string * list nat)) : Prop :=
  Forall2 (fun x y => fst x = fst y /\ List.length (snd x) = List.length (snd y)) a b.

Lemma loc_rel_refl : forall a, loc_rel a a.
Proof. induction a; constructor; auto. Qed.

Lemma loc_rel_lookup : forall a b name, loc_rel a b ->
  match lookup name a, lookup name b with
  | Some x, Some y => List.length x = List.length y
  | None, None => True
  | _, _ => False
  end.
Proof.
  intros a b name H. induction H as [|[k1 v1] [k2 v2] a b [Hk Hv] _ IH]; simpl; [exact I|].
  simpl in Hk, Hv. subst k2. destruct (String.eqb name k1); [exact Hv|exact IH].
Qed.

Lemma loc_rel_set_key : forall a b name v w, loc_rel a b -> List.length v = List.length w ->
  loc_rel (set_key name v a) (set_key name w b).
Proof.
  intros a b name v w H Hl. induction H as [|[k1 v1] [k2 v2] a b [Hk Hv] Hr IH]; simpl.
  - constructor; [split; auto|constructor].
  - simpl in Hk, Hv. subst k2. destruct (String.eqb name k1).
    + constructor; [split; auto|exact Hr].
    + constructor; [split; auto|exact IH].
Qed.

Lemma loc_rel_dups : forall a b, loc_rel a b -> check_duplicate_passages b = check_duplicate_passages a.
Proof.
  intros a b H. unfold check_duplicate_passages.
  assert (E : existsb (fun kv : string * list nat => 1 <? List.length (snd kv)) b =
              existsb (fun kv : string * list nat => 1 <? List.length (snd kv)) a).
  { induction H as [|x y a b [_ Hv] _ IH]; simpl; [reflexivity|]. rewrite Hv, IH. reflexivity. }
  rewrite E. reflexivity.
Qed.

Lemma new_passage_locs : forall s l2 name ps tags i i',
  loc_rel (st_locations s) l2 ->
  exists l3, new_passage (set_locs s l2) name ps tags i' = set_locs (new_passage s name ps tags i) l3 /\
             loc_rel (st_locations (new_passage s name ps tags i)) l3.
Proof.
  intros s l2 name ps tags i i' H. unfold new_passage. cbn [st_locations set_locs].
  pose proof (loc_rel_lookup _ _ name H) as Hl.
  destruct (lookup name (st_locations s)) as [x|], (lookup name l2) as [y|]; try contradiction.
  - eexists. split; [reflexivity|]. cbn [st_locations]. apply loc_rel_set_key; [exact H|simpl; lia].
  - eexists. split; [reflexivity|]. cbn [st_locations]. apply loc_rel_set_key; [exact H|reflexivity].
Qed.

(* a choice line whose target is @join: the one place where the main loop calls x_join *)
Definition join_site (line : string) : bool :=
  (startswith line "+ " || startswith line "* ") &&
  match parse_choice_line line with
  | POk (Some (Choice _ target _ _ _ _ _ _)) => String.eqb target "@join"
  | _ => false
  end.

(* validate_choice_syntax uses its index argument only inside diagnostics *)
Lemma validate_choice_syntax_erase : forall line a b,
  erase (validate_choice_syntax line b) = erase (validate_choice_syntax line a).
Proof.
  intros line a b. unfold validate_choice_syntax.
  destruct (strip_inline_comment (strip line)) as [clean cm].
  unfold index_char.
  repeat (match goal with
          | |- context [if ?c then _ else _] => destruct c
          | |- context [match find_char ?x ?y with _ => _ end] => destruct (find_char x y)
          | |- context [match match_brace ?x ?y ?z with _ => _ end] => destruct (match_brace x y z)
          | |- context [match str_find ?x ?y with _ => _ end] => destruct (str_find x y)
          | |- context [match split_ws ?x with _ => _ end] => destruct (split_ws x)
          end; cbn [pbind]); reflexivity.
Qed.

(* ---- one iteration of the main loop, on two line lists at two indices ---- *)

Section StepSim.
Variable pp : pyparse.
Variable xs : extractors.
Variables L L' : list string.
Variable d : nat.                       (* the index on L' is d + the index on L *)
(* guard: which outcomes on L the comparison is asked for (all of them after the inserted line; the
   successful ones that stay before it, before the inserted line) *)
Variable P : nat -> Prop.
Variable Q : Prop.

Definition G (r : pres (pstate * nat)) : Prop :=
  match r with POk (_, j) => P j | _ => Q end.

Definition step_rel (r r' : pres (pstate * nat)) : Prop :=
  match r with
  | POk (s, j) => exists l2, r' = POk (set_locs s l2, d + j) /\ loc_rel (st_locations s) l2
  | PDiag dd => exists dd', r' = PDiag dd' /\ erase_d dd' = erase_d dd
  | PInternal k => r' = PInternal k
  | POutOfFuel => r' = POutOfFuel
  end.

Definition SR (r r' : pres (pstate * nat)) : Prop := G r -> step_rel r r'.

Lemma SR_ok : forall s j l2 j', loc_rel (st_locations s) l2 -> j' = d + j ->
  SR (POk (s, j)) (POk (set_locs s l2, j')).
Proof. intros s j l2 j' H E _. subst j'. exists l2. split; auto. Qed.

Lemma SR_dsyn : forall site a b, SR (dsyn site a) (dsyn site b).
Proof. intros site a b _. exists (DSyntax site b). split; reflexivity. Qed.

Lemma SR_bind : forall A (m m' : pres A) f f',
  erase m' = erase m -> (forall a, m = POk a -> SR (f a) (f' a)) -> SR (pbind m f) (pbind m' f').
Proof.
  intros A m m' f f' E H. destruct m as [a|dd|k|].
  - apply erase_ok_inv in E. subst m'. simpl. apply H. reflexivity.
  - apply erase_diag_inv in E. destruct E as [dd' [-> E]]. intros _. simpl. eauto.
  - apply erase_internal_inv in E. subst m'. intros _. reflexivity.
  - apply erase_fuel_inv in E. subst m'. intros _. reflexivity.
Qed.

Lemma erase_retag : forall A a b (m : pres A), erase (retag b m) = erase (retag a m).
Proof. intros A a b [x|[s j|s]|k|]; reflexivity. Qed.

Lemma retag_ok_eq : forall A i (m : pres A) a, retag i m = POk a -> m = POk a.
Proof. intros A i [x|[s j|s]|k|] a H; simpl in H; congruence. Qed.

Variable i : nat.
Variable line : string.

Definition Gx {A} (r : pres (A * nat)) : Prop :=
  match r with POk (_, n) => P (i + n) | _ => Q end.
Definition GxJ {A} (r : pres (A * nat)) : Prop :=
  match r with POk (_, n) => P (S (i + n)) | _ => Q end.

Hypothesis Hpy : py_test (strip line) = true ->
  Gx (x_python xs L i) -> erase (x_python xs L' (d + i)) = erase (x_python xs L i).
Hypothesis Hif : if_test (strip line) = true ->
  Gx (x_conditional xs L i) -> erase (x_conditional xs L' (d + i)) = erase (x_conditional xs L i).
Hypothesis Hfor : for_test (strip line) = true ->
  Gx (x_loop xs L i) -> erase (x_loop xs L' (d + i)) = erase (x_loop xs L i).
Hypothesis Hjoin : join_site line = true ->
  GxJ (x_join xs L (S i) (indent_of line)) ->
  erase (x_join xs L' (S (d + i)) (indent_of line)) = erase (x_join xs L (S i) (indent_of line)).
Hypothesis Heme : forall code,
  P (i + snd (extract_multiline_expression L i code)) \/ Q ->
  extract_multiline_expression L' (d + i) code = extract_multiline_expression L i code.

Ltac sr_ok :=
  match goal with
  | Hl : loc_rel _ ?l |- _ =>
      unfold SR, G, step_rel; cbn beta iota; intros _; exists l;
      split; [apply f_equal; apply f_equal2; [reflexivity|lia]|exact Hl]
  end.

Lemma body_step_sim : forall st cp l2, loc_rel (st_locations st) l2 ->
  SR (body_step pp xs L i line st cp) (body_step pp xs L' (d + i) line (set_locs st l2) cp).
Proof.
  intros st cp l2 Hl. unfold body_step.
  destruct (startswith (strip line) "#"); [sr_ok|].
  destruct (startswith (strip line) "<<py" || startswith (strip line) "@py") eqn:Epy.
  { intros HG.
    assert (Hg : Gx (x_python xs L i)) by (destruct (x_python xs L i) as [[c n]|?|?|]; exact HG).
    specialize (Hpy Epy Hg). revert HG. apply SR_bind; [exact Hpy|]. intros [code n] _. sr_ok. }
  destruct (startswith (strip line) "<<if " || startswith (strip line) "@if ") eqn:Eif.
  { intros HG.
    assert (Hg : Gx (x_conditional xs L i)) by (destruct (x_conditional xs L i) as [[c n]|?|?|]; exact HG).
    specialize (Hif Eif Hg). revert HG. apply SR_bind; [exact Hif|]. intros [t n] _. sr_ok. }
  destruct (startswith (strip line) "<<for " || startswith (strip line) "@for ") eqn:Efor.
  { intros HG.
    assert (Hg : Gx (x_loop xs L i)) by (destruct (x_loop xs L i) as [[c n]|?|?|]; exact HG).
    specialize (Hfor Efor Hg). revert HG. apply SR_bind; [exact Hfor|]. intros [t n] _. sr_ok. }
  destruct (startswith (strip line) "@render").
  { apply SR_bind; [apply erase_retag|]. intros [t|] _; sr_ok. }
  destruct (startswith (strip line) "@input").
  { apply SR_bind; [apply erase_retag|]. intros [t|] _; sr_ok. }
  destruct (startswith (strip line) "@hook ").
  { destruct (split_ws (strip line)) as [|a [|b [|c [|? ?]]]]; try apply SR_dsyn. sr_ok. }
  destruct (startswith (strip line) "@unhook ").
  { destruct (split_ws (strip line)) as [|a [|b [|c [|? ?]]]]; try apply SR_dsyn. sr_ok. }
  destruct (String.eqb (strip line) "@join"); [sr_ok|].
  destruct (startswith (strip line) "->").
  { destruct (arrow_rest _); [destruct (extract_target_and_args _)|]; sr_ok. }
  destruct (startswith line "~ ").
  { destruct (strip_inline_comment _) as [code cm].
    destruct (extract_multiline_expression L i code) as [cc n] eqn:Ee.
    intros HG.
    assert (He : extract_multiline_expression L' (d + i) code = (cc, n)).
    { rewrite <- Ee. apply Heme. rewrite Ee. simpl.
      destruct (py_stmt_ok pp cc); [left|right]; exact HG. }
    rewrite He. revert HG. destruct (py_stmt_ok pp cc); [sr_ok|apply SR_dsyn]. }
  destruct (startswith line "+ " || startswith line "* ") eqn:Ech.
  { apply SR_bind; [apply validate_choice_syntax_erase|]. intros _ _.
    apply SR_bind; [apply erase_retag|].
    intros [[text target args cond sticky sec tags blk]|] Hoc; [|apply SR_dsyn].
    destruct (String.eqb target "@join") eqn:Et; [|sr_ok].
    assert (Hs : join_site line = true).
    { unfold join_site. rewrite Ech. apply retag_ok_eq in Hoc. rewrite Hoc, Et. reflexivity. }
    intros HG.
    assert (Hg : GxJ (x_join xs L (S i) (indent_of line))).
    { destruct (x_join xs L (S i) (indent_of line)) as [[[bc be] n]|?|?|]; exact HG. }
    specialize (Hjoin Hs Hg). revert HG. apply SR_bind; [exact Hjoin|].
    intros [[bc be] n] _. sr_ok. }
  destruct (nonempty (strip line)); [|sr_ok].
  destruct (endswith (rstrip line) "<>").
  - apply SR_bind; [apply erase_retag|]. intros ts _. sr_ok.
  - apply SR_bind; [apply erase_retag|]. intros ts _. sr_ok.
Qed.

(* the part of parse_step after the imports section and the @metadata block *)
Definition step_tail2 (lines : list string) (j : nat) (st : pstate) : pres (pstate * nat) :=
  let stripped := strip line in
  if startswith stripped "@start " then POk (set_start st (strip (drop 7 stripped)), S j) else
  if startswith line ":: " then
    let (passage_header, _) := strip_inline_comment (strip (drop 3 line)) in
    let (name_with_params, params_str) := extract_passage_params passage_header in
    let (passage_name, passage_tags) := parse_tags name_with_params in
    let* _ := validate_passage_name passage_name j in
    let* ps := (if nonempty params_str then retag j (parse_passage_params params_str) else POk []) in
    POk (new_passage st passage_name ps passage_tags j, S j)
  else
  match st_current st with
  | None => POk (st, S j)
  | Some cp => body_step pp xs lines j line st cp
  end.

Definition step_tail1 (lines : list string) (j : nat) (st1 : pstate) : pres (pstate * nat) :=
  let stripped := strip line in
  if String.eqb stripped "@metadata" then POk (set_in_metadata st1 true, S j) else
  let phase2 : pstate + (pstate * nat) :=
    if st_in_metadata st1 then
      if negb (nonempty stripped) || startswith stripped "#" then inr (st1, S j)
      else if startswith line " " || startswith line (String (ascii_of_nat 9) EmptyString) then
        match find_char stripped ":" with
        | Some k =>
            inr (set_metadata st1 (set_key (strip (take k stripped)) (strip (drop (S k) stripped))
                                           (st_metadata st1)), S j)
        | None => inl (set_in_metadata st1 false)
        end
      else inl (set_in_metadata st1 false)
    else inl st1 in
  match phase2 with
  | inr r => POk r
  | inl st => step_tail2 lines j st
  end.

Lemma parse_step_unfold : forall lines j st0,
  parse_step pp xs lines j line st0 =
  let stripped := strip line in
  if st_in_imports st0 then
    if negb (nonempty stripped) || startswith stripped "#" then POk (st0, S j)
    else if startswith stripped "import " || startswith stripped "from "
    then POk (set_imports st0 (line :: st_imports st0), S j)
    else step_tail1 lines j (set_in_imports st0 false)
  else step_tail1 lines j st0.
Proof.
  intros lines j st0. unfold parse_step, step_tail1, step_tail2. cbv zeta.
  destruct (st_in_imports st0); [|reflexivity].
  destruct (negb (nonempty (strip line)) || startswith (strip line) "#"); [reflexivity|].
  destruct (startswith (strip line) "import " || startswith (strip line) "from "); reflexivity.
Qed.

Lemma validate_passage_name_erase : forall name a b,
  erase (validate_passage_name name b) = erase (validate_passage_name name a).
Proof.
  intros name a b. unfold validate_passage_name.
  repeat (match goal with
          | |- context [if ?c then _ else _] => destruct c
          | |- context [match ?x with EmptyString => _ | String _ _ => _ end] => destruct x
          end; cbn [pbind]); reflexivity.
Qed.

Lemma step_tail2_sim : forall st l2, loc_rel (st_locations st) l2 ->
  SR (step_tail2 L i st) (step_tail2 L' (d + i) (set_locs st l2)).
Proof.
  intros st l2 Hl. unfold step_tail2. cbv zeta.
  destruct (startswith (strip line) "@start "); [sr_ok|].
  destruct (startswith line ":: ").
  { destruct (strip_inline_comment _) as [hdr cm]. destruct (extract_passage_params hdr) as [nwp ps0].
    destruct (parse_tags nwp) as [name tags].
    apply SR_bind; [apply validate_passage_name_erase|]. intros _ _.
    apply SR_bind; [destruct (nonempty ps0); [apply erase_retag|reflexivity]|]. intros ps _.
    destruct (new_passage_locs st l2 name ps tags i (d + i) Hl) as [l3 [E3 H3]].
    rewrite E3. intros _. exists l3. split; [apply f_equal; apply f_equal2; [reflexivity|lia]|exact H3]. }
  cbn [st_current set_locs].
  destruct (st_current st) as [cp|]; [apply body_step_sim; exact Hl|sr_ok].
Qed.

Lemma step_tail1_sim : forall st l2, loc_rel (st_locations st) l2 ->
  SR (step_tail1 L i st) (step_tail1 L' (d + i) (set_locs st l2)).
Proof.
  intros st l2 Hl. unfold step_tail1. cbv zeta.
  destruct (String.eqb (strip line) "@metadata"); [sr_ok|].
  cbn [st_in_metadata set_locs].
  destruct (st_in_metadata st).
  - destruct (negb (nonempty (strip line)) || startswith (strip line) "#"); [sr_ok|].
    destruct (startswith line " " || startswith line (String (ascii_of_nat 9) "")).
    + destruct (find_char (strip line) ":"); [sr_ok|].
      apply (step_tail2_sim (set_in_metadata st false) l2 Hl).
    + apply (step_tail2_sim (set_in_metadata st false) l2 Hl).
  - apply (step_tail2_sim st l2 Hl).
Qed.

Lemma parse_step_sim : forall st l2, loc_rel (st_locations st) l2 ->
  SR (parse_step pp xs L i line st) (parse_step pp xs L' (d + i) line (set_locs st l2)).
Proof.
  intros st l2 Hl. rewrite !parse_step_unfold. cbv zeta.
  cbn [st_in_imports set_locs].
  destruct (st_in_imports st).
  - destruct (negb (nonempty (strip line)) || startswith (strip line) "#"); [sr_ok|].
    destruct (startswith (strip line) "import " || startswith (strip line) "from "); [sr_ok|].
    apply (step_tail1_sim (set_in_imports st false) l2 Hl).
  - apply (step_tail1_sim st l2 Hl).
Qed.

End StepSim.

(* ---- comment lines ---- *)

Lemma rstrip_cons_nonspace : forall c r, is_space c = false -> rstrip (String c r) = String c (rstrip r).
Proof. intros c r H. rewrite rstrip_cons. destruct (rstrip r); rewrite ?H; reflexivity. Qed.

Lemma startswith_hash_other : forall s x p, startswith s "#" = true -> ascii_eqb "#"%char x = false ->
  startswith s (String x p) = false.
Proof.
  intros [|a r] x p H Hx; simpl in H |- *; [reflexivity|].
  apply andb_prop in H. destruct H as [H _]. unfold ascii_eqb in H. apply Ascii.eqb_eq in H. subst a.
  rewrite Hx. reflexivity.
Qed.

Lemma hash_not_eq : forall s t x p, startswith s "#" = true -> ascii_eqb "#"%char x = false ->
  t = String x p -> String.eqb s t = false.
Proof.
  intros [|a r] t x p H Hx ->; simpl in H; [discriminate|].
  apply andb_prop in H. destruct H as [H _]. unfold ascii_eqb in H. apply Ascii.eqb_eq in H. subst a.
  unfold ascii_eqb in Hx.
  change (String.eqb (String "#" r) (String x p)) with (if Ascii.eqb "#" x then String.eqb r p else false).
  rewrite Hx. reflexivity.
Qed.

Lemma is_hash_not_header : forall c, is_hash c = true -> startswith c ":: " = false.
Proof.
  intros [|a r] H; [reflexivity|]. simpl. destruct (ascii_eqb a ":") eqn:E; [|reflexivity].
  unfold ascii_eqb in E. apply Ascii.eqb_eq in E. subst a.
  unfold is_hash, strip in H. cbn [lstrip] in H. change (is_space ":") with false in H. cbv iota in H.
  rewrite rstrip_cons_nonspace in H by reflexivity. simpl in H. discriminate.
Qed.

Lemma lstrip_split : forall s, exists w, all_space w = true /\ s = w ++ lstrip s.
Proof.
  induction s as [|a r [w [Hw E]]].
  - exists "". split; reflexivity.
  - cbn [lstrip]. destruct (is_space a) eqn:Ea.
    + exists (String a w). split; [simpl; rewrite Ea; exact Hw|]. simpl. rewrite <- E. reflexivity.
    + exists "". split; reflexivity.
Qed.

Lemma lstrip_head : forall s a r, lstrip s = String a r -> is_space a = false.
Proof.
  induction s as [|b t IH]; intros a r H; [discriminate|].
  cbn [lstrip] in H. destruct (is_space b) eqn:Eb; [eapply IH; exact H|]. injection H as <- _. exact Eb.
Qed.

Lemma lstrip_app_ws : forall w s, all_space w = true -> lstrip (w ++ s) = lstrip s.
Proof.
  induction w as [|a w IH]; intros s H; [reflexivity|].
  simpl in H. apply andb_prop in H. destruct H as [Ha Hw]. simpl. rewrite Ha. apply IH. exact Hw.
Qed.

Lemma is_hash_shape : forall c, is_hash c = true ->
  exists w r, all_space w = true /\ c = w ++ String "#" r.
Proof.
  intros c H. destruct (lstrip_split c) as [w [Hw E]]. unfold is_hash, strip in H.
  destruct (lstrip c) as [|a r] eqn:El; [discriminate|].
  pose proof (lstrip_head c a r El) as Ha. rewrite rstrip_cons_nonspace in H by exact Ha.
  simpl in H. apply andb_prop in H. destruct H as [H _]. unfold ascii_eqb in H. apply Ascii.eqb_eq in H.
  subst a. exists w, r. split; assumption.
Qed.

Lemma shape_is_hash : forall w r, all_space w = true -> is_hash (w ++ String "#" r) = true.
Proof.
  intros w r H. unfold is_hash, strip. rewrite (lstrip_app_ws w _ H). cbn [lstrip].
  change (is_space "#") with false. cbv iota. rewrite rstrip_cons_nonspace by reflexivity.
  simpl. destruct (rstrip r); reflexivity.
Qed.

Lemma sic_all_space : forall w, all_space w = true -> strip_inline_comment w = (w, "").
Proof.
  induction w as [|a w IH]; intros H; [reflexivity|].
  simpl in H. apply andb_prop in H. destruct H as [Ha Hw].
  rewrite sic_regular_head by (left; apply space_not_slash; exact Ha). rewrite (IH Hw). reflexivity.
Qed.

Lemma length_sic_snd_le : forall n s, String.length s <= n ->
  String.length (snd (strip_inline_comment s)) <= String.length s.
Proof.
  induction n as [|n IH]; intros s Hn.
  - destruct s; simpl in *; lia.
  - destruct s as [|a [|b [|c r]]].
    + simpl. lia.
    + rewrite sic_1. simpl. lia.
    + rewrite sic_2. destruct (is_slash a && is_slash b); simpl; lia.
    + rewrite sic_3. simpl in Hn.
      pose proof (IH r ltac:(lia)) as H1.
      pose proof (IH (String b (String c r)) ltac:(simpl; lia)) as H2.
      destruct (is_bslash a && is_slash b && is_slash c); [simpl in *; lia|].
      destruct (is_slash a && is_slash b && is_equals c); [simpl in *; lia|].
      destruct (is_slash a && is_slash b); simpl in *; lia.
Qed.

Lemma take_app_ge : forall a b n, take (String.length a + n) (a ++ b) = a ++ take n b.
Proof. induction a as [|x a IH]; intros b n; simpl; [reflexivity|now rewrite IH]. Qed.

(* what the pre-pass leaves of a comment line is a comment line *)
Lemma is_hash_bare : forall c, is_hash c = true -> is_hash (bare_of c) = true.
Proof.
  intros c H. destruct (is_hash_shape c H) as [w [r [Hw ->]]].
  unfold bare_of.
  assert (Es : strip_inline_comment (w ++ String "#" r) =
               (w ++ String "#" (fst (strip_inline_comment r)), snd (strip_inline_comment r))).
  { rewrite sic_app.
    - rewrite (sic_all_space w Hw), sic_regular_head by (left; reflexivity). reflexivity.
    - unfold no_comment. rewrite (sic_all_space w Hw). reflexivity.
    - unfold boundary_ok. simpl. apply orb_true_r. }
  rewrite Es. cbn [snd].
  destruct (snd (strip_inline_comment r)) as [|x cm] eqn:Ec; cbn [nonempty]; [apply shape_is_hash; exact Hw|].
  pose proof (length_sic_snd_le (String.length r) r (Nat.le_refl _)) as Hlen. rewrite Ec in Hlen.
  replace (String.length (w ++ String "#" r) - String.length (String x cm))
    with (String.length w + S (String.length r - String.length (String x cm))).
  2:{ rewrite length_append. simpl in *. lia. }
  rewrite take_app_ge. cbn [take].
  unfold is_hash. rewrite strip_rstrip. apply shape_is_hash. exact Hw.
Qed.

(* ---- lists with an inserted element ---- *)

Lemma insert_at_0 : forall c (ls : list string), insert_at 0 c ls = c :: ls.
Proof. reflexivity. Qed.

Lemma insert_at_S : forall k c l (r : list string), insert_at (S k) c (l :: r) = l :: insert_at k c r.
Proof. reflexivity. Qed.

Lemma insert_at_length : forall k c (ls : list string), List.length (insert_at k c ls) = S (List.length ls).
Proof.
  intros k c ls. unfold insert_at. rewrite app_length. simpl.
  rewrite <- (firstn_skipn k ls) at 3. rewrite app_length. lia.
Qed.

Lemma nth_error_insert_lt : forall k c (ls : list string) i, i < k -> k <= List.length ls ->
  nth_error (insert_at k c ls) i = nth_error ls i.
Proof.
  induction k as [|k IH]; intros c ls i Hi Hk; [lia|].
  destruct ls as [|l r]; simpl in Hk; [lia|]. rewrite insert_at_S.
  destruct i as [|i]; [reflexivity|]. simpl. apply IH; lia.
Qed.

Lemma nth_error_insert_eq : forall k c (ls : list string), k <= List.length ls ->
  nth_error (insert_at k c ls) k = Some c.
Proof.
  induction k as [|k IH]; intros c ls Hk; [reflexivity|].
  destruct ls as [|l r]; simpl in Hk; [lia|]. rewrite insert_at_S. simpl. apply IH. lia.
Qed.

Lemma nth_error_insert_ge : forall k c (ls : list string) i, k <= i -> k <= List.length ls ->
  nth_error (insert_at k c ls) (S i) = nth_error ls i.
Proof.
  induction k as [|k IH]; intros c ls i Hi Hk; [reflexivity|].
  destruct ls as [|l r]; simpl in Hk; [lia|]. rewrite insert_at_S.
  destruct i as [|i]; [lia|]. simpl. apply IH; lia.
Qed.

Lemma skipn_insert_le : forall j k c (ls : list string), j <= k -> k <= List.length ls ->
  skipn j (insert_at k c ls) = insert_at (k - j) c (skipn j ls).
Proof.
  induction j as [|j IH]; intros k c ls Hj Hk.
  - rewrite Nat.sub_0_r. reflexivity.
  - destruct k as [|k]; [lia|]. destruct ls as [|l r]; simpl in Hk; [lia|].
    rewrite insert_at_S. simpl. apply IH; lia.
Qed.

Lemma skipn_insert_gt : forall k c (ls : list string) j, k <= j -> k <= List.length ls ->
  skipn (S j) (insert_at k c ls) = skipn j ls.
Proof.
  induction k as [|k IH]; intros c ls j Hj Hk; [reflexivity|].
  destruct ls as [|l r]; simpl in Hk; [lia|]. rewrite insert_at_S.
  destruct j as [|j]; [lia|]. simpl. apply IH; lia.
Qed.

(* ---- extract_multiline_expression and an inserted line ---- *)

Lemma eme_loop_insert : forall c r m stack acc n0,
  eme_count r stack <= m -> m < List.length r ->
  eme_loop (insert_at m c r) stack acc n0 = eme_loop r stack acc n0.
Proof.
  induction r as [|l r IH]; intros m stack acc n0 Hc Hm; [simpl in Hm; lia|].
  destruct stack as [|t st].
  - destruct m; reflexivity.
  - destruct m as [|m].
    + simpl in Hc. destruct (scan_brackets l (t :: st)); lia.
    + rewrite insert_at_S. cbn [eme_loop eme_count] in *.
      destruct (scan_brackets l (t :: st)) as [|t' st'] eqn:E; [reflexivity|].
      apply IH; simpl in Hm; lia.
Qed.

Lemma eme_count_insert : forall c r m stack,
  eme_count r stack <= m -> m < List.length r ->
  eme_count (insert_at m c r) stack = eme_count r stack.
Proof.
  intros c r m stack Hc Hm.
  pose proof (eme_loop_count (insert_at m c r) stack [] 0) as H1.
  pose proof (eme_loop_count r stack [] 0) as H2.
  rewrite (eme_loop_insert c r m stack [] 0 Hc Hm) in H1. simpl in *. congruence.
Qed.

Lemma eme_insert_before : forall c L k i code,
  i + snd (extract_multiline_expression L i code) <= k -> k < List.length L ->
  extract_multiline_expression (insert_at k c L) i code = extract_multiline_expression L i code.
Proof.
  intros c L k i code H Hk. unfold extract_multiline_expression in *.
  destruct (negb _); [reflexivity|].
  pose proof (eme_loop_count (skipn (S i) L) (initial_stack (strip code) []) [code] 0) as Hc.
  destruct (eme_loop (skipn (S i) L) (initial_stack (strip code) []) [code] 0) as [acc n] eqn:E.
  cbn [snd] in H, Hc. rewrite Nat.add_0_l in Hc.
  rewrite skipn_insert_le by lia.
  rewrite eme_loop_insert; [rewrite E; reflexivity|lia|rewrite skipn_length; lia].
Qed.

Lemma eme_insert_after : forall c L k i code, k <= i -> k <= List.length L ->
  extract_multiline_expression (insert_at k c L) (S i) code = extract_multiline_expression L i code.
Proof.
  intros c L k i code H Hk. unfold extract_multiline_expression.
  rewrite (skipn_insert_gt k c L (S i)) by lia. reflexivity.
Qed.

(* ---- the pre-pass and an inserted comment line ---- *)

(* what the pre-pass emits for a line, and its state after the line *)
Definition pre_emit (l : string) (closer : option string) (in_story : bool) : string :=
  let bare := bare_of l in
  let stripped := strip bare in
  match closer with
  | Some c => if String.eqb stripped c then bare else l
  | None => if in_story || startswith l ":: " || startswith stripped "@start " then rstrip bare else l
  end.

Definition pre_next (l : string) (r : list string) (closer : option string) (in_story : bool)
  : option string * bool * nat :=
  let bare := bare_of l in
  let stripped := strip bare in
  match closer with
  | Some c => if String.eqb stripped c then (None, in_story, 0) else (closer, in_story, 0)
  | None =>
      if in_story || startswith l ":: " || startswith stripped "@start " then
        let in_story' := in_story || startswith l ":: " in
        if startswith stripped "@py" then (Some "@endpy", in_story', 0)
        else if startswith stripped "<<py" then (Some ">>", in_story', 0)
        else if startswith stripped "~ " then (None, in_story', eme_skip r (drop 2 stripped))
        else (None, in_story', 0)
      else (None, in_story, 0)
  end.

Lemma spcop_step : forall l r closer in_story,
  spcop (l :: r) closer in_story 0 =
  pre_emit l closer in_story ::
  spcop r (fst (fst (pre_next l r closer in_story))) (snd (fst (pre_next l r closer in_story)))
        (snd (pre_next l r closer in_story)).
Proof.
  intros l r closer in_story. rewrite spcop_0. unfold pre_emit, pre_next. cbv zeta.
  destruct closer as [c0|].
  - destruct (String.eqb (strip (bare_of l)) c0); reflexivity.
  - repeat match goal with |- context [if ?b then _ else _] => destruct b end; reflexivity.
Qed.

Lemma spcop_length : forall ls closer in_story skip,
  List.length (spcop ls closer in_story skip) = List.length ls.
Proof.
  induction ls as [|l r IH]; intros closer in_story skip; [reflexivity|].
  destruct skip as [|k]; [rewrite spcop_step|]; simpl; rewrite IH; reflexivity.
Qed.

(* the pre-pass state in front of line k (None: the input has fewer than k lines) *)
Fixpoint prepass_at (rest : list string) (closer : option string) (in_story : bool) (skip k : nat)
         {struct k} : option (option string * bool * nat) :=
  match k with
  | 0 => Some (closer, in_story, skip)
  | S k' =>
      match rest with
      | [] => None
      | l :: r =>
          match skip with
          | S s => prepass_at r closer in_story s k'
          | 0 => prepass_at r (fst (fst (pre_next l r closer in_story)))
                            (snd (fst (pre_next l r closer in_story)))
                            (snd (pre_next l r closer in_story)) k'
          end
      end
  end.

Lemma prepass_at_skip_le : forall k r cl ins sk cl2 ins2,
  prepass_at r cl ins sk k = Some (cl2, ins2, 0) -> sk <= k.
Proof.
  induction k as [|k IH]; intros r cl ins sk cl2 ins2 H.
  - simpl in H. injection H as E1 E2 E3. lia.
  - destruct r as [|l r]; [discriminate|]. destruct sk as [|s]; [lia|].
    simpl in H. apply IH in H. lia.
Qed.

Lemma pre_next_insert : forall l r m c cl ins,
  snd (pre_next l r cl ins) <= m -> m < List.length r ->
  pre_next l (insert_at m c r) cl ins = pre_next l r cl ins.
Proof.
  intros l r m c cl ins H Hm. unfold pre_next in *. cbv zeta in *.
  destruct cl as [c0|]; [reflexivity|].
  repeat match goal with |- context [if ?b then _ else _] => destruct b end; try reflexivity.
  cbn [snd] in H. f_equal. unfold eme_skip in *. destruct (negb _); [reflexivity|].
  apply eme_count_insert; assumption.
Qed.

Lemma prepass_insert_gen : forall k ls cl ins sk ins2 c,
  prepass_at ls cl ins sk k = Some (None, ins2, 0) -> k < List.length ls -> is_hash c = true ->
  spcop (insert_at k c ls) cl ins sk = insert_at k (if ins2 then rstrip (bare_of c) else c) (spcop ls cl ins sk).
Proof.
  induction k as [|k IH]; intros ls cl ins sk ins2 c H Hk Hc.
  - simpl in H. injection H as E1 E2 E3. subst cl ins sk. rewrite !insert_at_0, spcop_0. cbv zeta.
    pose proof (is_hash_bare c Hc) as Hb. unfold is_hash in Hb.
    rewrite (is_hash_not_header c Hc).
    rewrite (startswith_hash_other _ "@" "start " Hb) by reflexivity.
    rewrite !orb_false_r.
    destruct ins2; [|reflexivity].
    rewrite (startswith_hash_other _ "@" "py" Hb) by reflexivity.
    rewrite (startswith_hash_other _ "<" "<py" Hb) by reflexivity.
    rewrite (startswith_hash_other _ "~" " " Hb) by reflexivity.
    reflexivity.
  - destruct ls as [|l r]; [simpl in Hk; lia|]. simpl in Hk. rewrite insert_at_S.
    destruct sk as [|s].
    + cbn [prepass_at] in H. rewrite !spcop_step.
      pose proof (prepass_at_skip_le _ _ _ _ _ _ _ H) as Hs.
      rewrite (pre_next_insert l r k c cl ins Hs) by lia.
      rewrite insert_at_S. f_equal. apply IH; [exact H|lia|exact Hc].
    + cbn [prepass_at] in H. cbn [strip_comments_outside_python]. rewrite insert_at_S. f_equal.
      apply IH; [exact H|lia|exact Hc].
Qed.

(* ---- the main loop ---- *)

Section LoopSim.
Variable pp : pyparse.
Variable xs : extractors.
Hypothesis xs_ok : extractors_ok xs.

Lemma step_progress : forall lines i line st st' i',
  nth_error lines i = Some line -> parse_step pp xs lines i line st = POk (st', i') -> i < i'.
Proof.
  intros lines i line st st' i' Hn H.
  destruct (parse_step_adv pp xs xs_ok (fun _ _ => True) (fun _ _ _ => I) (fun _ _ _ _ _ _ => I)
              (fun _ _ _ => I) (fun _ _ _ => I) (fun _ _ _ => I) (fun _ _ _ => I) lines i line st Hn)
    as [_ Hadv].
  exact (Hadv st' i' H).
Qed.

(* with enough fuel the amount of fuel does not matter *)
Lemma fuel_irrel : forall lines f1 f2 i st,
  List.length lines < f1 + i -> List.length lines < f2 + i ->
  parse_loop pp xs f1 lines (List.length lines) i st = parse_loop pp xs f2 lines (List.length lines) i st.
Proof.
  intros lines. induction f1 as [|f1 IH]; intros f2 i st H1 H2.
  - destruct f2; simpl; destruct (List.length lines <=? i) eqn:E; try reflexivity;
      apply Nat.leb_gt in E; lia.
  - destruct f2 as [|f2].
    + simpl. destruct (List.length lines <=? i) eqn:E; [reflexivity|]. apply Nat.leb_gt in E. lia.
    + cbn [parse_loop]. destruct (List.length lines <=? i) eqn:E; [reflexivity|]. apply Nat.leb_gt in E.
      destruct (nth_error lines i) as [line|] eqn:En; [|reflexivity].
      destruct (parse_step pp xs lines i line st) as [[st' i']|dd|kk|] eqn:Es; try reflexivity.
      simpl. pose proof (step_progress _ _ _ _ _ _ En Es). apply IH; lia.
Qed.

(* the state in which the loop arrives at index k (None: it does not stop at k) *)
Fixpoint loop_to (fuel : nat) (lines : list string) (k i : nat) (st : pstate) : option pstate :=
  if i =? k then Some st else
  match fuel with
  | 0 => None
  | S f =>
      if k <? i then None else
      match nth_error lines i with
      | None => None
      | Some line =>
          match parse_step pp xs lines i line st with
          | POk (st', i') => loop_to f lines k i' st'
          | _ => None
          end
      end
  end.

Lemma loop_to_le : forall f lines k i st s, loop_to f lines k i st = Some s -> i <= k.
Proof.
  intros [|f] lines k i st s H; simpl in H; destruct (i =? k) eqn:E;
    try (apply Nat.eqb_eq in E; lia); try discriminate.
  destruct (k <? i) eqn:E2; [discriminate|]. apply Nat.ltb_ge in E2. exact E2.
Qed.

Lemma loop_split : forall lines f k F i st stk,
  loop_to f lines k i st = Some stk -> k <= List.length lines -> List.length lines < F + i ->
  parse_loop pp xs F lines (List.length lines) i st = parse_loop pp xs F lines (List.length lines) k stk.
Proof.
  intros lines. induction f as [|f IH]; intros k F i st stk H Hk HF.
  - simpl in H. destruct (i =? k) eqn:E; [|discriminate]. apply Nat.eqb_eq in E. congruence.
  - cbn [loop_to] in H. destruct (i =? k) eqn:E; [apply Nat.eqb_eq in E; congruence|].
    apply Nat.eqb_neq in E. destruct (k <? i) eqn:E2; [discriminate|]. apply Nat.ltb_ge in E2.
    destruct (nth_error lines i) as [line|] eqn:En; [|discriminate].
    destruct (parse_step pp xs lines i line st) as [[st' i']|dd|kk|] eqn:Es; try discriminate.
    pose proof (step_progress _ _ _ _ _ _ En Es) as Hp.
    pose proof (loop_to_le _ _ _ _ _ _ H) as Hle.
    destruct F as [|F]; [lia|].
    remember (parse_loop pp xs (S F) lines (List.length lines) k stk) as R eqn:ER.
    cbn [parse_loop]. replace (List.length lines <=? i) with false by (symmetry; apply Nat.leb_gt; lia).
    rewrite En, Es. simpl.
    rewrite (IH k F i' st' stk H Hk) by lia. subst R.
    apply fuel_irrel; lia.
Qed.

(* a comment line met at top level is skipped: in the import section, in the @metadata block
   (fix F17l), before the first passage, in a passage *)
Lemma hash_step : forall lines j c st, is_hash c = true ->
  parse_step pp xs lines j c st = POk (st, S j).
Proof.
  intros lines j c st Hc. unfold is_hash in Hc. unfold parse_step. cbv zeta.
  rewrite Hc. rewrite orb_true_r.
  destruct (st_in_imports st) eqn:Ei; [reflexivity|].
  rewrite (hash_not_eq (strip c) "@metadata" "@" "metadata" Hc) by reflexivity.
  destruct (st_in_metadata st) eqn:Hm; [reflexivity|].
  rewrite (startswith_hash_other _ "@" "start " Hc) by reflexivity.
  fold (is_hash c) in Hc. rewrite (is_hash_not_header c Hc).
  destruct (st_current st) as [cp|]; [|reflexivity].
  unfold body_step. unfold is_hash in Hc. rewrite Hc. reflexivity.
Qed.

End LoopSim.

(* What the theorem needs of the block extractors for an insertion of c in front of line k of L
   (L is the line list the main loop sees).  It is asked only at lines where the main loop calls an
   extractor, so it is vacuous for inputs without block constructs.
     before k: a block that ended before the inserted line is returned unchanged;
     from k on: the extractor does on the shifted input what it did on the original one (diagnostics
                up to the line index they carry). *)
Definition xs_local (xs : extractors) (L : list string) (k : nat) (c : string) : Prop :=
  let L' := insert_at k c L in
  (forall i line, i < k -> nth_error L i = Some line -> py_test (strip line) = true ->
     forall t n, x_python xs L i = POk (t, n) -> i + n <= k -> x_python xs L' i = POk (t, n)) /\
  (forall i line, i < k -> nth_error L i = Some line -> if_test (strip line) = true ->
     forall t n, x_conditional xs L i = POk (t, n) -> i + n <= k -> x_conditional xs L' i = POk (t, n)) /\
  (forall i line, i < k -> nth_error L i = Some line -> for_test (strip line) = true ->
     forall t n, x_loop xs L i = POk (t, n) -> i + n <= k -> x_loop xs L' i = POk (t, n)) /\
  (forall i line, i < k -> nth_error L i = Some line -> join_site line = true ->
     forall r n, x_join xs L (S i) (indent_of line) = POk (r, n) -> S (i + n) <= k ->
     x_join xs L' (S i) (indent_of line) = POk (r, n)) /\
  (forall i line, k <= i -> nth_error L i = Some line -> py_test (strip line) = true ->
     erase (x_python xs L' (S i)) = erase (x_python xs L i)) /\
  (forall i line, k <= i -> nth_error L i = Some line -> if_test (strip line) = true ->
     erase (x_conditional xs L' (S i)) = erase (x_conditional xs L i)) /\
  (forall i line, k <= i -> nth_error L i = Some line -> for_test (strip line) = true ->
     erase (x_loop xs L' (S i)) = erase (x_loop xs L i)) /\
  (forall i line, k <= i -> nth_error L i = Some line -> join_site line = true ->
     erase (x_join xs L' (S (S i)) (indent_of line)) = erase (x_join xs L (S i) (indent_of line))).

(* outcome of the loop, up to recorded line numbers and diagnostic indices *)
Definition loop_rel (r r' : pres pstate) : Prop :=
  match r with
  | POk s => exists l3, r' = POk (set_locs s l3) /\ loc_rel (st_locations s) l3
  | PDiag dd => exists dd', r' = PDiag dd' /\ erase_d dd' = erase_d dd
  | PInternal a => r' = PInternal a
  | POutOfFuel => r' = POutOfFuel
  end.

Section InsertSim.
Variable pp : pyparse.
Variable xs : extractors.
Hypothesis xs_ok : extractors_ok xs.
Variable L : list string.
Variable k : nat.
Variable c : string.
Hypothesis Hk : k < List.length L.
Hypothesis Hloc : xs_local xs L k c.

Let L' := insert_at k c L.

Lemma loop_to_sim : forall f i st l2 stk,
  loop_to pp xs f L k i st = Some stk -> loc_rel (st_locations st) l2 ->
  exists lk, loop_to pp xs f L' k i (set_locs st l2) = Some (set_locs stk lk) /\
             loc_rel (st_locations stk) lk.
Proof.
  destruct Hloc as [B1 [B2 [B3 [B4 _]]]].
  induction f as [|f IH]; intros i st l2 stk H Hl.
  - simpl in H |- *. destruct (i =? k); [|discriminate]. injection H as <-. eauto.
  - cbn [loop_to] in H |- *. destruct (i =? k) eqn:E; [injection H as <-; eauto|].
    apply Nat.eqb_neq in E. destruct (k <? i) eqn:E2; [discriminate|]. apply Nat.ltb_ge in E2.
    assert (Hi : i < k) by lia.
    unfold L'. rewrite nth_error_insert_lt by lia.
    destruct (nth_error L i) as [line|] eqn:En; [|discriminate].
    destruct (parse_step pp xs L i line st) as [[st' i']|dd|kk|] eqn:Es; try discriminate.
    pose proof (loop_to_le _ _ _ _ _ _ _ _ H) as Hle.
    assert (S1 : SR 0 (fun j => j <= k) False (parse_step pp xs L i line st)
                    (parse_step pp xs (insert_at k c L) (0 + i) line (set_locs st l2))).
    { apply parse_step_sim; [| | | | |exact Hl].
      - intros Ht Hg. simpl. destruct (x_python xs L i) as [[t n]|?|?|] eqn:Ex; try contradiction.
        simpl in Hg. rewrite (B1 i line Hi En Ht t n Ex Hg). reflexivity.
      - intros Ht Hg. simpl. destruct (x_conditional xs L i) as [[t n]|?|?|] eqn:Ex; try contradiction.
        simpl in Hg. rewrite (B2 i line Hi En Ht t n Ex Hg). reflexivity.
      - intros Ht Hg. simpl. destruct (x_loop xs L i) as [[t n]|?|?|] eqn:Ex; try contradiction.
        simpl in Hg. rewrite (B3 i line Hi En Ht t n Ex Hg). reflexivity.
      - intros Ht Hg. simpl. destruct (x_join xs L (S i) (indent_of line)) as [[r n]|?|?|] eqn:Ex; try contradiction.
        simpl in Hg. rewrite (B4 i line Hi En Ht r n Ex Hg). reflexivity.
      - intros code [Hc|[]]. simpl. apply eme_insert_before; [exact Hc|exact Hk]. }
    rewrite Es in S1. destruct (S1 Hle) as [l3 [E3 H3]]. simpl in E3. rewrite E3.
    apply IH; assumption.
Qed.

Lemma loop_sim2 : forall F i st l2, k <= i -> loc_rel (st_locations st) l2 ->
  loop_rel (parse_loop pp xs F L (List.length L) i st)
           (parse_loop pp xs F L' (S (List.length L)) (S i) (set_locs st l2)).
Proof.
  destruct Hloc as [_ [_ [_ [_ [A1 [A2 [A3 A4]]]]]]].
  induction F as [|F IH]; intros i st l2 Hi Hl.
  - simpl. destruct (List.length L <=? i); simpl; eauto.
  - cbn [parse_loop]. change (S (List.length L) <=? S i) with (List.length L <=? i).
    destruct (List.length L <=? i) eqn:E; [simpl; eauto|]. apply Nat.leb_gt in E.
    unfold L'. rewrite nth_error_insert_ge by lia.
    destruct (nth_error L i) as [line|] eqn:En; [|reflexivity].
    assert (S1 : SR 1 (fun _ => True) True (parse_step pp xs L i line st)
                    (parse_step pp xs (insert_at k c L) (1 + i) line (set_locs st l2))).
    { apply parse_step_sim; [| | | | |exact Hl].
      - intros Ht _. exact (A1 i line Hi En Ht).
      - intros Ht _. exact (A2 i line Hi En Ht).
      - intros Ht _. exact (A3 i line Hi En Ht).
      - intros Ht _. exact (A4 i line Hi En Ht).
      - intros code _. apply eme_insert_after; lia. }
    change (1 + i) with (S i) in S1.
    destruct (parse_step pp xs L i line st) as [[st' i']|dd|kk|] eqn:Es.
    + destruct (S1 I) as [l3 [E3 H3]]. rewrite E3. simpl.
      pose proof (step_progress pp xs xs_ok _ _ _ _ _ _ En Es) as Hp.
      apply IH; [lia|exact H3].
    + destruct (S1 I) as [dd' [E3 H3]]. rewrite E3. simpl. eauto.
    + rewrite (S1 I). reflexivity.
    + rewrite (S1 I). reflexivity.
Qed.

(* the loop on the input with the comment line inserted, against the loop on the input *)
Lemma loop_insert : forall f stk,
  is_hash c = true ->
  loop_to pp xs f L k 0 init_state = Some stk ->
  loop_rel (parse_loop pp xs (S (List.length L)) L (List.length L) 0 init_state)
           (parse_loop pp xs (S (List.length L')) L' (List.length L') 0 init_state).
Proof.
  intros f stk Hc Hto.
  assert (HL' : List.length L' = S (List.length L)) by apply insert_at_length.
  rewrite (loop_split pp xs xs_ok L f k (S (List.length L)) 0 init_state stk Hto) by lia.
  destruct (loop_to_sim f 0 init_state [] stk Hto (loc_rel_refl _)) as [lk [Hto' Hlk]].
  change (set_locs init_state []) with init_state in Hto'.
  rewrite (loop_split pp xs xs_ok L' f k (S (List.length L')) 0 init_state _ Hto') by lia.
  rewrite HL'.
  replace (parse_loop pp xs (S (S (List.length L))) L' (S (List.length L)) k (set_locs stk lk))
    with (parse_loop pp xs (S (List.length L)) L' (S (List.length L)) (S k) (set_locs stk lk)).
  2:{ symmetry. cbn [parse_loop].
      replace (S (List.length L) <=? k) with false by (symmetry; apply Nat.leb_gt; lia).
      unfold L'. rewrite nth_error_insert_eq by lia.
      rewrite hash_step; [reflexivity|exact Hc]. }
  apply loop_sim2; [lia|exact Hlk].
Qed.

End InsertSim.

(* ---- (b), whole compiler model ---- *)

(* Position k of the input is at top level: the pre-pass is outside Python code there (no open
   @py:/<<py block, no continuation line of a ~ statement pending) and the main loop arrives at index k
   (it is not inside a block that an extractor is consuming).  Since fix F17l the @metadata block is
   no exception any more. *)
Definition top_level_at (pp : pyparse) (xs : extractors) (ls : list string) (k : nat) : bool :=
  match prepass_at ls None false 0 k with
  | Some (None, _, 0) =>
      match loop_to pp xs (S (List.length ls)) (spcop ls None false 0) k 0 init_state with
      | Some _ => true
      | None => false
      end
  | _ => false
  end.

(* the inserted line as the main loop sees it: without its own trailing // comment and right-stripped
   when it stands in the story (after the first passage header), as written in the preamble *)
Definition seen_comment (ls : list string) (k : nat) (c : string) : string :=
  match prepass_at ls None false 0 k with
  | Some (_, true, _) => rstrip (bare_of c)
  | _ => c
  end.

Lemma hash_line_invisible_lemma : forall pp is_call xs ls k c,
  extractors_ok xs ->
  k < List.length ls -> is_hash c = true -> top_level_at pp xs ls k = true ->
  xs_local xs (spcop ls None false 0) k (seen_comment ls k c) ->
  erase (parse pp is_call xs (insert_at k c ls)) = erase (parse pp is_call xs ls).
Proof.
  intros pp is_call xs ls k c Hx Hk Hc Ht Hloc. unfold top_level_at in Ht. unfold seen_comment in Hloc.
  destruct (prepass_at ls None false 0 k) as [[[[cl|] ins] [|sk]]|] eqn:Ep; try discriminate.
  destruct (loop_to pp xs (S (List.length ls)) (spcop ls None false 0) k 0 init_state) as [stk|] eqn:El;
    [|discriminate].
  clear Ht.
  unfold parse. rewrite (prepass_insert_gen k ls None false 0 ins c Ep Hk Hc).
  set (L := spcop ls None false 0) in *.
  set (c' := if ins then rstrip (bare_of c) else c).
  assert (Hc' : is_hash c' = true).
  { unfold c'. destruct ins; [|exact Hc]. unfold is_hash. rewrite strip_rstrip. apply is_hash_bare. exact Hc. }
  assert (HkL : k < List.length L) by (unfold L; rewrite spcop_length; exact Hk).
  assert (Hloc' : xs_local xs L k c') by (unfold c'; destruct ins; exact Hloc).
  pose proof (loop_insert pp xs Hx L k c' HkL Hloc' _ stk Hc' El) as R.
  destruct (parse_loop pp xs (S (List.length L)) L (List.length L) 0 init_state) as [s|dd|kk|].
  - destruct R as [l3 [-> H3]]. cbn [pbind].
    change (flush_current (set_locs s l3)) with (flush_current s).
    change (st_locations (set_locs s l3)) with l3.
    change (st_explicit_start (set_locs s l3)) with (st_explicit_start s).
    change (st_imports (set_locs s l3)) with (st_imports s).
    change (st_metadata (set_locs s l3)) with (st_metadata s).
    rewrite (loc_rel_dups _ _ H3). reflexivity.
  - destruct R as [dd' [-> H3]]. simpl. rewrite H3. reflexivity.
  - rewrite R. reflexivity.
  - rewrite R. reflexivity.
Qed.

(* inputs without block constructs: every line is classified by the main loop itself *)
Definition blockfree_line (line : string) : bool :=
  negb (py_test (strip line)) && negb (if_test (strip line)) && negb (for_test (strip line)) &&
  negb (join_site line).
Definition blockfree (L : list string) : bool := forallb blockfree_line L.

Lemma blockfree_local : forall xs L k c, blockfree L = true -> xs_local xs L k c.
Proof.
  intros xs L k c H.
  assert (F : forall i line, nth_error L i = Some line -> blockfree_line line = true).
  { intros i line Hn. unfold blockfree in H. rewrite forallb_forall in H. apply H.
    eapply nth_error_In. exact Hn. }
  unfold xs_local. cbv zeta.
  repeat split; intros i line; intros;
    match goal with Hn : nth_error L i = Some line |- _ => pose proof (F i line Hn) as Hb end;
    unfold blockfree_line in Hb;
    repeat match type of Hb with _ && _ = true => apply andb_prop in Hb; destruct Hb as [Hb ?] end;
    repeat match goal with Hx : negb _ = true |- _ => apply negb_true_iff in Hx end;
    congruence.
Qed.

Lemma hash_line_invisible_blockfree_lemma : forall pp is_call xs ls k c,
  extractors_ok xs ->
  blockfree (spcop ls None false 0) = true ->
  k < List.length ls -> is_hash c = true -> top_level_at pp xs ls k = true ->
  erase (parse pp is_call xs (insert_at k c ls)) = erase (parse pp is_call xs ls).
Proof.
  intros pp is_call xs ls k c Hx Hb Hk Hc Ht.
  apply hash_line_invisible_lemma; try assumption.
  apply blockfree_local. exact Hb.
Qed.

(* a compiled story is exactly the same story *)
Lemma erase_ok_eq : forall A (m m' : pres A) a, erase m' = erase m -> m = POk a -> m' = POk a.
Proof. intros A m m' a H ->. apply erase_ok_inv in H. exact H. Qed.

(* =========================================================================================== *)
(* Part C: legacy `<<...>>` and `@...:` block headers                                            *)
(* =========================================================================================== *)
From Coq Require Import ZArith.
From Bardic Require Import ParseBlocks.

(* the conditions (and collections) for which both header forms are read back exactly:
   non-empty, no blank at either end, no `/` (a `//` would start a trailing comment in either form),
   and no `>>` before the end (it would close the legacy form early) *)
Definition cond_ok (c : string) : bool :=
  ParseLine.nonempty c && String.eqb (strip c) c && slash_free c &&
  match str_find (drop 1 (c ++ ">>")) ">>" with
  | Some k => k =? String.length c - 1
  | None => false
  end.

Lemma rstrip_app_fixed : forall x y, rstrip y = y -> y <> "" -> rstrip (x ++ y) = x ++ y.
Proof.
  induction x as [|a x IH]; intros y Hy Hn; [exact Hy|].
  cbn [append]. rewrite rstrip_cons, (IH y Hy Hn).
  destruct (x ++ y) eqn:E; [|reflexivity]. destruct x; simpl in E; [congruence|discriminate].
Qed.

Lemma drop_app_len : forall x y, drop (String.length x) (x ++ y) = y.
Proof. induction x as [|a x IH]; intros y; simpl; [reflexivity|apply IH]. Qed.

Lemma slash_free_app : forall a b, slash_free a = true -> slash_free b = true -> slash_free (a ++ b) = true.
Proof.
  induction a as [|x a IH]; intros b Ha Hb; [exact Hb|].
  simpl in Ha |- *. apply andb_prop in Ha. destruct Ha as [H1 H2]. rewrite H1. simpl. apply IH; assumption.
Qed.

Lemma strip_fixed_head : forall c a r, strip c = c -> c = String a r -> is_space a = false.
Proof.
  intros c a r Hs ->. destruct (is_space a) eqn:Ea; [|reflexivity].
  exfalso. unfold strip in Hs. cbn [lstrip] in Hs. rewrite Ea in Hs.
  pose proof (length_rstrip_le (lstrip r)) as H1. pose proof (length_lstrip_le r) as H2.
  rewrite Hs in H1. simpl in H1. lia.
Qed.

Lemma cond_ok_parts : forall c, cond_ok c = true ->
  exists a r, c = String a r /\ is_space a = false /\ strip c = c /\ slash_free c = true /\
              str_find (r ++ ">>") ">>" = Some (String.length r).
Proof.
  intros c H. unfold cond_ok in H.
  apply andb_prop in H. destruct H as [H H4]. apply andb_prop in H. destruct H as [H H3].
  apply andb_prop in H. destruct H as [H1 H2]. apply String.eqb_eq in H2.
  destruct c as [|a r]; [discriminate|]. exists a, r.
  split; [reflexivity|]. split; [eapply strip_fixed_head; [exact H2|reflexivity]|].
  split; [exact H2|]. split; [exact H3|].
  cbn [append drop] in H4. destruct (str_find (r ++ ">>") ">>") as [k|]; [|discriminate].
  apply Nat.eqb_eq in H4. simpl in H4. rewrite H4. f_equal. lia.
Qed.

(* strip of an (indented) header line *)
Lemma strip_header : forall ind a body e,
  all_space ind = true -> is_space a = false -> rstrip e = e -> e <> "" ->
  strip (ind ++ String a (body ++ e)) = String a (body ++ e).
Proof.
  intros ind a body e Hi Ha He Hn. unfold strip. rewrite (lstrip_app_ws ind _ Hi). cbn [lstrip]. rewrite Ha.
  change (String a (body ++ e)) with ((String a body) ++ e). apply rstrip_app_fixed; assumption.
Qed.

Lemma sic_slash_free_fst : forall s, slash_free s = true -> fst (strip_inline_comment s) = s.
Proof. intros s H. rewrite (slash_free_identity s H). reflexivity. Qed.

Lemma startswith_app_self : forall p s, startswith (p ++ s) p = true.
Proof.
  induction p as [|x p IH]; intros s; simpl; [destruct s; reflexivity|].
  unfold ascii_eqb. rewrite Ascii.eqb_refl. apply IH.
Qed.

Lemma endswith_app_self : forall x y, endswith (x ++ y) y = true.
Proof.
  intros x y. unfold endswith. rewrite length_append.
  replace (String.length y <=? String.length x + String.length y) with true
    by (symmetry; apply Nat.leb_le; lia).
  replace (String.length x + String.length y - String.length y) with (String.length x) by lia.
  rewrite drop_app_len, String.eqb_refl. reflexivity.
Qed.

Lemma take_all_but_last : forall x y, take (String.length (x ++ y) - String.length y) (x ++ y) = x.
Proof.
  intros x y. rewrite length_append.
  replace (String.length x + String.length y - String.length y) with (String.length x) by lia.
  apply take_app_len.
Qed.

(* the @-form: `PREFIX c:` is read back as c *)
Lemma match_colon_tail_cond : forall prefix c,
  cond_ok c = true ->
  option_map strip (match_colon_tail prefix (prefix ++ " " ++ c ++ ":")) = Some c.
Proof.
  intros prefix c H. destruct (cond_ok_parts c H) as [a [r [-> [Ha [Hs [Hf Hk]]]]]].
  unfold match_colon_tail.
  assert (Eq : prefix ++ " " ++ String a r ++ ":" = (prefix ++ " " ++ String a r) ++ ":")
    by (rewrite !LexProofs.app_assoc; reflexivity).
  assert (E1 : startswith (prefix ++ " " ++ String a r ++ ":") prefix = true)
    by apply startswith_app_self.
  rewrite E1, Eq. set (X := prefix ++ " " ++ String a r).
  rewrite (rstrip_app_fixed X ":") by (reflexivity || discriminate).
  rewrite endswith_app_self. cbn [andb].
  replace (take (String.length (X ++ ":") - 1) (X ++ ":")) with X
    by (symmetry; apply (take_all_but_last X ":")).
  unfold X. rewrite drop_app_len. cbn [append].
  change (is_space " ") with true. cbn [andb String.length Nat.leb option_map].
  f_equal. unfold strip. cbn [lstrip]. change (is_space " ") with true. cbv iota. exact Hs.
Qed.

(* the legacy form: `PREFIX c>>` is read back as c *)
Lemma match_legacy_cond : forall prefix c,
  cond_ok c = true ->
  match_legacy prefix (prefix ++ " " ++ c ++ ">>") = Some c.
Proof.
  intros prefix c H. destruct (cond_ok_parts c H) as [a [r [-> [Ha [Hs [Hf Hk]]]]]].
  unfold match_legacy.
  assert (E1 : startswith (prefix ++ " " ++ String a r ++ ">>") prefix = true).
  { clear. induction prefix as [|x p IH]; simpl; [reflexivity|].
    unfold ascii_eqb. rewrite Ascii.eqb_refl. exact IH. }
  rewrite E1, drop_app_len.
  assert (E2 : lstrip (" " ++ String a r ++ ">>") = String a (r ++ ">>")).
  { cbn [append lstrip]. change (is_space " ") with true. cbv iota. rewrite Ha. reflexivity. }
  unfold ws_run. rewrite E2. cbn [append String.length].
  replace (S (S (String.length (r ++ ">>"))) - S (String.length (r ++ ">>"))) with 1 by lia.
  cbn [Nat.leb]. unfold lazy_close. rewrite Hk.
  f_equal. change (String a (r ++ ">>")) with (String a r ++ ">>").
  replace (S (String.length r)) with (String.length (String a r)) by reflexivity.
  rewrite take_app_len. exact Hs.
Qed.

Section HeaderForms.
Variable fixed : bool.
Variable lf : linefns.
Variables rc rl : list string -> nat -> pres (token * nat).
Variable lines : list string.
Variable start : nat.

Lemma if_header_at : forall ind c st, cond_ok c = true -> all_space ind = true ->
  cond_step fixed lf rc rl lines start start (ind ++ "@if " ++ c ++ ":") st =
  POk (CNext (mkCstate (cs_branches st) (Some (c, [], [])) [] (Some c)) 1).
Proof.
  intros ind c st H Hi. unfold cond_step.
  assert (Hs : strip (ind ++ "@if " ++ c ++ ":") = "@if " ++ c ++ ":").
  { change ("@if " ++ c ++ ":") with (String "@" (("if " ++ c) ++ ":")).
    apply strip_header; [exact Hi|reflexivity|reflexivity|discriminate]. }
  rewrite Hs. clear Hs.
  destruct (cond_ok_parts c H) as [a [r [Ec [Ha [Hs [Hf Hk]]]]]].
  assert (Hsic : fst (strip_inline_comment ("@if " ++ c ++ ":")) = "@if " ++ c ++ ":").
  { apply sic_slash_free_fst. apply (slash_free_app "@if "); [reflexivity|].
    apply slash_free_app; [exact Hf|reflexivity]. }
  rewrite Hsic. unfold is_if_line, is_py_line, is_for_line.
  rewrite (startswith_app_self "@if " (c ++ ":")). rewrite Nat.eqb_refl.
  pose proof (match_colon_tail_cond "@if" c H) as Hm.
  change ("@if" ++ " " ++ c ++ ":") with ("@if " ++ c ++ ":") in Hm.
  destruct (match_colon_tail "@if" ("@if " ++ c ++ ":")) as [body|]; [|discriminate].
  simpl in Hm. injection Hm as Hm.
  Opaque strip. simpl. Transparent strip.
  rewrite Hm. reflexivity.
Qed.

Lemma if_header_legacy : forall ind c st, cond_ok c = true -> all_space ind = true ->
  cond_step fixed lf rc rl lines start start (ind ++ "<<if " ++ c ++ ">>") st =
  POk (CNext (mkCstate (cs_branches st) (Some (c, [], [])) [] (Some c)) 1).
Proof.
  intros ind c st H Hi. unfold cond_step.
  assert (Hs : strip (ind ++ "<<if " ++ c ++ ">>") = "<<if " ++ c ++ ">>").
  { change ("<<if " ++ c ++ ">>") with (String "<" (("<if " ++ c) ++ ">>")).
    apply strip_header; [exact Hi|reflexivity|reflexivity|discriminate]. }
  rewrite Hs. clear Hs.
  destruct (cond_ok_parts c H) as [a [r [Ec [Ha [Hs [Hf Hk]]]]]].
  assert (Hsic : fst (strip_inline_comment ("<<if " ++ c ++ ">>")) = "<<if " ++ c ++ ">>").
  { apply sic_slash_free_fst. apply (slash_free_app "<<if "); [reflexivity|].
    apply slash_free_app; [exact Hf|reflexivity]. }
  rewrite Hsic. unfold is_if_line, is_py_line, is_for_line.
  rewrite (startswith_app_self "<<if " (c ++ ">>")). rewrite Nat.eqb_refl.
  unfold legacy_condition.
  pose proof (match_legacy_cond "<<if" c H) as Hm.
  change ("<<if" ++ " " ++ c ++ ">>") with ("<<if " ++ c ++ ">>") in Hm.
  rewrite Hm.
  simpl. reflexivity.
Qed.

Lemma elif_header_at : forall i ind c st, cond_ok c = true -> all_space ind = true ->
  cond_step fixed lf rc rl lines start i (ind ++ "@elif " ++ c ++ ":") st =
  start_new_branch lf st c (Some c).
Proof.
  intros i ind c st H Hi. unfold cond_step.
  assert (Hs : strip (ind ++ "@elif " ++ c ++ ":") = "@elif " ++ c ++ ":").
  { change ("@elif " ++ c ++ ":") with (String "@" (("elif " ++ c) ++ ":")).
    apply strip_header; [exact Hi|reflexivity|reflexivity|discriminate]. }
  rewrite Hs. clear Hs.
  destruct (cond_ok_parts c H) as [a [r [Ec [Ha [Hs [Hf Hk]]]]]].
  assert (Hsic : fst (strip_inline_comment ("@elif " ++ c ++ ":")) = "@elif " ++ c ++ ":").
  { apply sic_slash_free_fst. apply (slash_free_app "@elif "); [reflexivity|].
    apply slash_free_app; [exact Hf|reflexivity]. }
  rewrite Hsic. unfold is_if_line, is_py_line, is_for_line.
  rewrite (startswith_app_self "@elif " (c ++ ":")).
  pose proof (match_colon_tail_cond "@elif" c H) as Hm.
  change ("@elif" ++ " " ++ c ++ ":") with ("@elif " ++ c ++ ":") in Hm.
  destruct (match_colon_tail "@elif" ("@elif " ++ c ++ ":")) as [body|]; [|discriminate].
  simpl in Hm. injection Hm as Hm.
  Opaque strip start_new_branch. simpl. Transparent strip start_new_branch.
  rewrite Hm. reflexivity.
Qed.

Lemma elif_header_legacy : forall i ind c st, cond_ok c = true -> all_space ind = true ->
  cond_step fixed lf rc rl lines start i (ind ++ "<<elif " ++ c ++ ">>") st =
  start_new_branch lf st c (Some c).
Proof.
  intros i ind c st H Hi. unfold cond_step.
  assert (Hs : strip (ind ++ "<<elif " ++ c ++ ">>") = "<<elif " ++ c ++ ">>").
  { change ("<<elif " ++ c ++ ">>") with (String "<" (("<elif " ++ c) ++ ">>")).
    apply strip_header; [exact Hi|reflexivity|reflexivity|discriminate]. }
  rewrite Hs. clear Hs.
  destruct (cond_ok_parts c H) as [a [r [Ec [Ha [Hs [Hf Hk]]]]]].
  assert (Hsic : fst (strip_inline_comment ("<<elif " ++ c ++ ">>")) = "<<elif " ++ c ++ ">>").
  { apply sic_slash_free_fst. apply (slash_free_app "<<elif "); [reflexivity|].
    apply slash_free_app; [exact Hf|reflexivity]. }
  rewrite Hsic. unfold is_if_line, is_py_line, is_for_line.
  rewrite (startswith_app_self "<<elif " (c ++ ">>")).
  unfold legacy_condition.
  pose proof (match_legacy_cond "<<elif" c H) as Hm.
  change ("<<elif" ++ " " ++ c ++ ">>") with ("<<elif " ++ c ++ ">>") in Hm.
  rewrite Hm.
  Opaque start_new_branch. simpl. Transparent start_new_branch. reflexivity.
Qed.

Lemma strip_closed_header : forall ind a body,
  all_space ind = true -> is_space a = false -> rstrip (String a body) = String a body ->
  strip (ind ++ String a body) = String a body.
Proof.
  intros ind a body Hi Ha Hr. unfold strip. rewrite (lstrip_app_ws ind _ Hi). cbn [lstrip]. rewrite Ha. exact Hr.
Qed.

Lemma else_header_at : forall i ind st, all_space ind = true ->
  cond_step fixed lf rc rl lines start i (ind ++ "@else:") st =
  start_new_branch lf st "True" (cs_condvar st).
Proof.
  intros i ind st Hi. unfold cond_step.
  rewrite (strip_closed_header ind "@" "else:" Hi) by reflexivity.
  Opaque start_new_branch. simpl. Transparent start_new_branch. reflexivity.
Qed.

Lemma else_header_legacy : forall i ind st, all_space ind = true ->
  cond_step fixed lf rc rl lines start i (ind ++ "<<else>>") st =
  start_new_branch lf st "True" (cs_condvar st).
Proof.
  intros i ind st Hi. unfold cond_step.
  rewrite (strip_closed_header ind "<" "<else>>" Hi) by reflexivity.
  Opaque start_new_branch. simpl. Transparent start_new_branch. reflexivity.
Qed.

Lemma endif_at : forall i ind st, all_space ind = true ->
  cond_step fixed lf rc rl lines start i (ind ++ "@endif") st =
  (let* brs := finalize lf st in POk (CDone brs)).
Proof.
  intros i ind st Hi. unfold cond_step.
  rewrite (strip_closed_header ind "@" "endif" Hi) by reflexivity.
  Opaque finalize. simpl. Transparent finalize. reflexivity.
Qed.

Lemma endif_legacy : forall i ind st, all_space ind = true ->
  cond_step fixed lf rc rl lines start i (ind ++ "<<endif>>") st =
  (let* brs := finalize lf st in POk (CDone brs)).
Proof.
  intros i ind st Hi. unfold cond_step.
  rewrite (strip_closed_header ind "<" "<endif>>" Hi) by reflexivity.
  Opaque finalize. simpl. Transparent finalize. reflexivity.
Qed.

(* (c): the two forms of each header of a conditional block take the conditional extractor to the
   same state, whatever the indentation of either form *)
Lemma if_forms_agree_lemma : forall ind1 ind2 c st,
  cond_ok c = true -> all_space ind1 = true -> all_space ind2 = true ->
  cond_step fixed lf rc rl lines start start (ind1 ++ "@if " ++ c ++ ":") st =
  cond_step fixed lf rc rl lines start start (ind2 ++ "<<if " ++ c ++ ">>") st.
Proof. intros. rewrite if_header_at, if_header_legacy by assumption. reflexivity. Qed.

Lemma elif_forms_agree_lemma : forall i ind1 ind2 c st,
  cond_ok c = true -> all_space ind1 = true -> all_space ind2 = true ->
  cond_step fixed lf rc rl lines start i (ind1 ++ "@elif " ++ c ++ ":") st =
  cond_step fixed lf rc rl lines start i (ind2 ++ "<<elif " ++ c ++ ">>") st.
Proof. intros. rewrite elif_header_at, elif_header_legacy by assumption. reflexivity. Qed.

Lemma else_forms_agree_lemma : forall i ind1 ind2 st,
  all_space ind1 = true -> all_space ind2 = true ->
  cond_step fixed lf rc rl lines start i (ind1 ++ "@else:") st =
  cond_step fixed lf rc rl lines start i (ind2 ++ "<<else>>") st.
Proof. intros. rewrite else_header_at, else_header_legacy by assumption. reflexivity. Qed.

Lemma endif_forms_agree_lemma : forall i ind1 ind2 st,
  all_space ind1 = true -> all_space ind2 = true ->
  cond_step fixed lf rc rl lines start i (ind1 ++ "@endif") st =
  cond_step fixed lf rc rl lines start i (ind2 ++ "<<endif>>") st.
Proof. intros. rewrite endif_at, endif_legacy by assumption. reflexivity. Qed.

End HeaderForms.

(* ---- `for` headers ---- *)

(* loop variables: non-empty, no whitespace inside *)
Definition var_ok (v : string) : bool :=
  ParseLine.nonempty v && all_chars (fun ch => negb (is_space ch)) v && slash_free v.

Lemma match_colon_tail_raw : forall prefix X, X <> "" ->
  match_colon_tail prefix (prefix ++ " " ++ X ++ ":") = Some (" " ++ X).
Proof.
  intros prefix X HX. unfold match_colon_tail.
  assert (Eq : prefix ++ " " ++ X ++ ":" = (prefix ++ " " ++ X) ++ ":")
    by (rewrite !LexProofs.app_assoc; reflexivity).
  assert (E1 : startswith (prefix ++ " " ++ X ++ ":") prefix = true) by apply startswith_app_self.
  rewrite E1, Eq. set (Y := prefix ++ " " ++ X).
  rewrite (rstrip_app_fixed Y ":") by (reflexivity || discriminate).
  rewrite endswith_app_self. cbn [andb].
  replace (take (String.length (Y ++ ":") - 1) (Y ++ ":")) with Y
    by (symmetry; apply (take_all_but_last Y ":")).
  unfold Y. rewrite drop_app_len. cbn [append].
  change (is_space " ") with true. destruct X as [|x X]; [congruence|]. reflexivity.
Qed.

Lemma ws_run_nonspace : forall a t, is_space a = false -> ws_run (String a t) = 0.
Proof. intros a t H. unfold ws_run. cbn [lstrip]. rewrite H. lia. Qed.

Lemma ws_run_one : forall a t, is_space a = false -> ws_run (String " " (String a t)) = 1.
Proof.
  intros a t H. unfold ws_run. cbn [lstrip]. change (is_space " ") with true. cbv iota. rewrite H.
  cbn [String.length]. lia.
Qed.

Lemma lazy_close_cond : forall c, cond_ok c = true -> lazy_close 1 (c ++ ">>") = Some c.
Proof.
  intros c H. destruct (cond_ok_parts c H) as [a [r [-> [Ha [Hs [Hf Hk]]]]]].
  unfold lazy_close. cbn [append]. rewrite Hk. f_equal.
  change (String a (r ++ ">>")) with (String a r ++ ">>").
  replace (S (String.length r)) with (String.length (String a r)) by reflexivity.
  rewrite take_app_len. exact Hs.
Qed.

Lemma for_tail_colon_nonspace : forall a t, is_space a = false -> for_tail_colon (String a t) = None.
Proof. intros a t H. unfold for_tail_colon. rewrite (ws_run_nonspace a t H). reflexivity. Qed.

Lemma for_tail_legacy_nonspace : forall a t, is_space a = false -> for_tail_legacy (String a t) = None.
Proof. intros a t H. unfold for_tail_legacy. rewrite (ws_run_nonspace a t H). reflexivity. Qed.

Lemma for_tail_colon_in : forall c, cond_ok c = true -> for_tail_colon (" in " ++ c) = Some c.
Proof.
  intros c H. destruct (cond_ok_parts c H) as [a [r [-> [Ha [Hs [Hf Hk]]]]]].
  unfold for_tail_colon. cbn [append]. rewrite (ws_run_one "i" _ eq_refl). cbn [Nat.leb].
  cbn [lstrip]. change (is_space " ") with true. change (is_space "i") with false. cbv iota.
  replace (startswith (String "i" (String "n" (String " " (String a r)))) "in") with true by reflexivity.
  cbn [drop]. change (is_space " ") with true. cbn [andb String.length].
  f_equal. unfold strip. cbn [lstrip]. change (is_space " ") with true. cbv iota. exact Hs.
Qed.

Lemma for_tail_legacy_in : forall c, cond_ok c = true -> for_tail_legacy (" in " ++ c ++ ">>") = Some c.
Proof.
  intros c H. pose proof (lazy_close_cond c H) as Hl.
  destruct (cond_ok_parts c H) as [a [r [-> [Ha [Hs [Hf Hk]]]]]].
  unfold for_tail_legacy. cbn [append]. rewrite (ws_run_one "i" _ eq_refl). cbn [Nat.leb].
  cbn [lstrip]. change (is_space " ") with true. change (is_space "i") with false. cbv iota.
  replace (startswith (String "i" (String "n" (String " " (String a (r ++ ">>"))))) "in") with true by reflexivity.
  cbn [drop]. rewrite (ws_run_one a _ Ha). cbn [Nat.leb].
  cbn [lstrip]. change (is_space " ") with true. cbv iota. rewrite Ha.
  exact Hl.
Qed.

(* the lazy scan for the variable stops at the first blank after it *)
Lemma for_scan_var : forall (tail : string -> option string) coll rest,
  (forall a t, is_space a = false -> tail (String a t) = None) ->
  tail (String " " rest) = Some coll ->
  forall v pre, all_chars (fun ch => negb (is_space ch)) v = true ->
  ParseBlocks.nonempty (pre ++ v) = true ->
  for_scan tail pre (v ++ String " " rest) = Some (pre ++ v, coll).
Proof.
  intros tail coll rest Hn Ht. induction v as [|a v IH]; intros pre Hv Hne.
  - rewrite LexProofs.app_nil_r in *. cbn [append for_scan]. rewrite Hne, Ht. reflexivity.
  - cbn [all_chars] in Hv. apply andb_prop in Hv. destruct Hv as [Ha Hv]. apply negb_true_iff in Ha.
    cbn [append for_scan]. rewrite (Hn a _ Ha).
    assert (E : (if ParseBlocks.nonempty pre then @None string else None) = None) by (destruct (ParseBlocks.nonempty pre); reflexivity).
    rewrite E. rewrite (IH (pre ++ String a "")).
    + rewrite LexProofs.app_assoc. reflexivity.
    + exact Hv.
    + rewrite LexProofs.app_assoc. exact Hne.
Qed.

Lemma var_ok_parts : forall v, var_ok v = true ->
  exists a r, v = String a r /\ is_space a = false /\
              all_chars (fun ch => negb (is_space ch)) v = true.
Proof.
  intros v H. unfold var_ok in H. apply andb_prop in H. destruct H as [H _].
  apply andb_prop in H. destruct H as [H1 H2].
  destruct v as [|a r]; [discriminate|]. exists a, r. split; [reflexivity|]. split; [|exact H2].
  cbn [all_chars] in H2. apply andb_prop in H2. destruct H2 as [H2 _]. apply negb_true_iff in H2. exact H2.
Qed.

Lemma rstrip_no_space : forall v, all_chars (fun ch => negb (is_space ch)) v = true -> rstrip v = v.
Proof.
  induction v as [|a v IH]; intros H; [reflexivity|].
  cbn [all_chars] in H. apply andb_prop in H. destruct H as [Ha Hv]. apply negb_true_iff in Ha.
  rewrite rstrip_cons_nonspace by exact Ha. rewrite (IH Hv). reflexivity.
Qed.

Lemma for_match_var : forall (tail : string -> option string) v coll rest,
  (forall a t, is_space a = false -> tail (String a t) = None) ->
  tail (String " " rest) = Some coll -> var_ok v = true ->
  for_match tail (" " ++ v ++ String " " rest) = Some (v, coll).
Proof.
  intros tail v coll rest Hn Ht Hv. destruct (var_ok_parts v Hv) as [a [r [Ev [Ha Hall]]]].
  unfold for_match.
  assert (Ew : ws_run (" " ++ v ++ String " " rest) = 1).
  { rewrite Ev. cbn [append]. apply ws_run_one. exact Ha. }
  rewrite Ew. cbn [for_starts]. cbn [append drop].
  rewrite (for_scan_var tail coll rest Hn Ht v "" Hall) by (rewrite Ev; reflexivity).
  cbn [append]. f_equal. f_equal.
  unfold strip. rewrite Ev. cbn [lstrip]. rewrite Ha. rewrite <- Ev. apply rstrip_no_space. exact Hall.
Qed.

Lemma match_for_colon_forms : forall v coll, var_ok v = true -> cond_ok coll = true ->
  match_for_colon ("@for " ++ v ++ " in " ++ coll ++ ":") = Some (v, coll).
Proof.
  intros v coll Hv Hc. unfold match_for_colon.
  change ("@for " ++ v ++ " in " ++ coll ++ ":") with ("@for" ++ " " ++ v ++ " in " ++ coll ++ ":").
  replace (v ++ " in " ++ coll ++ ":") with ((v ++ " in " ++ coll) ++ ":")
    by (rewrite !LexProofs.app_assoc; reflexivity).
  rewrite match_colon_tail_raw.
  2:{ destruct (var_ok_parts v Hv) as [a [r [-> _]]]. discriminate. }
  apply (for_match_var for_tail_colon v coll ("in " ++ coll)).
  - exact for_tail_colon_nonspace.
  - exact (for_tail_colon_in coll Hc).
  - exact Hv.
Qed.

Lemma match_for_legacy_forms : forall v coll, var_ok v = true -> cond_ok coll = true ->
  match_for_legacy ("<<for " ++ v ++ " in " ++ coll ++ ">>") = Some (v, coll).
Proof.
  intros v coll Hv Hc. unfold match_for_legacy.
  change ("<<for " ++ v ++ " in " ++ coll ++ ">>") with ("<<for" ++ " " ++ v ++ " in " ++ coll ++ ">>").
  rewrite (startswith_app_self "<<for" (" " ++ v ++ " in " ++ coll ++ ">>")).
  change 5 with (String.length "<<for"). rewrite drop_app_len.
  apply (for_match_var for_tail_legacy v coll ("in " ++ coll ++ ">>")).
  - exact for_tail_legacy_nonspace.
  - exact (for_tail_legacy_in coll Hc).
  - exact Hv.
Qed.

Lemma var_ok_slash_free : forall v, var_ok v = true -> slash_free v = true.
Proof. intros v H. unfold var_ok in H. apply andb_prop in H. tauto. Qed.

Lemma cond_ok_slash_free : forall c, cond_ok c = true -> slash_free c = true.
Proof. intros c H. destruct (cond_ok_parts c H) as [a [r [-> [_ [_ [Hf _]]]]]]. exact Hf. Qed.

Lemma loop_collect_header_at : forall start rest ind v coll,
  var_ok v = true -> cond_ok coll = true -> all_space ind = true ->
  loop_collect start ((ind ++ "@for " ++ v ++ " in " ++ coll ++ ":") :: rest) start false 0%Z [] "" "" =
  loop_collect start rest (S start) true 1%Z [] v coll.
Proof.
  intros start rest ind v coll Hv Hc Hi. cbn [loop_collect].
  assert (Hs : strip (ind ++ "@for " ++ v ++ " in " ++ coll ++ ":") = "@for " ++ v ++ " in " ++ coll ++ ":").
  { replace ("@for " ++ v ++ " in " ++ coll ++ ":") with (String "@" (("for " ++ v ++ " in " ++ coll) ++ ":")).
    2:{ cbn [append]. rewrite !LexProofs.app_assoc. reflexivity. }
    apply strip_header; [exact Hi|reflexivity|reflexivity|discriminate]. }
  rewrite Hs. unfold is_for_line.
  rewrite (startswith_app_self "@for " (v ++ " in " ++ coll ++ ":")). rewrite Nat.eqb_refl, orb_true_r.
  cbn [andb].
  rewrite sic_slash_free_fst.
  2:{ apply (slash_free_app "@for "); [reflexivity|].
      apply slash_free_app; [apply var_ok_slash_free; exact Hv|].
      apply (slash_free_app " in "); [reflexivity|].
      apply slash_free_app; [apply cond_ok_slash_free; exact Hc|reflexivity]. }
  rewrite (match_for_colon_forms v coll Hv Hc). reflexivity.
Qed.

Lemma loop_collect_header_legacy : forall start rest ind v coll,
  var_ok v = true -> cond_ok coll = true -> all_space ind = true ->
  loop_collect start ((ind ++ "<<for " ++ v ++ " in " ++ coll ++ ">>") :: rest) start false 0%Z [] "" "" =
  loop_collect start rest (S start) true 1%Z [] v coll.
Proof.
  intros start rest ind v coll Hv Hc Hi. cbn [loop_collect].
  assert (Hs : strip (ind ++ "<<for " ++ v ++ " in " ++ coll ++ ">>") = "<<for " ++ v ++ " in " ++ coll ++ ">>").
  { replace ("<<for " ++ v ++ " in " ++ coll ++ ">>") with (String "<" (("<for " ++ v ++ " in " ++ coll) ++ ">>")).
    2:{ cbn [append]. rewrite !LexProofs.app_assoc. reflexivity. }
    apply strip_header; [exact Hi|reflexivity|reflexivity|discriminate]. }
  rewrite Hs. unfold is_for_line.
  rewrite (startswith_app_self "<<for " (v ++ " in " ++ coll ++ ">>")). rewrite Nat.eqb_refl.
  cbn [andb orb].
  rewrite sic_slash_free_fst.
  2:{ apply (slash_free_app "<<for "); [reflexivity|].
      apply slash_free_app; [apply var_ok_slash_free; exact Hv|].
      apply (slash_free_app " in "); [reflexivity|].
      apply slash_free_app; [apply cond_ok_slash_free; exact Hc|reflexivity]. }
  replace (startswith ("<<for " ++ v ++ " in " ++ coll ++ ">>") "@for ") with false by reflexivity.
  rewrite (match_for_legacy_forms v coll Hv Hc). reflexivity.
Qed.

(* (c), whole block: a loop block compiles to the same token (and consumes the same number of lines)
   whether it is opened with `@for v in coll:` or with `<<for v in coll>>`, whatever precedes it,
   whatever its body is, whatever follows it *)
Lemma for_forms_agree_lemma : forall fixed cap lf pre rest ind1 ind2 v coll,
  var_ok v = true -> cond_ok coll = true -> all_space ind1 = true -> all_space ind2 = true ->
  extract_loop_block_v fixed cap lf
    (pre ++ (ind1 ++ "@for " ++ v ++ " in " ++ coll ++ ":") :: rest) (List.length pre) =
  extract_loop_block_v fixed cap lf
    (pre ++ (ind2 ++ "<<for " ++ v ++ " in " ++ coll ++ ">>") :: rest) (List.length pre).
Proof.
  intros fixed cap lf pre rest ind1 ind2 v coll Hv Hc H1 H2.
  unfold extract_loop_block_v, block_fuel. rewrite !app_length. cbn [List.length].
  cbn [extract_loop_block_f]. destruct (too_deep cap 0); [reflexivity|].
  unfold loop_body.
  rewrite !skipn_app, !Nat.sub_diag, !skipn_all. cbn [skipn app].
  rewrite loop_collect_header_at, loop_collect_header_legacy by assumption. reflexivity.
Qed.

(* ---- statements in the form Props/C17.v quotes them ---- *)

Lemma prepass_decorate_rstrips : forall ls dec,
  within dec (story_mask ls None false 0) = true ->
  strip_comments_outside_python (decorate dec ls) None false 0 =
  rstrip_at dec (strip_comments_outside_python ls None false 0).
Proof. intros ls dec. exact (prepass_decorate_gen ls dec None false 0). Qed.

Lemma prepass_insert : forall k ls ins c,
  prepass_at ls None false 0 k = Some (None, ins, 0) -> k < List.length ls -> is_hash c = true ->
  strip_comments_outside_python (insert_at k c ls) None false 0 =
  insert_at k (if ins then rstrip (bare_of c) else c) (strip_comments_outside_python ls None false 0).
Proof. intros k ls ins c. exact (prepass_insert_gen k ls None false 0 ins c). Qed.

(* nothing but the mask is asked when no decorated line closes a Python block *)
Definition no_closer_decorated (dec : list (option dcomment)) (cm : list bool) : bool :=
  forallb (fun dm => match dm with (Some _, true) => false | _ => true end) (combine dec cm).

Lemma tidy_at_no_closer : forall dec cm ls, no_closer_decorated dec cm = true -> tidy_at dec cm ls = true.
Proof.
  unfold no_closer_decorated.
  induction dec as [|d dr IH]; intros cm ls H; [reflexivity|].
  destruct cm as [|m mr]; [destruct d; reflexivity|]. destruct ls as [|l r]; [destruct d, m; reflexivity|].
  cbn [combine forallb] in H. apply andb_prop in H. destruct H as [H1 H2].
  destruct d as [d|], m; try discriminate H1; cbn [tidy_at]; apply IH; exact H2.
Qed.

Lemma parse_decorate_no_closer : forall pp is_call xs ls dec,
  within dec (story_mask ls None false 0) = true ->
  no_closer_decorated dec (closer_mask ls None false 0) = true ->
  parse pp is_call xs (decorate dec ls) = parse pp is_call xs ls.
Proof.
  intros pp is_call xs ls dec H N. apply parse_decorate. unfold decorable. rewrite H. simpl.
  apply tidy_at_no_closer. exact N.
Qed.

Lemma hash_line_same_story_blockfree_lemma : forall pp is_call xs ls k c s,
  extractors_ok xs ->
  blockfree (strip_comments_outside_python ls None false 0) = true ->
  k < List.length ls -> is_hash c = true -> top_level_at pp xs ls k = true ->
  parse pp is_call xs ls = POk s -> parse pp is_call xs (insert_at k c ls) = POk s.
Proof.
  intros pp is_call xs ls k c s Hx Hb Hk Hc Ht Hs.
  exact (erase_ok_eq _ _ _ s (hash_line_invisible_blockfree_lemma pp is_call xs ls k c Hx Hb Hk Hc Ht) Hs).
Qed.

Lemma for_header_forms_read_back : forall v coll, var_ok v = true -> cond_ok coll = true ->
  match_for_colon ("@for " ++ v ++ " in " ++ coll ++ ":") = Some (v, coll) /\
  match_for_legacy ("<<for " ++ v ++ " in " ++ coll ++ ">>") = Some (v, coll).
Proof. intros v coll Hv Hc. split; [apply match_for_colon_forms|apply match_for_legacy_forms]; assumption. Qed.
