(* C17, whole-input level: invariance of the parser model (Compiler/ParseMain.v, ParseBlocks.v) under
   surface decorations of the input, for ALL line lists.

   Part A  trailing `//` comments: the comment pre-pass strip_comments_outside_python returns the
           same list for the decorated and the undecorated input, hence `parse` does (any extractors,
           any oracles).
   Part B  `#` comment lines inserted where the main loop is at top level.
   Part C  legacy `<<...>>` and `@...:` block headers are classified alike by the conditional
           extractor.  *)
From Coq Require Import String Ascii List Bool Arith Lia.
From Bardic Require Import PyStr Value Compiled Lex ParseBase ParseLine ParseMain.
From Bardic Require Import LexProofs ParseProofs.
Import ListNotations.
Local Open Scope string_scope.
Local Open Scope nat_scope.

(* =========================================================================================== *)
(* string lemmas                                                                                *)
(* =========================================================================================== *)

Lemma rstrip_cons : forall c r,
  rstrip (String c r) =
  match rstrip r with
  | EmptyString => if is_space c then EmptyString else String c EmptyString
  | String a b => String c (String a b)
  end.
Proof. reflexivity. Qed.

Lemma rstrip_idem : forall s, rstrip (rstrip s) = rstrip s.
Proof.
  induction s as [|c r IH]; [reflexivity|].
  rewrite rstrip_cons. destruct (rstrip r) as [|a b] eqn:E.
  - destruct (is_space c) eqn:Ec; [reflexivity|]. rewrite rstrip_cons. simpl. rewrite Ec. reflexivity.
  - rewrite rstrip_cons, IH. reflexivity.
Qed.

Lemma rstrip_all_space : forall w, all_space w = true -> rstrip w = "".
Proof.
  induction w as [|c r IH]; intros H; [reflexivity|].
  simpl in H. apply andb_prop in H. destruct H as [Hc Hr].
  rewrite rstrip_cons, (IH Hr), Hc. reflexivity.
Qed.

Lemma rstrip_app_ws : forall x w, all_space w = true -> rstrip (x ++ w) = rstrip x.
Proof.
  induction x as [|c r IH]; intros w H.
  - simpl. apply rstrip_all_space. exact H.
  - cbn [append]. rewrite !rstrip_cons, (IH w H). reflexivity.
Qed.

Lemma lstrip_rstrip : forall s, lstrip (rstrip s) = rstrip (lstrip s).
Proof.
  induction s as [|c r IH]; [reflexivity|].
  cbn [lstrip]. destruct (is_space c) eqn:Ec.
  - rewrite rstrip_cons. destruct (rstrip r) as [|a b] eqn:E.
    + rewrite Ec, <- IH. reflexivity.
    + cbn [lstrip]. rewrite Ec. exact IH.
  - rewrite rstrip_cons. destruct (rstrip r) as [|a b] eqn:E; rewrite ?Ec; cbn [lstrip]; rewrite Ec; reflexivity.
Qed.

Lemma strip_rstrip : forall s, strip (rstrip s) = strip s.
Proof. intros s. unfold strip. rewrite lstrip_rstrip, rstrip_idem. reflexivity. Qed.

Lemma take_app_le : forall n a b, n <= String.length a -> take n (a ++ b) = take n a.
Proof.
  induction n as [|n IH]; intros a b H; [reflexivity|].
  destruct a as [|x a]; simpl in H; [lia|]. simpl. rewrite IH by lia. reflexivity.
Qed.

Lemma take_app_len : forall a b, take (String.length a) (a ++ b) = a.
Proof. induction a as [|x a IH]; intros b; simpl; [reflexivity|now rewrite IH]. Qed.

Lemma startswith_app : forall p l b, startswith l p = true -> startswith (l ++ b) p = true.
Proof.
  induction p as [|x p IH]; intros l b H; [destruct (l ++ b); reflexivity|].
  destruct l as [|y l]; simpl in H; [discriminate|].
  apply andb_prop in H. destruct H as [H1 H2]. simpl. rewrite H1. simpl. apply IH. exact H2.
Qed.

Lemma startswith_length : forall p l, startswith l p = true -> String.length p <= String.length l.
Proof.
  induction p as [|x p IH]; intros l H; simpl; [lia|].
  destruct l as [|y l]; simpl in H; [discriminate|].
  apply andb_prop in H. destruct H as [_ H2]. apply IH in H2. simpl. lia.
Qed.

Lemma space_not_slash : forall c, is_space c = true -> is_slash c || is_bslash c = false.
Proof.
  intros c H. destruct (is_slash c) eqn:E1.
  - unfold is_slash in E1. apply Ascii.eqb_eq in E1. subst c. vm_compute in H. discriminate.
  - destruct (is_bslash c) eqn:E2; [|reflexivity].
    unfold is_bslash in E2. apply Ascii.eqb_eq in E2. subst c. vm_compute in H. discriminate.
Qed.

Lemma space_not_equals : forall c, is_space c = true -> is_equals c = false.
Proof.
  intros c H. destruct (is_equals c) eqn:E1; [|reflexivity].
  unfold is_equals in E1. apply Ascii.eqb_eq in E1. subst c. vm_compute in H. discriminate.
Qed.

(* =========================================================================================== *)
(* Part A: trailing comments                                                                    *)
(* =========================================================================================== *)

(* A decoration of one line: Some (w, c) appends  w ++ "//" ++ c  (w = the blanks before the comment,
   c = the comment text).  The documented form ` // text` is w = " ", c = " text". *)
Definition dcomment := (string * string)%type.

(* the blanks are at least one whitespace character, and the text does not begin with `=` (which
   would make `//=`, the floor-division assignment that the scanner keeps).  Nothing else is asked
   of the comment text: it may contain `//`, `\//`, `<>`, anything. *)
Definition sep_ok (d : dcomment) : bool :=
  nonempty (fst d) && all_space (fst d) && negb (starts_equals (snd d)).

Definition deco (d : option dcomment) (l : string) : string :=
  match d with Some (w, c) => l ++ w ++ "//" ++ c | None => l end.

Definition rstrip_if (d : option dcomment) (l : string) : string :=
  match d with Some _ => rstrip l | None => l end.

Fixpoint zipdec (f : option dcomment -> string -> string) (dec : list (option dcomment))
         (ls : list string) : list string :=
  match ls with
  | [] => []
  | l :: r => match dec with
              | d :: dr => f d l :: zipdec f dr r
              | [] => ls
              end
  end.

(* the decorated input; and the output lines at the decorated positions right-stripped *)
Definition decorate := zipdec deco.
Definition rstrip_at := zipdec rstrip_if.

(* what the pre-pass makes of a story line: `bare` in _strip_comments_outside_python *)
Definition bare_of (l : string) : string :=
  let comment := snd (strip_inline_comment l) in
  if nonempty comment then rstrip (take (String.length l - String.length comment) l) else l.

(* The lines that the pre-pass rewrites (`out[i] = bare`), decided exactly as the pre-pass decides:
   story lines outside Python blocks and outside the continuation lines of a multi-line ~ statement,
   plus the line that closes a Python block. *)
Fixpoint story_mask (rest : list string) (closer : option string) (in_story : bool) (skip : nat)
  : list bool :=
  match rest with
  | [] => []
  | l :: r =>
      match skip with
      | S k => false :: story_mask r closer in_story k
      | 0 =>
          let bare := bare_of l in
          let stripped := strip bare in
          match closer with
          | Some c =>
              if String.eqb stripped c then true :: story_mask r None in_story 0
              else false :: story_mask r closer in_story 0
          | None =>
              if in_story || startswith l ":: " || startswith stripped "@start " then
                let in_story' := in_story || startswith l ":: " in
                if startswith stripped "@py" then true :: story_mask r (Some "@endpy") in_story' 0
                else if startswith stripped "<<py" then true :: story_mask r (Some ">>") in_story' 0
                else if startswith stripped "~ " then
                  let n := snd (extract_multiline_expression (bare :: r) 0 (drop 2 stripped)) in
                  true :: story_mask r None in_story' (n - 1)
                else true :: story_mask r None in_story' 0
              else false :: story_mask r None in_story 0
          end
      end
  end.

(* every decoration sits on a line of the mask and has an admissible separator; the list of
   decorations is not longer than the input *)
Fixpoint within (dec : list (option dcomment)) (mask : list bool) : bool :=
  match dec, mask with
  | [], _ => true
  | _ :: _, [] => false
  | None :: dr, _ :: mr => within dr mr
  | Some d :: dr, m :: mr => m && sep_ok d && within dr mr
  end.

(* the decorated lines have no trailing whitespace of their own (or carry a comment already) *)
Definition tidy (l : string) : bool := String.eqb (rstrip (bare_of l)) (bare_of l).

Fixpoint tidy_at (dec : list (option dcomment)) (ls : list string) : bool :=
  match dec, ls with
  | Some _ :: dr, l :: r => tidy l && tidy_at dr r
  | None :: dr, _ :: r => tidy_at dr r
  | _, _ => true
  end.

Definition decorable (dec : list (option dcomment)) (ls : list string) : bool :=
  within dec (story_mask ls None false 0) && tidy_at dec ls.

(* ---- one line ---- *)

Lemma sic_ws_comment : forall w c,
  all_space w = true -> starts_equals c = false ->
  strip_inline_comment (w ++ "//" ++ c) = (w, "//" ++ c).
Proof.
  induction w as [|x w IH]; intros c Hw Hc.
  - simpl append. apply (sic_comment_start c Hc).
  - simpl in Hw. apply andb_prop in Hw. destruct Hw as [Hx Hw].
    cbn [append]. rewrite sic_regular_head by (left; apply space_not_slash; exact Hx).
    change (w ++ String "/" (String "/" c)) with (w ++ "//" ++ c).
    rewrite (IH c Hw Hc). reflexivity.
Qed.

Lemma sep_ok_parts : forall w c, sep_ok (w, c) = true ->
  all_space w = true /\ starts_equals c = false /\
  starts_slash (w ++ "//" ++ c) = false /\ starts_equals (w ++ "//" ++ c) = false.
Proof.
  intros w c H. unfold sep_ok in H. simpl in H.
  apply andb_prop in H. destruct H as [H H3]. apply andb_prop in H. destruct H as [H1 H2].
  apply negb_true_iff in H3. repeat split; auto.
  - destruct w as [|x w]; [discriminate|]. simpl in H2. apply andb_prop in H2. destruct H2 as [Hx _].
    simpl. pose proof (space_not_slash x Hx) as E. apply orb_false_iff in E. tauto.
  - destruct w as [|x w]; [discriminate|]. simpl in H2. apply andb_prop in H2. destruct H2 as [Hx _].
    simpl. apply space_not_equals. exact Hx.
Qed.

Lemma len_sub_suffix : forall a b, String.length (a ++ b) - String.length b = String.length a.
Proof. intros. rewrite length_append. lia. Qed.

Lemma len_sub_both : forall l b x cm,
  String.length (l ++ b) - String.length (String x (cm ++ b)) = String.length l - String.length (String x cm).
Proof. intros. simpl. rewrite !length_append. lia. Qed.

(* the pre-pass sees the decorated line as the undecorated one, right-stripped: for EVERY line *)
Lemma bare_deco : forall l w c, sep_ok (w, c) = true ->
  bare_of (l ++ w ++ "//" ++ c) = rstrip (bare_of l).
Proof.
  intros l w c H. destruct (sep_ok_parts w c H) as [Hw [Hc [Hs He]]].
  unfold bare_of. destruct (no_comment_dec l) as [Hn|Hn].
  - rewrite sic_app; [|exact Hn|unfold boundary_ok; rewrite Hs; apply orb_true_r].
    rewrite (sic_ws_comment w c Hw Hc). cbn [snd]. unfold no_comment in Hn. rewrite Hn.
    cbn [nonempty append].
    rewrite <- LexProofs.app_assoc, len_sub_suffix. rewrite take_app_len. apply rstrip_app_ws. exact Hw.
  - rewrite sic_absorb; [|exact Hn|exact He]. cbn [snd].
    destruct (snd (strip_inline_comment l)) as [|a cm] eqn:E; [congruence|].
    cbn [nonempty append].
    rewrite len_sub_both, take_app_le by lia. rewrite rstrip_idem. reflexivity.
Qed.

Lemma length_bare_le : forall l, String.length (bare_of l) <= String.length l.
Proof.
  intros l. unfold bare_of. destruct (nonempty _); [|lia].
  eapply Nat.le_trans; [apply length_rstrip_le|apply length_take_le].
Qed.

(* the header test of the pre-pass is not disturbed: the only lines that the appended text could
   turn into a `:: ` line are shorter than three characters, and those are not `@start ` lines *)
Lemma header_test_deco : forall l b,
  startswith l ":: " = false -> startswith (strip (bare_of l)) "@start " = true ->
  startswith (l ++ b) ":: " = false.
Proof.
  intros l b H1 H2. apply startswith_length in H2.
  pose proof (length_strip_le (bare_of l)) as L1. pose proof (length_bare_le l) as L2.
  simpl in H2. assert (L : 7 <= String.length l) by lia. clear H2 L1 L2.
  destruct l as [|x [|y [|z r]]]; simpl in L; try lia.
  simpl in H1 |- *. destruct (r ++ b); destruct r; exact H1.
Qed.

(* ---- extract_multiline_expression reads only the lines it consumes ---- *)

Fixpoint eme_count (rest : list string) (stack : list ascii) : nat :=
  match rest with
  | [] => 0
  | l :: r =>
      match stack with
      | [] => 0
      | _ => match scan_brackets l stack with
             | [] => 1
             | s' => S (eme_count r s')
             end
      end
  end.

Lemma eme_loop_count : forall rest stack acc n,
  snd (eme_loop rest stack acc n) = n + eme_count rest stack.
Proof.
  induction rest as [|l r IH]; intros stack acc n; simpl.
  - lia.
  - destruct stack as [|t st]; [simpl; lia|].
    destruct (scan_brackets l (t :: st)) as [|t' st'] eqn:E; [simpl; lia|].
    rewrite IH. lia.
Qed.

(* number of continuation lines of a `~` statement whose first line has the expression e *)
Definition eme_skip (r : list string) (e : string) : nat :=
  let stripped := strip e in
  if negb (endswith stripped "[" || endswith stripped "{" || endswith stripped "(") then 0
  else eme_count r (initial_stack stripped []).

Lemma eme_skip_eq : forall b r e, snd (extract_multiline_expression (b :: r) 0 e) - 1 = eme_skip r e.
Proof.
  intros b r e. unfold extract_multiline_expression, eme_skip.
  destruct (negb _); [reflexivity|].
  change (skipn 1 (b :: r)) with r.
  pose proof (eme_loop_count r (initial_stack (strip e) []) [e] 0) as H.
  destruct (eme_loop r (initial_stack (strip e) []) [e] 0) as [acc n]. simpl in H |- *. lia.
Qed.

Fixpoint nones (k : nat) (dec : list (option dcomment)) : bool :=
  match k, dec with
  | 0, _ => true
  | S _, [] => true
  | S k', None :: dr => nones k' dr
  | S _, Some _ :: _ => false
  end.

Lemma zipdec_nil : forall f ls, zipdec f [] ls = ls.
Proof. intros f [|l r]; reflexivity. Qed.

Lemma eme_count_decorate : forall r dr stack,
  nones (eme_count r stack) dr = true -> eme_count (decorate dr r) stack = eme_count r stack.
Proof.
  induction r as [|l r IH]; intros dr stack H; [reflexivity|].
  destruct dr as [|d dr]; [reflexivity|].
  unfold decorate in *. cbn [zipdec]. cbn [eme_count] in *.
  destruct stack as [|t st]; [reflexivity|].
  destruct d as [d|].
  - destruct (scan_brackets l (t :: st)); simpl in H; discriminate.
  - cbn [deco]. destruct (scan_brackets l (t :: st)) as [|t' st'] eqn:E; [reflexivity|].
    simpl in H. rewrite (IH dr (t' :: st') H). reflexivity.
Qed.

Lemma mask_skip_nones : forall k r dr cl ins,
  within dr (story_mask r cl ins k) = true -> nones k dr = true.
Proof.
  induction k as [|k IH]; intros r dr cl ins H; [reflexivity|].
  destruct dr as [|d dr]; [reflexivity|].
  destruct r as [|l r]; [simpl in H; discriminate|].
  cbn [story_mask] in H. destruct d as [d|]; simpl in H; [discriminate|].
  simpl. eapply IH. exact H.
Qed.

(* ---- the pre-pass ---- *)

Notation spcop := strip_comments_outside_python.

Lemma spcop_0 : forall l r closer in_story,
  spcop (l :: r) closer in_story 0 =
  let bare := bare_of l in
  let stripped := strip bare in
  match closer with
  | Some c =>
      if String.eqb stripped c then bare :: spcop r None in_story 0
      else l :: spcop r closer in_story 0
  | None =>
      if in_story || startswith l ":: " || startswith stripped "@start " then
        let in_story' := in_story || startswith l ":: " in
        if startswith stripped "@py" then bare :: spcop r (Some "@endpy") in_story' 0
        else if startswith stripped "<<py" then bare :: spcop r (Some ">>") in_story' 0
        else if startswith stripped "~ " then
          bare :: spcop r None in_story' (eme_skip r (drop 2 stripped))
        else bare :: spcop r None in_story' 0
      else l :: spcop r None in_story 0
  end.
Proof.
  intros l r closer in_story. cbn [strip_comments_outside_python]. fold (bare_of l).
  cbv zeta. rewrite eme_skip_eq. reflexivity.
Qed.

Lemma mask_0 : forall l r closer in_story,
  story_mask (l :: r) closer in_story 0 =
  let bare := bare_of l in
  let stripped := strip bare in
  match closer with
  | Some c =>
      if String.eqb stripped c then true :: story_mask r None in_story 0
      else false :: story_mask r closer in_story 0
  | None =>
      if in_story || startswith l ":: " || startswith stripped "@start " then
        let in_story' := in_story || startswith l ":: " in
        if startswith stripped "@py" then true :: story_mask r (Some "@endpy") in_story' 0
        else if startswith stripped "<<py" then true :: story_mask r (Some ">>") in_story' 0
        else if startswith stripped "~ " then
          true :: story_mask r None in_story' (eme_skip r (drop 2 stripped))
        else true :: story_mask r None in_story' 0
      else false :: story_mask r None in_story 0
  end.
Proof.
  intros l r closer in_story. cbn [story_mask]. cbv zeta. rewrite eme_skip_eq. reflexivity.
Qed.

Lemma within_none : forall dr m mr, within (None :: dr) (m :: mr) = within dr mr.
Proof. reflexivity. Qed.

Lemma within_some : forall d dr m mr,
  within (Some d :: dr) (m :: mr) = true -> m = true /\ sep_ok d = true /\ within dr mr = true.
Proof.
  intros d dr m mr H. simpl in H. apply andb_prop in H. destruct H as [H H3].
  apply andb_prop in H. tauto.
Qed.

(* The pre-pass of the decorated input is the pre-pass of the input with the decorated lines
   right-stripped: for all line lists, all pre-pass states. *)
Lemma prepass_decorate_gen : forall ls dec closer in_story skip,
  within dec (story_mask ls closer in_story skip) = true ->
  spcop (decorate dec ls) closer in_story skip = rstrip_at dec (spcop ls closer in_story skip).
Proof.
  unfold decorate, rstrip_at.
  induction ls as [|l r IH]; intros dec closer in_story skip H; [reflexivity|].
  destruct dec as [|d dr]; [rewrite !zipdec_nil; reflexivity|].
  cbn [zipdec]. destruct skip as [|k].
  2:{ (* a continuation line of a ~ statement: never decorated *)
      cbn [story_mask] in H. destruct d as [d|]; [simpl in H; discriminate|].
      rewrite within_none in H. cbn [deco strip_comments_outside_python zipdec rstrip_if].
      f_equal. apply IH. exact H. }
  rewrite mask_0 in H. rewrite !spcop_0. cbv zeta in *.
  destruct d as [[w c]|].
  - (* decorated line *)
    cbn [deco].
    assert (Hm : exists mr, within (Some (w, c) :: dr) (true :: mr) = true /\
                 (if match closer with Some c0 => String.eqb (strip (bare_of l)) c0
                        | None => in_story || startswith l ":: " || startswith (strip (bare_of l)) "@start " end
                  then True else False)).
    { destruct closer as [c0|].
      - destruct (String.eqb (strip (bare_of l)) c0); [eexists; split; [exact H|exact I]|].
        apply within_some in H. destruct H as [H _]. discriminate.
      - destruct (in_story || startswith l ":: " || startswith (strip (bare_of l)) "@start ").
        + repeat match type of H with context [if ?b then _ else _] => destruct b end;
            eexists; split; try exact H; exact I.
        + apply within_some in H. destruct H as [H _]. discriminate. }
    destruct Hm as [mr0 [Hs Hcond]]. apply within_some in Hs. destruct Hs as [_ [Hsep _]].
    rewrite (bare_deco l w c Hsep), strip_rstrip.
    destruct closer as [c0|].
    + destruct (String.eqb (strip (bare_of l)) c0); [|contradiction].
      apply within_some in H. destruct H as [_ [_ H]].
      cbn [zipdec rstrip_if]. f_equal. apply IH. exact H.
    + destruct (in_story || startswith l ":: " || startswith (strip (bare_of l)) "@start ") eqn:Ec;
        [|contradiction].
      assert (Ei : in_story || startswith (l ++ w ++ "//" ++ c) ":: " = in_story || startswith l ":: ").
      { destruct in_story; [reflexivity|]. simpl in Ec |- *.
        destruct (startswith l ":: ") eqn:E1; [apply startswith_app; exact E1|].
        simpl in Ec. apply header_test_deco; assumption. }
      assert (Ec' : in_story || startswith (l ++ w ++ "//" ++ c) ":: " ||
                    startswith (strip (bare_of l)) "@start " = true).
      { rewrite Ei. exact Ec. }
      rewrite Ec', Ei.
      destruct (startswith (strip (bare_of l)) "@py").
      { apply within_some in H. destruct H as [_ [_ H]].
        cbn [zipdec rstrip_if]. f_equal. apply IH. exact H. }
      destruct (startswith (strip (bare_of l)) "<<py").
      { apply within_some in H. destruct H as [_ [_ H]].
        cbn [zipdec rstrip_if]. f_equal. apply IH. exact H. }
      destruct (startswith (strip (bare_of l)) "~ ").
      { apply within_some in H. destruct H as [_ [_ H]].
        cbn [zipdec rstrip_if]. f_equal.
        assert (En : eme_skip (zipdec deco dr r) (drop 2 (strip (bare_of l))) =
                     eme_skip r (drop 2 (strip (bare_of l)))).
        { unfold eme_skip. destruct (negb _); [reflexivity|].
          apply eme_count_decorate. apply mask_skip_nones in H. unfold eme_skip in H.
          destruct (negb _) in H; [discriminate|]. exact H. }
        rewrite En. apply IH. exact H. }
      apply within_some in H. destruct H as [_ [_ H]].
      cbn [zipdec rstrip_if]. f_equal. apply IH. exact H.
  - (* undecorated line *)
    cbn [deco].
    destruct closer as [c0|].
    + destruct (String.eqb (strip (bare_of l)) c0); rewrite within_none in H;
        cbn [zipdec rstrip_if]; f_equal; apply IH; exact H.
    + destruct (in_story || startswith l ":: " || startswith (strip (bare_of l)) "@start ").
      * destruct (startswith (strip (bare_of l)) "@py");
          [rewrite within_none in H; cbn [zipdec rstrip_if]; f_equal; apply IH; exact H|].
        destruct (startswith (strip (bare_of l)) "<<py");
          [rewrite within_none in H; cbn [zipdec rstrip_if]; f_equal; apply IH; exact H|].
        destruct (startswith (strip (bare_of l)) "~ ").
        { rewrite within_none in H. cbn [zipdec rstrip_if]. f_equal.
          assert (En : eme_skip (zipdec deco dr r) (drop 2 (strip (bare_of l))) =
                       eme_skip r (drop 2 (strip (bare_of l)))).
          { unfold eme_skip. destruct (negb _) eqn:En0; [reflexivity|].
            apply eme_count_decorate. apply mask_skip_nones in H. unfold eme_skip in H.
            rewrite En0 in H. exact H. }
          rewrite En. apply IH. exact H. }
        rewrite within_none in H. cbn [zipdec rstrip_if]. f_equal. apply IH. exact H.
      * rewrite within_none in H. cbn [zipdec rstrip_if]. f_equal. apply IH. exact H.
Qed.
