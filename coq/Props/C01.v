(* C01 — Compiled stories play with the meaning the language reference gives the source.
   Source.v: the documented language as an AST and compile_ref, the executable specification of the compiler on
   source ASTs.  Reference.v: the meaning of the source AST, defined on the SOURCE (pieces, lines, blocks), using
   only the engine's primitive meanings of one statement / one display expression / one hook command.
   PROVED here (for every source tree, every author-code oracle, every state):
     - rendering compile_ref of any list of lines - nested blocks to any depth, loops with choices, inline
       conditionals, glue, blank lines, jumps, directives - yields exactly the reference meaning of those lines
       (text, jump, collected directives, and every effect of the statements inside the blocks);
     - entering the compiled passage runs exactly the passage's top-level commands in source order;
     - for a passage without @join markers whose content the two whitespace normalisations leave unchanged,
       the compiled passage's content renders to the reference meaning of its lines.
     - for EVERY passage without @join markers the compiled content renders to the reference meaning of its
       lines up to deletion of newline characters from the shown text (state, jump, directives equal).
   PARTIAL (named so): WHICH newlines the two documented whitespace normalisations delete (a newline next to a
   block conditional collapses with a neighbouring newline; trailing newlines collapse to one) is specified on
   the token list (Source.cleanup_ws / trim_trailing follow validation.py) and is part of compile_ref; no
   source-level characterisation of that choice is proved; passages with @join sections are covered by C10.
   TIE (harness/c01.py, every run): generated source ASTs are printed as .bard text; the REAL compiler's dict must
   equal compile_ref of the AST (compared inside Coq), in memory and through compile-to-file + JSON load; the REAL
   engine's play along random choice sequences must equal the model's play of compile_ref. *)
From Coq Require Import String Ascii List Bool ZArith Arith.
From Bardic Require Import PyStr Value Compiled Engine EngineBase Source Reference ReferenceProofs.
Import ListNotations.
Local Open Scope string_scope.

Theorem compiled_lines_have_reference_meaning : forall orc ctxkeys (l : list item) s,
  render_content orc ctxkeys (c_items l) s = sem_items orc ctxkeys l s.
Proof. exact compiled_block_meaning. Qed.
Print Assumptions compiled_lines_have_reference_meaning.

Theorem pieces_have_reference_meaning : forall orc ctxkeys ps s,
  seqr (render_tok orc ctxkeys) (c_pieces ps) s = (s, Ok (pieces_text orc s ps, None, [])).
Proof. exact render_pieces. Qed.
Print Assumptions pieces_have_reference_meaning.

Theorem entering_runs_commands_in_source_order : forall orc ctxkeys body s,
  exec_commands orc ctxkeys (top_execute body) s = sem_enter orc ctxkeys body s.
Proof. exact compiled_enter_meaning. Qed.
Print Assumptions entering_runs_commands_in_source_order.

Theorem passage_content_meaning_partial : forall orc ctxkeys body s,
  forallb (fun it => negb (is_join it)) body = true ->
  top_content body = top_content_raw body 0 ->
  render_content orc ctxkeys (top_content body) s = sem_items orc ctxkeys (filter shown_item body) s.
Proof. exact passage_content_meaning. Qed.
Print Assumptions passage_content_meaning_partial.

(* FULL at passage level (no @join markers; those are C10): same state, jump and directives as the reference meaning
   of the lines; the shown text is the reference text with newline characters deleted - only newlines, and which
   ones is what cleanup_ws / trim_trailing (tied to validation.py by the correspondence run) compute *)
Theorem passage_content_meaning_up_to_newlines : forall orc ctxkeys body s,
  forallb (fun it => negb (is_join it)) body = true ->
  same_up_to_newlines (sem_items orc ctxkeys (filter shown_item body) s)
                      (render_content orc ctxkeys (top_content body) s).
Proof. exact passage_content_meaning_full. Qed.
Print Assumptions passage_content_meaning_up_to_newlines.

Theorem normalisations_delete_newline_tokens_only : forall body,
  del_nl_tok (top_content_raw body 0) (top_content body).
Proof. exact top_content_deletes_newlines. Qed.
Print Assumptions normalisations_delete_newline_tokens_only.

(* non-vacuity: a passage with a glued line, an inline conditional, a block with a statement and a jump *)
Definition demo_body : list item :=
  [IText [PText "HP "; PExpr "hp"] true; IText [PText "."] false; IBlank;
   IIf [("hp", [IText [PText "alive"] false; IStmt "n = 1"], []); ("True", [IJump "Dead" ""], [])];
   IText [PCond "hp" [PText "ok"] [PText "no"]] false].
Definition demo_orc : pyorc :=
  mkOrc (fun ctx c => match lookup c ctx with Some v => Ok v | None => Exc NameError end)
        (fun c code => Ok (set_key "n" (VInt 1) c)) (fun _ _ => Ok ""%string) (fun _ _ => Ok ([], [])).
Example demo_meaning :
  let s0 := mkNS (mkCore None [("hp"%string, VInt 3)] [] [] [] None) [] [] in
  match sem_items demo_orc [] demo_body s0 with
  | (s1, Ok (txt, j, _)) => txt = ("HP 3." ++ nl ++ nl ++ "alive" ++ nl ++ "ok" ++ nl)%string /\ j = None /\
                            lookup "n"%string (vars (nc s1)) = Some (VInt 1)
  | _ => False
  end.
Proof. vm_compute. repeat split. Qed.
(* the blank line before the conditional is what the first normalisation removes; without it the
   hypothesis of passage_content_meaning_partial holds *)
Definition demo_body2 : list item := filter (fun it => match it with IBlank => false | _ => true end) demo_body.
Example demo_normalisation :
  top_content demo_body <> top_content_raw demo_body 0 /\ top_content demo_body2 = top_content_raw demo_body2 0.
Proof. split; [vm_compute; discriminate|vm_compute; reflexivity]. Qed.
