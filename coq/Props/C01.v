(* C01 — Compiled stories play with the meaning the language reference gives the source.
   Source.v: the documented language as an AST and compile_ref, the executable specification of the compiler on
   source ASTs.  Reference.v: the meaning of the source AST, defined on the SOURCE (pieces, lines, blocks), using
   only the engine's primitive meanings of one statement / one display expression / one hook command.
   PROVED here (for every source tree, every author-code oracle, every state):
     - rendering compile_ref of any list of lines - nested blocks to any depth, loops with choices, inline
       conditionals, glue, blank lines, jumps, directives - yields exactly the reference meaning of those lines
       (text, jump, collected directives, and every effect of the statements inside the blocks);
     - entering the compiled passage runs exactly the passage's top-level commands in source order;
     - for a passage without @join markers whose content the two whitespace normalisations leave unchanged,
       the compiled passage's content renders to the reference meaning of its lines.
     - for EVERY passage without @join markers the compiled content renders to the reference meaning of its
       lines up to deletion of newline characters from the shown text (state, jump, directives equal).
   STRING LEVEL, proved (second half of this file; Story/SourcePrint.v, Proofs/SourcePrintProofs.v):
     - the Gallina printer print_story (the twin of the .bard printer of harness/c01.py) and the parser MODEL
       (Compiler/Parse*.v, parse_real = main loop + real block extractors): for every source story satisfying the
       executable predicate `printable`,   parse_real (print_story s) = POk (compile_ref s)   - exactly, tags,
       imports and metadata included (printed_story_parses_to_compile_ref); layer by layer: a printed content
       line tokenizes to c_pieces; every printed line kind is classified and handled by the main loop as compile_ref
       says; the main loop over a whole story for any extractors that do their part; the real extractors on
       @py: bodies, `-> @join` choice blocks, @if/@elif/@else and @for at any indentation and nesting;
     - the parser model's _cleanup_whitespace / _trim_trailing_newlines are the same functions as
       Source.cleanup_ws / trim_trailing (whitespace_normalisations_agree);
     - composition: what the parser model makes of the printed text plays with the reference meaning
       (printed_source_plays_with_the_reference_meaning).
     `printable` (Story/SourcePrint.v) asks: no printed line contains `/`, `^`, a newline or trailing white space;
     literal text without braces (and without `|` inside an inline conditional), not adjacent to literal text, not
     empty; {expr} code and inline conditions without braces and `?`; text lines not starting with white space or
     one of # @ < - ~ + * : and not ending in "<>" unless glued; ~ code trimmed, not ending in an open bracket,
     accepted by the oracle; targets valid passage names, argument strings without parentheses; choice text without
     `]`, choice conditions without `}`, the choice line accepted by validate_choice_syntax; @render / @input / @hook
     operands of the documented shapes; @py bodies with consistent indentation and no directive-like line; blocks
     nested at most 100 deep, inline conditionals at most 50; section numbers of choices as the printer places them;
     distinct valid passage names; parameters that are identifiers, no keyword, not a reserved positional marker
     arg_<digits> (fix F07d), no duplicate, required before optional, defaults trimmed and without comma or bracket; ss_start = None; and the two post passes of the
     compiler (validate_passage_arguments with the oracle, _determine_initial_passage) accept compile_ref s.
     Every generated AST of the runs so far satisfies it (counted on every run: ast_not_printable = 0 of 130 quick /
     1300 thorough).
   PARTIAL (named so): WHICH newlines the two documented whitespace normalisations delete (a newline next to a
   block conditional collapses with a neighbouring newline; trailing newlines collapse to one) is specified on
   the token list (Source.cleanup_ws / trim_trailing follow validation.py) and is part of compile_ref; no
   source-level characterisation of that choice is proved; passages with @join sections are covered by C10.
   TIE (harness/c01.py, every run): generated source ASTs are printed as .bard text; the REAL compiler's dict must
   equal compile_ref of the AST (compared inside Coq), in memory and through compile-to-file + JSON load; the REAL
   engine's play along random choice sequences must equal the model's play of compile_ref; print_story of the AST
   must be, line by line, the Python printer's text (the text the real compiler is given, before comment
   decoration); `printable` is evaluated with the call shapes of Python's own `ast`, and where it holds the parser
   model on the printed lines must be compile_ref.  What the tie still carries for the string level: that the REAL
   parser does on these texts what the parser model does (C11's correspondence) - here through real compiler =
   compile_ref; comment decoration (C17); sources outside `printable`. *)
From Coq Require Import String Ascii List Bool ZArith Arith.
From Bardic Require Import PyStr Value Compiled Engine EngineBase Source Reference ReferenceProofs.
From Bardic Require ParseBase ParseLine ParseMain ParseBlocks ParseBlocksInst ParseAllProofs SourcePrintProofs.
From Bardic Require Import SourcePrint.
Import ListNotations.
Local Open Scope string_scope.

Theorem compiled_lines_have_reference_meaning : forall orc ctxkeys (l : list item) s,
  render_content orc ctxkeys (c_items l) s = sem_items orc ctxkeys l s.
Proof. exact compiled_block_meaning. Qed.
Print Assumptions compiled_lines_have_reference_meaning.

Theorem pieces_have_reference_meaning : forall orc ctxkeys ps s,
  seqr (render_tok orc ctxkeys) (c_pieces ps) s = (s, Ok (pieces_text orc s ps, None, [])).
Proof. exact render_pieces. Qed.
Print Assumptions pieces_have_reference_meaning.

Theorem entering_runs_commands_in_source_order : forall orc ctxkeys body s,
  exec_commands orc ctxkeys (top_execute body) s = sem_enter orc ctxkeys body s.
Proof. exact compiled_enter_meaning. Qed.
Print Assumptions entering_runs_commands_in_source_order.

Theorem passage_content_meaning_partial : forall orc ctxkeys body s,
  forallb (fun it => negb (is_join it)) body = true ->
  top_content body = top_content_raw body 0 ->
  render_content orc ctxkeys (top_content body) s = sem_items orc ctxkeys (filter shown_item body) s.
Proof. exact passage_content_meaning. Qed.
Print Assumptions passage_content_meaning_partial.

(* FULL at passage level (no @join markers; those are C10): same state, jump and directives as the reference meaning
   of the lines; the shown text is the reference text with newline characters deleted - only newlines, and which
   ones is what cleanup_ws / trim_trailing (tied to validation.py by the correspondence run) compute *)
Theorem passage_content_meaning_up_to_newlines : forall orc ctxkeys body s,
  forallb (fun it => negb (is_join it)) body = true ->
  same_up_to_newlines (sem_items orc ctxkeys (filter shown_item body) s)
                      (render_content orc ctxkeys (top_content body) s).
Proof. exact passage_content_meaning_full. Qed.
Print Assumptions passage_content_meaning_up_to_newlines.

Theorem normalisations_delete_newline_tokens_only : forall body,
  del_nl_tok (top_content_raw body 0) (top_content body).
Proof. exact top_content_deletes_newlines. Qed.
Print Assumptions normalisations_delete_newline_tokens_only.

(* non-vacuity: a passage with a glued line, an inline conditional, a block with a statement and a jump *)
Definition demo_body : list item :=
  [IText [PText "HP "; PExpr "hp"] true; IText [PText "."] false; IBlank;
   IIf [("hp", [IText [PText "alive"] false; IStmt "n = 1"], []); ("True", [IJump "Dead" ""], [])];
   IText [PCond "hp" [PText "ok"] [PText "no"]] false].
Definition demo_orc : pyorc :=
  mkOrc (fun ctx c => match lookup c ctx with Some v => Ok v | None => Exc NameError end)
        (fun c code => Ok (set_key "n" (VInt 1) c)) (fun _ _ => Ok ""%string) (fun _ _ => Ok ([], [])).
Example demo_meaning :
  let s0 := mkNS (mkCore None [("hp"%string, VInt 3)] [] [] [] None) [] [] in
  match sem_items demo_orc [] demo_body s0 with
  | (s1, Ok (txt, j, _)) => txt = ("HP 3." ++ nl ++ nl ++ "alive" ++ nl ++ "ok" ++ nl)%string /\ j = None /\
                            lookup "n"%string (vars (nc s1)) = Some (VInt 1)
  | _ => False
  end.
Proof. vm_compute. repeat split. Qed.
(* the blank line before the conditional is what the first normalisation removes; without it the
   hypothesis of passage_content_meaning_partial holds *)
Definition demo_body2 : list item := filter (fun it => match it with IBlank => false | _ => true end) demo_body.
Example demo_normalisation :
  top_content demo_body <> top_content_raw demo_body 0 /\ top_content demo_body2 = top_content_raw demo_body2 0.
Proof. split; [vm_compute; discriminate|vm_compute; reflexivity]. Qed.

(* ===================================================================================================== *)
(* String level: the parser model on the printed text                                                    *)
(* ===================================================================================================== *)
Module SP := SourcePrintProofs.

(* (i) a printed content line tokenizes to c_pieces: literal text, {expr}, {expr:spec}, inline conditionals
   nested up to the compiler's own limit *)
Theorem printed_content_line_tokenizes : forall inner ps,
  pieces_ok inner ps = true -> clean (print_pieces ps) = true -> nest ps <= ParseLine.max_inline_depth ->
  ParseLine.parse_content_line (print_pieces ps) = ParseBase.POk (c_pieces ps).
Proof. exact SP.parse_content_line_pieces. Qed.
Print Assumptions printed_content_line_tokenizes.

(* (ii) one iteration of the main loop on each printed line kind, in any state inside a passage *)
Theorem printed_text_line_step : forall pp xs lines i st cp ps glue,
  SP.ready st cp -> text_line_ok ps glue = true ->
  line_ok (print_pieces ps ++ (if glue then "<>" else "")) = true ->
  ParseMain.parse_step pp xs lines i (print_pieces ps ++ (if glue then "<>" else "")) st =
  ParseBase.POk (ParseMain.set_current st
                   (ParseMain.with_content cp (c_pieces ps ++ (if glue then [] else [NL]))%list), S i).
Proof. exact SP.step_text. Qed.
Print Assumptions printed_text_line_step.

Theorem printed_statement_line_step : forall pp xs lines i st cp c,
  SP.ready st cp -> stmt_ok pp c = true -> line_ok ("~ " ++ c) = true ->
  ParseMain.parse_step pp xs lines i ("~ " ++ c) st =
  ParseBase.POk (ParseMain.set_current st (ParseMain.with_execute cp (TPyStmt c)), S i).
Proof. exact SP.step_stmt. Qed.
Print Assumptions printed_statement_line_step.

Theorem printed_jump_line_step : forall pp xs lines i st cp t a,
  SP.ready st cp -> ParseLine.valid_passage_pattern t = true -> paren_free a = true ->
  line_ok ("-> " ++ t ++ print_args a) = true ->
  ParseMain.parse_step pp xs lines i ("-> " ++ t ++ print_args a) st =
  ParseBase.POk (ParseMain.set_current st (ParseMain.with_content cp [TJump t a]), S i).
Proof. exact SP.step_jump. Qed.
Print Assumptions printed_jump_line_step.

Theorem printed_render_line_step : forall pp xs lines i st cp n a,
  SP.ready st cp -> render_ok n a = true -> line_ok ("@render " ++ n ++ "(" ++ a ++ ")") = true ->
  ParseMain.parse_step pp xs lines i ("@render " ++ n ++ "(" ++ a ++ ")") st =
  ParseBase.POk (ParseMain.set_current st (ParseMain.with_content cp [TRender n a None]), S i).
Proof. exact SP.step_render. Qed.
Print Assumptions printed_render_line_step.

Theorem printed_input_line_step : forall pp xs lines i st cp attrs,
  SP.ready st cp -> input_ok attrs = true ->
  line_ok ("@input name=" ++ String ParseLine.dquote (input_name attrs ++ String ParseLine.dquote "")) = true ->
  ParseMain.parse_step pp xs lines i
    ("@input name=" ++ String ParseLine.dquote (input_name attrs ++ String ParseLine.dquote "")) st =
  ParseBase.POk (ParseMain.set_current st (ParseMain.with_input cp attrs), S i).
Proof. exact SP.step_input. Qed.
Print Assumptions printed_input_line_step.

Theorem printed_hook_line_step : forall pp xs lines i st cp (add : bool) e t,
  SP.ready st cp -> word_ok e = true -> word_ok t = true ->
  line_ok ((if add then "@hook " else "@unhook ") ++ e ++ " " ++ t) = true ->
  ParseMain.parse_step pp xs lines i ((if add then "@hook " else "@unhook ") ++ e ++ " " ++ t) st =
  ParseBase.POk (ParseMain.set_current st (ParseMain.with_execute cp (THook add e t)), S i).
Proof. exact SP.step_hook. Qed.
Print Assumptions printed_hook_line_step.

Theorem printed_join_marker_step : forall pp xs lines i st cp, SP.ready st cp ->
  ParseMain.parse_step pp xs lines i "@join" st =
  ParseBase.POk (ParseMain.set_current st
                   (ParseMain.with_join (ParseMain.with_content cp [TJoinMarker (SP.jcount cp)])
                                        (S (SP.jcount cp)) (S (SP.scount cp))), S i).
Proof. exact SP.step_join. Qed.
Print Assumptions printed_join_marker_step.

(* a choice line with or without condition, with or without arguments, sticky or one-time *)
Theorem printed_choice_line_step : forall pp xs lines i st cp tx tg ar cd stk,
  SP.ready st cp -> choice_head_ok tx tg ar cd stk = true -> String.eqb tg "@join" = false ->
  line_ok (choice_line tx tg ar cd stk) = true ->
  ParseMain.parse_step pp xs lines i (choice_line tx tg ar cd stk) st =
  ParseBase.POk (ParseMain.set_current st
                   (ParseMain.with_choice (ParseMain.with_section cp (SP.scount cp))
                      (Choice (c_pieces tx) tg ar cd stk (SP.scount cp) [] [])), S i).
Proof. exact SP.step_choice_plain. Qed.
Print Assumptions printed_choice_line_step.

Theorem printed_header_line_step : forall pp xs lines i st name ps,
  ParseMain.st_in_metadata st = false -> header_ok name ps = true -> line_ok (print_header name ps) = true ->
  ParseMain.parse_step pp xs lines i (print_header name ps) st = ParseBase.POk (SP.header_state st name ps i, S i).
Proof. exact SP.step_header. Qed.
Print Assumptions printed_header_line_step.

(* the two whitespace normalisations: the parser model's are Source.v's *)
Theorem whitespace_normalisations_agree : forall l,
  ParseMain.trim_trailing_newlines (ParseMain.cleanup_whitespace l) = trim_trailing (cleanup_ws l []).
Proof. exact SP.normalisations_agree. Qed.
Print Assumptions whitespace_normalisations_agree.

(* (iii) the whole story through the main loop, for ANY block extractors that take the loop over the printed
   lines of each item / choice with the effect compile_ref says (SP.item_steps / SP.choice_steps) *)
Theorem printed_story_parses_for_any_good_extractors : forall pp is_call xs s,
  printable pp is_call s = true ->
  (forall p, In p (ss_passages s) -> SP.passage_steps pp xs p) ->
  ParseMain.parse pp is_call xs (print_story s) = ParseBase.POk (compile_ref s).
Proof. exact SP.parse_print_gen. Qed.
Print Assumptions printed_story_parses_for_any_good_extractors.

(* (iv) the real extractors on printed blocks *)
Theorem printed_py_block_extracted : forall q c pre post, SP.pfx q -> py_ok c = true ->
  ParseBlocks.extract_python_block_v true (pre ++ map (SP.indp q) (print_item (IPy c)) ++ post)%list (List.length pre) =
  ParseBase.POk (c, List.length (print_item (IPy c))).
Proof. exact SP.py_block_at. Qed.
Print Assumptions printed_py_block_extracted.

Theorem printed_join_choice_block_extracted : forall blk pre line post,
  forallb join_item_ok blk = true -> SP.lines_ok (map indent_always (print_items blk)) -> SP.post_ok post ->
  exists exec,
    ParseBlocks.extract_join_choice_block ParseBlocksInst.real_linefns
      (pre ++ (line :: map indent_always (print_items blk)) ++ post)%list (S (List.length pre)) 0 =
    ParseBase.POk (c_items blk, exec, List.length (print_items blk)).
Proof. exact SP.extract_join_print. Qed.
Print Assumptions printed_join_choice_block_extracted.

(* @if / @elif / @else and @for, at any indentation q, any nesting (fuel n, depth d below the cap of 100):
   SP.block_spec it says that extract_conditional_block / extract_loop_block, started on the first line of the printed
   item inside any surrounding lines, return the token of compile_ref and consume exactly the item's lines *)
Theorem printed_blocks_extracted : forall pp it, SP.item_lines_ok pp it -> SP.block_spec it.
Proof. exact SP.blocks_spec. Qed.
Print Assumptions printed_blocks_extracted.

(* stories without @if / @for (the layer reached first; a corollary of the next theorem as well) *)
Theorem printed_flat_story_parses_to_compile_ref : forall pp is_call s,
  printable pp is_call s = true -> SP.flat_story s = true ->
  ParseAllProofs.parse_real pp is_call (print_story s) = ParseBase.POk (compile_ref s).
Proof. exact SP.parse_print_flat. Qed.
Print Assumptions printed_flat_story_parses_to_compile_ref.

(* FULL: every printable story *)
Theorem printed_story_parses_to_compile_ref : forall pp is_call s,
  printable pp is_call s = true ->
  ParseAllProofs.parse_real pp is_call (print_story s) = ParseBase.POk (compile_ref s).
Proof. exact SP.parse_print_full. Qed.
Print Assumptions printed_story_parses_to_compile_ref.

(* composed with the first half of this file *)
Theorem printed_source_plays_with_the_reference_meaning : forall pp is_call s,
  printable pp is_call s = true ->
  exists st, ParseAllProofs.parse_real pp is_call (print_story s) = ParseBase.POk st /\
    initial st = initial_of s /\
    forall p, In p (ss_passages s) ->
      exists cp, In (sp_name p, cp) (passages st) /\
        choices cp = map (fun sc => c_choice (fst sc) (snd sc)) (sp_choices p) /\
        (forall orc ctxkeys s0, exec_commands orc ctxkeys (execute cp) s0 = sem_enter orc ctxkeys (sp_body p) s0) /\
        (forall orc ctxkeys s0, forallb (fun it => negb (is_join it)) (sp_body p) = true ->
           same_up_to_newlines (sem_items orc ctxkeys (filter shown_item (sp_body p)) s0)
                               (render_content orc ctxkeys (content cp) s0)).
Proof. exact SP.printed_story_reference_meaning. Qed.
Print Assumptions printed_source_plays_with_the_reference_meaning.

(* ---- non-vacuity ---- *)
(* Python's parser on the argument strings of the examples *)
Definition sp_demo_pp : ParseBase.pyparse :=
  ParseBase.mkPyparse (fun _ => true)
    (fun a => if String.eqb a "hp + 1" then Some (1, []) else if String.eqb a "2, bonus=hp" then Some (1, ["bonus"]) else None)
    (fun _ => 0).

(* several passages; an inline conditional, glue, a ~ statement, a parameterised passage with calls (a choice and
   a jump), a conditional one-time choice, @render, @input, @hook, a blank line *)
Definition sp_demo : sstory :=
  mkSS None
    [mkSP "Start" []
       [IStmt "hp = 3"; IText [PText "HP "; PExpr "hp"] true; IText [PText "."] false; IBlank;
        IText [PText "You feel "; PCond "hp > 1" [PText "strong "; PExpr "hp:>3"] [PText "weak"]; PText "."] false;
        IRender "card" "hp, k=1"; IInput [("name", "player_name"); ("label", "Player Name"); ("placeholder", "")];
        IHook true "turn_end" "Tick"]
       [(0, SChoice [PText "Go on "; PExpr "hp"] "Cave" "hp + 1" (Some "hp > 0") false []);
        (0, SChoice [PText "Wait"] "Start" "" None true [])];
     mkSP "Cave" [mkParam "depth" None; mkParam "bonus" (Some "0")]
       [IText [PText "Depth "; PExpr "depth"; PText "."] false; IJump "Deep" "2, bonus=hp"]
       [(0, SChoice [PText "Back"] "Start" "" None true [])];
     mkSP "Deep" [mkParam "depth" None; mkParam "bonus" (Some "depth + 1")]
       [IText [PExpr "depth"; PText " and "; PExpr "bonus"] false]
       [(0, SChoice [PText "Up"] "Start" "" None true [])];
     mkSP "Tick" [] [IStmt "hp = hp - 1"] [(0, SChoice [PText "On"] "Start" "" None true [])]].

Example sp_demo_printed :
  print_story sp_demo =
  [":: Start"; "~ hp = 3"; "HP {hp}<>"; "."; ""; "You feel {hp > 1 ? strong {hp:>3} | weak}.";
   "@render card(hp, k=1)"; "@input name=""player_name"""; "@hook turn_end Tick";
   "* {hp > 0} [Go on {hp}] -> Cave(hp + 1)"; "+ [Wait] -> Start";
   ":: Cave(depth, bonus=0)"; "Depth {depth}."; "-> Deep(2, bonus=hp)"; "+ [Back] -> Start";
   ":: Deep(depth, bonus=depth + 1)"; "{depth} and {bonus}"; "+ [Up] -> Start";
   ":: Tick"; "~ hp = hp - 1"; "+ [On] -> Start"].
Proof. vm_compute. reflexivity. Qed.

Example sp_demo_printable : printable sp_demo_pp (fun _ => true) sp_demo = true.
Proof. vm_compute. reflexivity. Qed.

(* by evaluation ... *)
Example sp_demo_parses :
  ParseAllProofs.parse_real sp_demo_pp (fun _ => true) (print_story sp_demo) = ParseBase.POk (compile_ref sp_demo).
Proof. vm_compute. reflexivity. Qed.
(* ... and by the theorem *)
Example sp_demo_parses_by_theorem :
  ParseAllProofs.parse_real sp_demo_pp (fun _ => true) (print_story sp_demo) = ParseBase.POk (compile_ref sp_demo).
Proof. apply printed_story_parses_to_compile_ref. exact sp_demo_printable. Qed.

(* blocks: @if / @elif / @else with a nested @for, an @py: body, a choice inside a branch, a @join section with a
   `-> @join` choice that has a block *)
Definition sp_demo2 : sstory :=
  mkSS None
    [mkSP "Start" []
       [IPy ("xs = [1, 2]" ++ String SourcePrint.nlc "hp = 3");
        IIf [("hp > 2", [IText [PText "Strong"] true; IText [PText "!"] false; IStmt "hp = hp - 1";
                         IFor "i" "xs" [IText [PText "item "; PExpr "i"] false; IBlank;
                                        IIf [("i", [IJump "End" ""], [])]]
                              [SChoice [PText "Take "; PExpr "i"] "End" "" None true []]],
              [SChoice [PText "Rest"] "Start" "" (Some "hp") false []]);
             ("hp == 2", [IBlank; IText [PText "Fine"] false], []);
             ("True", [IText [PText "Weak"] false], [])];
        IJoin; IText [PText "After"] false]
       [(0, SChoice [PText "Look"] "@join" "" None true [IText [PText "You look."] false; IStmt "seen = 1"]);
        (1, SChoice [PText "Leave"] "End" "" None true [])];
     mkSP "End" [] [IText [PText "Bye"] false] [(0, SChoice [PText "Again"] "Start" "" None true [])]].

Example sp_demo2_printed :
  print_story sp_demo2 =
  [":: Start"; "@py:"; "xs = [1, 2]"; "hp = 3"; "@endpy"; "@if hp > 2:"; "    Strong<>"; "    !"; "    ~ hp = hp - 1";
   "    @for i in xs:"; "        item {i}"; ""; "        @if i:"; "            -> End"; "        @endif";
   "        + [Take {i}] -> End"; "    @endfor"; "    * {hp} [Rest] -> Start"; "@elif hp == 2:"; ""; "    Fine";
   "@else:"; "    Weak"; "@endif"; "+ [Look] -> @join"; "    You look."; "    ~ seen = 1"; "@join"; "After";
   "+ [Leave] -> End"; ":: End"; "Bye"; "+ [Again] -> Start"].
Proof. vm_compute. reflexivity. Qed.

Example sp_demo2_printable : printable sp_demo_pp (fun _ => true) sp_demo2 = true.
Proof. vm_compute. reflexivity. Qed.

Example sp_demo2_parses :
  ParseAllProofs.parse_real sp_demo_pp (fun _ => true) (print_story sp_demo2) = ParseBase.POk (compile_ref sp_demo2).
Proof. vm_compute. reflexivity. Qed.

(* the predicate is not trivially true: literal text with a brace, a text line that looks like a directive, a call
   the oracle rejects *)
Example sp_not_printable :
  printable sp_demo_pp (fun _ => true) (mkSS None [mkSP "Start" [] [IText [PText "a{b"] false] []]) = false /\
  printable sp_demo_pp (fun _ => true) (mkSS None [mkSP "Start" [] [IText [PText "@if x:"] false] []]) = false /\
  printable sp_demo_pp (fun _ => true)
    (mkSS None [mkSP "Start" [] [] [(0, SChoice [PText "Go"] "P" "1 +" None true [])]; mkSP "P" [mkParam "x" None] [] []]) = false.
Proof. vm_compute. repeat split. Qed.

(* =========================================================================================== *)
(* FULL passage-level theorem: the two whitespace normalisations stated on SOURCE lines (Sem/ReferenceWs.v) *)
(* =========================================================================================== *)
From Bardic Require Import ReferenceWs.
From Bardic Require ReferenceNewlines ReferenceNewlinesPrint.

Module ExactNewlines.
(* ===== text proposed for Props/C01.v (after demo_normalisation) ===== *)

(* FULL at passage level, on SOURCE LINES: the compiled content of every passage body without @join markers
   renders to the reference meaning of its lines after the two documented normalisations stated on the lines
   themselves (Sem/ReferenceWs.v: collapse_blanks = blank lines next to an @if block, trim_end = the end of the
   passage) - same text, character for character, same state, jump and directives.  proper_lines: the top-level
   text lines are lines of a .bard file (at least one piece, no piece that is a bare line break). *)
Theorem passage_content_reference_meaning : forall orc ctxkeys body s,
  forallb (fun it => negb (is_join it)) body = true -> proper_lines body = true ->
  render_content orc ctxkeys (top_content body) s = sem_items_ws orc ctxkeys body s.
Proof. exact ReferenceNewlines.passage_content_meaning_ws. Qed.
Print Assumptions passage_content_reference_meaning.

(* ... and for EVERY AST without @join markers, read as lines first (canon_lines: a bare line-break piece breaks
   the line, a line without pieces is a blank line, or nothing when glued) *)
Theorem passage_content_meaning_any_ast : forall orc ctxkeys body s,
  forallb (fun it => negb (is_join it)) body = true ->
  render_content orc ctxkeys (top_content body) s = sem_items_ws_any orc ctxkeys body s.
Proof. exact ReferenceNewlines.passage_content_meaning_ws_any. Qed.
Print Assumptions passage_content_meaning_any_ast.

Theorem reading_as_lines_changes_nothing_on_lines : forall orc ctxkeys body s,
  proper_lines body = true -> sem_items_ws_any orc ctxkeys body s = sem_items_ws orc ctxkeys body s.
Proof. exact ReferenceNewlines.sem_items_ws_any_proper. Qed.
Print Assumptions reading_as_lines_changes_nothing_on_lines.

(* the compiler's two token passes ARE the source-level rules: the compiled content is the compilation of the
   normalised lines *)
Theorem compiled_content_is_normalised_lines : forall body,
  forallb (fun it => negb (is_join it)) body = true -> proper_lines body = true ->
  top_content body = c_items (normalise_items (shown_lines body)).
Proof. exact ReferenceNewlines.normalised_lines_compile. Qed.
Print Assumptions compiled_content_is_normalised_lines.

(* the source-level rules delete blank lines and nothing else *)
Theorem normalisation_deletes_blank_lines_only : forall l, ReferenceNewlines.del_blank l (normalise_items l).
Proof. exact ReferenceNewlines.normalise_del_blank. Qed.
Print Assumptions normalisation_deletes_blank_lines_only.

(* non-vacuity: runs of blank lines around two @if blocks, blank lines inside a branch (never touched), a hoisted
   statement, trailing blank lines *)
Definition ws_demo_body : list item :=
  [IStmt "x = 1"; IText [PText "A"] true; IBlank; IBlank;
   IIf [("x", [IText [PText "B"] false], [])]; IBlank; IBlank; IBlank;
   IIf [("x", [IBlank; IBlank; IText [PText "C"] false; IBlank], [])]; IBlank; IBlank;
   IText [PText "D"] false; IBlank; IBlank].
Definition ws_demo_state : nstate := mkNS (mkCore None [("x"%string, VInt 1)] [] [] [] None) [] [].

Example ws_demo_hypotheses :
  forallb (fun it => negb (is_join it)) ws_demo_body = true /\ proper_lines ws_demo_body = true /\
  top_content ws_demo_body <> top_content_raw ws_demo_body 0.
Proof. split; [reflexivity|split; [reflexivity|vm_compute; discriminate]]. Qed.

(* one of the two blank lines above the first block goes (N2), two of the three between the blocks (N1), none
   above the text line D... the two at the end go because D ends in a newline (N3) *)
Example ws_demo_normalised :
  normalise_items (shown_lines ws_demo_body) =
  [IText [PText "A"] true; IBlank;
   IIf [("x", [IText [PText "B"] false], [])]; IBlank;
   IIf [("x", [IBlank; IBlank; IText [PText "C"] false; IBlank], [])]; IBlank;
   IText [PText "D"] false].
Proof. vm_compute. reflexivity. Qed.

Example ws_demo_text :
  render_content demo_orc [] (top_content ws_demo_body) ws_demo_state =
  (ws_demo_state, Ok ("A" ++ nl ++ "B" ++ nl ++ nl ++ nl ++ nl ++ "C" ++ nl ++ nl ++ nl ++ "D" ++ nl, None, [])) /\
  sem_items_ws demo_orc [] ws_demo_body ws_demo_state =
  render_content demo_orc [] (top_content ws_demo_body) ws_demo_state.
Proof.
  split; [vm_compute; reflexivity|]. symmetry. apply passage_content_reference_meaning; apply ws_demo_hypotheses.
Qed.

(* proper_lines is needed for the rules on lines: a line that is only `<>` shows nothing and ends nothing, so the
   compiler sees the blank line above it as standing directly above the @if (replayed on the real compiler:
   "A", "", "<>", "@if x:", "    B", "@endif" compiles to  A \n <conditional>  and shows "A\nB\n") *)
Definition ws_glue_only_body : list item :=
  [IText [PText "A"] false; IBlank; IText [] true; IIf [("x", [IText [PText "B"] false], [])]].
Example proper_lines_needed_glue_only_line :
  forallb (fun it => negb (is_join it)) ws_glue_only_body = true /\ proper_lines ws_glue_only_body = false /\
  render_content demo_orc [] (top_content ws_glue_only_body) ws_demo_state =
    (ws_demo_state, Ok ("A" ++ nl ++ "B" ++ nl, None, [])) /\
  sem_items_ws demo_orc [] ws_glue_only_body ws_demo_state =
    (ws_demo_state, Ok ("A" ++ nl ++ nl ++ "B" ++ nl, None, [])) /\
  sem_items_ws_any demo_orc [] ws_glue_only_body ws_demo_state =
    (ws_demo_state, Ok ("A" ++ nl ++ "B" ++ nl, None, [])).
Proof. vm_compute. repeat split. Qed.

(* ... and a piece that is a bare line break (no .bard text has this AST) acts as a blank line *)
Definition ws_nl_piece_body : list item :=
  [IText [PText "A"] false; IText [PText nl] true; IIf [("x", [IText [PText "B"] false], [])]].
Example proper_lines_needed_line_break_piece :
  forallb (fun it => negb (is_join it)) ws_nl_piece_body = true /\ proper_lines ws_nl_piece_body = false /\
  render_content demo_orc [] (top_content ws_nl_piece_body) ws_demo_state =
    (ws_demo_state, Ok ("A" ++ nl ++ "B" ++ nl, None, [])) /\
  sem_items_ws demo_orc [] ws_nl_piece_body ws_demo_state =
    (ws_demo_state, Ok ("A" ++ nl ++ nl ++ "B" ++ nl, None, [])) /\
  sem_items_ws_any demo_orc [] ws_nl_piece_body ws_demo_state =
    (ws_demo_state, Ok ("A" ++ nl ++ "B" ++ nl, None, [])).
Proof. vm_compute. repeat split. Qed.

(* the rules are about @if only, and asymmetric: blank lines around an @for block all stay; above an @if at most
   one goes, below an @if all but one go *)
Example ws_for_untouched :
  normalise_items [IText [PText "A"] false; IBlank; IBlank; IFor "i" "xs" [] []; IBlank; IBlank; IText [PText "D"] false]
  = [IText [PText "A"] false; IBlank; IBlank; IFor "i" "xs" [] []; IBlank; IBlank; IText [PText "D"] false].
Proof. vm_compute. reflexivity. Qed.
Example ws_if_asymmetric :
  normalise_items [IBlank; IBlank; IBlank; IIf []; IBlank; IBlank; IBlank; IText [PText "D"] true; IBlank; IBlank]
  = [IBlank; IBlank; IIf []; IBlank; IText [PText "D"] true; IBlank].
Proof. vm_compute. reflexivity. Qed.

(* ===== text proposed for the string-level half of Props/C01.v (after printed_source_plays_with_the_reference_meaning) ===== *)

(* the top-level text lines of a printable story are source lines *)
Theorem printable_lines_are_source_lines : forall pp is_call s p,
  printable pp is_call s = true -> In p (ss_passages s) -> proper_lines (sp_body p) = true.
Proof. exact ReferenceNewlinesPrint.printable_proper_lines. Qed.
Print Assumptions printable_lines_are_source_lines.

(* composed: what the parser model makes of the printed text renders EXACTLY the reference meaning of the
   normalised source lines (equality, where printed_source_plays_with_the_reference_meaning has
   same_up_to_newlines) *)
Theorem printed_source_plays_with_the_exact_reference_meaning : forall pp is_call s,
  printable pp is_call s = true ->
  exists st, ParseAllProofs.parse_real pp is_call (print_story s) = ParseBase.POk st /\
    initial st = initial_of s /\
    forall p, In p (ss_passages s) ->
      exists cp, In (sp_name p, cp) (passages st) /\
        choices cp = map (fun sc => c_choice (fst sc) (snd sc)) (sp_choices p) /\
        (forall orc ctxkeys s0, exec_commands orc ctxkeys (execute cp) s0 = sem_enter orc ctxkeys (sp_body p) s0) /\
        (forall orc ctxkeys s0, forallb (fun it => negb (is_join it)) (sp_body p) = true ->
           render_content orc ctxkeys (content cp) s0 = sem_items_ws orc ctxkeys (sp_body p) s0).
Proof. exact ReferenceNewlinesPrint.printed_story_reference_meaning_ws. Qed.
Print Assumptions printed_source_plays_with_the_exact_reference_meaning.

(* non-vacuity: the passage of ws_demo_body as a story; its printed text has the blank-line runs *)
Definition sp_demo_ws : sstory :=
  mkSS None [mkSP "Start" [] ws_demo_body [(0, SChoice [PText "Again"] "Start" "" None true [])]].
Example sp_demo_ws_printed :
  print_story sp_demo_ws =
  [":: Start"; "~ x = 1"; "A<>"; ""; ""; "@if x:"; "    B"; "@endif"; ""; ""; ""; "@if x:"; ""; ""; "    C"; "";
   "@endif"; ""; ""; "D"; ""; ""; "+ [Again] -> Start"].
Proof. vm_compute. reflexivity. Qed.
Example sp_demo_ws_printable : printable sp_demo_pp (fun _ => true) sp_demo_ws = true.
Proof. vm_compute. reflexivity. Qed.
Example sp_demo_ws_parsed_content :
  match ParseAllProofs.parse_real sp_demo_pp (fun _ => true) (print_story sp_demo_ws) with
  | ParseBase.POk st =>
      match lookup "Start" (passages st) with
      | Some cp => render_content demo_orc [] (content cp) ws_demo_state =
                   sem_items_ws demo_orc [] ws_demo_body ws_demo_state
      | None => False
      end
  | _ => False
  end.
Proof. vm_compute. reflexivity. Qed.
End ExactNewlines.

(* =========================================================================================== *)
(* Compile-to-file = compile-in-memory (Story/StoryJson.v) *)
(* =========================================================================================== *)
From Coq Require Import String Ascii List Bool ZArith.
From Bardic Require Import PyStr Value Compiled Codec JsonText JsonTextProofs Engine EngineCheck StoryJson StoryJsonProofs.
Module FileRoundTrip.

(* ---- C01: compile-to-file = compile-in-memory (Story/StoryJson.v, Proofs/StoryJsonProofs.v) ---- *)
Import ListNotations.
Local Open Scope string_scope.
Local Open Scope list_scope.


(* compile-to-file then load = compile in memory: the text written by json.dump(story, f, indent=2), read back by
   json.load, is read by the engine as the same story *)
Theorem compiled_file_reads_back : forall st, story_kdb st = true ->
  exists j, loads (dumps_indent2 (story_to_json st)) = Some j /\ story_of_json j = Some st.
Proof. exact StoryJsonProofs.compiled_file_reads_back. Qed.
Print Assumptions compiled_file_reads_back.

(* ... hence it plays identically: every operation history gives the same observations and views *)
Theorem play_after_roundtrip : forall orc ctxkeys st v0 ops, story_kdb st = true ->
  exists j st', loads (dumps_indent2 (story_to_json st)) = Some j /\ story_of_json j = Some st' /\
                run_all orc ctxkeys st' v0 ops = run_all orc ctxkeys st v0 ops.
Proof. exact StoryJsonProofs.play_after_roundtrip. Qed.
Print Assumptions play_after_roundtrip.

(* the same about the dict exactly as the compiler builds it (optional members and all): the engine model, given the
   re-read file, plays what it plays on the in-memory dict *)
Theorem play_after_roundtrip_dict : forall orc ctxkeys js v0 ops, jstory_kdb js = true ->
  exists j st', loads (dumps_indent2 (jstory_to_json js)) = Some j /\ story_of_json j = Some st' /\
                run_all orc ctxkeys st' v0 ops = run_all orc ctxkeys (forget js) v0 ops.
Proof. exact StoryJsonProofs.play_after_roundtrip_dict. Qed.
Print Assumptions play_after_roundtrip_dict.

(* and about anything else computed from the story (graph, validator, browser engine model, ...) *)
Theorem anything_after_roundtrip : forall (X : Type) (F : story -> X) st, story_kdb st = true ->
  exists j st', loads (dumps_indent2 (story_to_json st)) = Some j /\ story_of_json j = Some st' /\ F st' = F st.
Proof. exact StoryJsonProofs.anything_after_roundtrip. Qed.
Print Assumptions anything_after_roundtrip.

(* for ANY accepted JSON tree with distinct keys (the real dict: json_kdb is evaluated on it by the tie) the re-read
   file is read as the in-memory dict is *)
Theorem file_reads_as_memory : forall j, keys_distinct j ->
  exists j', loads (dumps_indent2 j) = Some j' /\ jstory_of_json j' = jstory_of_json j /\ story_of_json j' = story_of_json j.
Proof. exact StoryJsonProofs.file_reads_as_memory. Qed.
Print Assumptions file_reads_as_memory.

(* non-vacuity: the file of a small story, re-read, is that story (computed through the TEXT, not through the theorem) *)
Example c01_file_demo :
  let st := mkStory "S" [("S", mkPassage "S" [] [TText "x"; TExpr "a"] [Choice [TText "go"] "S" "" None true 0 [] []] [TPyStmt "a = 1"] [] [])] [] [] in
  story_kdb st = true /\
  option_map story_of_json (loads (dumps_indent2 (story_to_json st))) = Some (Some st).
Proof. vm_compute. split; reflexivity. Qed.
End FileRoundTrip.
