(* C02 — Offered choices are exactly the enabled ones; an index selects what was shown.
   Property theorems only (proofs: Proofs/EngineChoice.v, Proofs/EngineUndo.v).  For every story, every
   author-code oracle and every state.
   `enabled s c dt`: the choice's condition holds in the variables of state s (a condition that cannot be
   evaluated counts as false) and the choice is repeatable (+) or its identity (passage : rendered text : target)
   is not among the used one-time choices.  `pure_choice`: the choice text consists of text, {expr} and inline
   conditionals - the only tokens the compiler puts into choice texts - so rendering it has no effect.
   KNOWN LIMIT (finding F02b, see DESIGN.md): the offer is computed when the passage is rendered; a turn_end hook
   that afterwards changes a variable read by a choice condition leaves that offer stale.  The theorem is
   therefore about the state in which the passage was rendered (s1), which is the current state whenever no
   hook ran after it. *)
From Coq Require Import String Ascii List Bool ZArith Arith.
From Bardic Require Import PyStr Value Compiled Engine EngineBase EngineNav EngineParams EngineSem EngineJump
     EngineUndo EngineChoice.
Import ListNotations.

(* the offered choices are precisely the enabled candidates (the passage's own choices, then those contributed
   by the rendered @if/@for blocks) of the current @join section, in order, with their rendered texts *)
Theorem offered_exactly_enabled : forall orc ctxkeys st pid s s' o,
  render_passage orc ctxkeys st pid s = (s', Ok o) ->
  exists p s1 cds,
    get_passage st pid = Some p /\
    (Forall (fun x => pure_choice (cand_choice x)) (passage_cands p cds) ->
     let sec := match lookup pid (joinidx (nc s1)) with Some n => n | None => 0 end in
     s' = s1 /\
     o_choices o = map (shown orc ctxkeys s1) (filter (keep orc ctxkeys s1 sec) (passage_cands p cds))).
Proof. exact offered_exactly_enabled_lemma. Qed.
Print Assumptions offered_exactly_enabled.

(* choose(i) with a valid index navigates with the i-th OFFERED choice: its target with its arguments ... *)
Theorem choose_selects_shown : forall orc ctxkeys st e i,
  valid_index e i ->
  exists ch, nth_error (o_choices (current_out e)) (Z.to_nat i) = Some ch /\
    choose orc ctxkeys st e i =
    run_nav (choose_nav orc ctxkeys st ch (current_out e))
            (mkES (ec e) (push50 (ec e) (undo_stack e)) [] (escopes e) (elog e)).
Proof. exact choose_valid. Qed.
Print Assumptions choose_selects_shown.

Theorem chosen_target_is_entered : forall orc ctxkeys st ch o,
  ch_sticky (rc_choice ch) = true -> String.eqb (ch_target (rc_choice ch)) "@join" = false ->
  forall s, choose_nav orc ctxkeys st ch o s =
            bind (goto orc ctxkeys st (jump_spec (ch_target (rc_choice ch)) (ch_args (rc_choice ch))))
                 (after_hooks orc ctxkeys st) s.
Proof. intros orc ctxkeys st ch o Hs Hj s. unfold choose_nav. rewrite Hs, Hj. reflexivity. Qed.
Print Assumptions chosen_target_is_entered.

(* an index outside the offered range raises IndexError and changes nothing at all - not the variables, not the
   position, not the offer, not the undo/redo stacks *)
Theorem bad_index_changes_nothing : forall orc ctxkeys st e i,
  ~ valid_index e i -> choose orc ctxkeys st e i = (e, Exc IndexError).
Proof. exact choose_bad_index. Qed.
Print Assumptions bad_index_changes_nothing.

(* taking a one-time choice records its identity, whatever the navigation then does ... *)
Theorem one_time_choice_is_marked : forall orc ctxkeys st ch o s s' r,
  ch_sticky (rc_choice ch) = false ->
  choose_nav orc ctxkeys st ch o s = (s', r) ->
  used (nc s') = add_used (choice_id (o_pid o) (rc_text ch) (ch_target (rc_choice ch))) (used (nc s)) /\
  str_in (choice_id (o_pid o) (rc_text ch) (ch_target (rc_choice ch))) (used (nc s')) = true.
Proof.
  intros orc ctxkeys st ch o s s' r Hs H.
  pose proof (choose_nav_marks_used orc ctxkeys st ch o s s' r Hs H) as E. split; [exact E|].
  rewrite E. apply str_in_add_used.
Qed.
Print Assumptions one_time_choice_is_marked.

(* ... and a one-time choice whose identity is recorded is never enabled, hence never offered again from that
   passage (until undo restores an earlier `used`, or reset_one_time clears it); marks are only ever added *)
Theorem one_time_never_reoffered : forall orc ctxkeys s c dt,
  pure_choice c -> ch_sticky c = false ->
  str_in (choice_id (cur_name s) (text_of orc ctxkeys s c dt) (ch_target c)) (used (nc s)) = true ->
  enabled orc ctxkeys s c dt = false.
Proof. intros orc ctxkeys s c dt. apply used_hides. Qed.
Print Assumptions one_time_never_reoffered.

Theorem used_marks_only_grow : forall x y u, str_in y u = true -> str_in y (add_used x u) = true.
Proof. exact str_in_add_used_mono. Qed.
Print Assumptions used_marks_only_grow.

(* a repeatable choice is enabled exactly when its condition holds *)
Theorem sticky_reoffered : forall orc ctxkeys s c dt,
  ch_sticky c = true -> enabled orc ctxkeys s c dt = cond_holds orc s c.
Proof. intros orc ctxkeys s c dt. apply sticky_enabled_iff_cond. Qed.
Print Assumptions sticky_reoffered.

(* non-vacuity: a story whose opening passage offers one of two choices (the other is disabled) *)
Definition two_story : story :=
  mkStory "A" [("A"%string,
     mkPassage "A" [] [TText "a"]
       [Choice [TText "go"] "A" "" (Some "yes"%string) true 0 [] [];
        Choice [TText "no"] "A" "" (Some "nope"%string) true 0 [] []] [] [] [])] [] [].
Definition yes_orc : pyorc :=
  mkOrc (fun _ c => if String.eqb c "yes" then Ok (VBool true) else Exc NameError)
        (fun c _ => Ok c) (fun _ _ => Ok ""%string) (fun _ _ => Ok ([], [])).
Example offered_example :
  map rc_text (o_choices (current_out (fst (init yes_orc [] two_story [])))) = ["go"%string].
Proof. vm_compute. reflexivity. Qed.
Example bad_index_example :
  let e := fst (init yes_orc [] two_story []) in
  valid_index e 0 /\ ~ valid_index e 1 /\ snd (choose yes_orc [] two_story e 1) = Exc IndexError.
Proof. vm_compute. repeat split; try discriminate; intros [? ?]; discriminate. Qed.
