(* placeholder, replaced by the real theorems *)
Theorem placeholder_C03 : True. Proof. exact I. Qed.
Print Assumptions placeholder_C03.
