(* C03 — Commands run once per entry; reads are effect-free; current() is the last result.
   Property theorems only (proofs: Proofs/EngineJump.v, Proofs/EngineSem.v).  The ghost log of the model
   records, in order, every passage entry (EvEnter), every command executed (EvStmt/EvBlock/EvHook) and the
   start of every rendering (EvRenderStart). *)
From Coq Require Import String Ascii List Bool ZArith Arith.
From Bardic Require Import PyStr Value Compiled Engine EngineBase EngineNav EngineParams EngineSem EngineJump
     PyMini EngineCheck.
Import ListNotations.

(* entering a passage runs each of its commands exactly once, in source order: the log grows by the entry event
   followed by exactly the passage's command list ... *)
Theorem commands_once_in_order : forall orc ctxkeys st pid p s s',
  get_passage st pid = Some p -> execute_passage orc ctxkeys st pid s = (s', Ok tt) ->
  log s' = log s ++ EvEnter pid :: cmd_events (execute p).
Proof. exact execute_passage_log_exact. Qed.
Print Assumptions commands_once_in_order.

(* ... before its text is rendered (chain_concatenates in Props/C08.v gives the order execute -> render -> follow
   the jump), and every passage along a jump chain is entered exactly once: the entries logged by one
   navigation are pairwise distinct and distinct from the passages entered earlier in the chain *)
Theorem chain_enters_each_passage_once : forall orc ctxkeys st f spec vis s s' o,
  NoDup vis -> goto_rec orc ctxkeys st f spec vis s = (s', Ok o) ->
  exists lg, log s' = log s ++ lg /\ NoDup (vis ++ entered lg) /\ entered lg <> [].
Proof. exact goto_rec_entered. Qed.
Print Assumptions chain_enters_each_passage_once.

(* rendering executes nothing but the statements, blocks and hook commands that stand inside the blocks it
   renders: it never enters a passage and never runs a hook passage *)
Theorem rendering_enters_nothing : forall orc ctxkeys st pid s s' r,
  render_passage orc ctxkeys st pid s = (s', r) ->
  exists lg, log s' = log s ++ lg /\ List.Forall low_event lg.
Proof.
  intros orc ctxkeys st pid s s' r H.
  destruct (FrameM_render_passage orc ctxkeys st pid _ _ _ H) as [_ _ _ _ _ _ L]. exact L.
Qed.
Print Assumptions rendering_enters_nothing.

(* current() always returns what the last navigation call returned *)
Theorem current_is_last_result : forall orc ctxkeys st f spec vis s s' o,
  goto_rec orc ctxkeys st f spec vis s = (s', Ok o) -> out (nc s') = Some o.
Proof. exact goto_rec_out. Qed.
Print Assumptions current_is_last_result.

(* Read-only calls.  In the model current(), the choice listings, has_choices/is_end, story info, save_state,
   save metadata, can_undo/can_redo are functions of the state (view_of, current_out); the model operation
   OpRead is the identity.  That the implementation's read methods are effect-free is exactly what the
   correspondence run checks (a battery of read calls anywhere in a history, state compared before/after);
   no theorem about the model can add to that. *)
Theorem reads_effect_free : forall orc ctxkeys st e, step orc ctxkeys st e OpRead = (e, ObsOk).
Proof. reflexivity. Qed.
Print Assumptions reads_effect_free.

(* non-vacuity: a chain of two passages logs both entries, each once *)
Definition chain_story : story :=
  mkStory "A" [("A"%string, mkPassage "A" [] [TText "a"; TJump "B" ""] [] [TPyStmt "x = 1"] [] []);
               ("B"%string, mkPassage "B" [] [TText "b"] [] [TPyStmt "y = 2"] [] [])] [] [].
Definition ok_orc : pyorc := mkOrc (fun _ _ => Ok VNone) (fun c _ => Ok c)
                                   (fun _ _ => Ok ""%string) (fun _ _ => Ok ([], [])).
Example chain_entries :
  entered (elog (fst (init ok_orc [] chain_story []))) = ["A"%string; "B"%string].
Proof. vm_compute. reflexivity. Qed.
