(* C04 — Undo returns exactly to the previous decision point; redo exactly re-applies it.
   Property theorems only (proofs: Proofs/EngineUndo.v).  They hold for every story, every author-code
   oracle (including code that fails at any point) and every engine state, so for every history.
   A snapshot is the whole `core` (position, variables, used one-time choices, hook registrations,
   @join progress and the displayed output); navigation has type core -> core by construction, so it
   cannot touch the stacks. "Later play never alters an earlier restore point" is immediate for immutable
   Gallina values; for the implementation it is the deepcopy discipline, carried by the correspondence run
   with stories that mutate lists/dicts in place. *)
From Coq Require Import String List Bool ZArith Arith.
From Bardic Require Import PyStr Value Compiled Engine EngineBase EngineNav EngineUndo.
Import ListNotations.

(* undo after any accepted choice - whether the navigation succeeded or failed half-way - restores
   exactly the situation before it; undo availability is unchanged and the undone state is redoable *)
Theorem undo_choose : forall orc ctxkeys st e i,
  valid_index e i ->
  let e1 := fst (choose orc ctxkeys st e i) in
  snd (undo e1) = true /\
  ec (fst (undo e1)) = ec e /\
  escopes (fst (undo e1)) = escopes e /\
  undo_stack (fst (undo e1)) = firstn 49 (undo_stack e) /\
  redo_stack (fst (undo e1)) = [ec e1].
Proof. exact undo_choose_lemma. Qed.
Print Assumptions undo_choose.

(* redo after undo restores the undone state exactly, stacks included *)
Theorem redo_undo : forall e,
  wf_undo e -> undo_stack e <> [] ->
  let e1 := fst (undo e) in
  snd (undo e) = true /\ snd (redo e1) = true /\
  ec (fst (redo e1)) = ec e /\ undo_stack (fst (redo e1)) = undo_stack e /\
  redo_stack (fst (redo e1)) = redo_stack e /\ escopes (fst (redo e1)) = escopes e.
Proof. exact redo_undo_lemma. Qed.
Print Assumptions redo_undo.

(* a new choice discards the redo history and pushes exactly one restore point (bounded by 50) *)
Theorem choose_clears_redo : forall orc ctxkeys st e i,
  valid_index e i ->
  undo_stack (fst (choose orc ctxkeys st e i)) = push50 (ec e) (undo_stack e) /\
  redo_stack (fst (choose orc ctxkeys st e i)) = [].
Proof. exact choose_stacks. Qed.
Print Assumptions choose_clears_redo.

(* at most the 50 most recent choices can be undone: the stack never exceeds 50 (an invariant of every
   operation), one choice adds one restore point up to that bound, one undo removes exactly one *)
Theorem undo_depth_bound_choose : forall orc ctxkeys st e i, wf_undo e -> wf_undo (fst (choose orc ctxkeys st e i)).
Proof. exact wf_choose. Qed.
Print Assumptions undo_depth_bound_choose.
Theorem undo_depth_bound_undo : forall e, wf_undo e -> wf_undo (fst (undo e)).
Proof. exact wf_undo_op. Qed.
Print Assumptions undo_depth_bound_undo.
Theorem undo_depth_bound_redo : forall e, wf_undo e -> wf_undo (fst (redo e)).
Proof. exact wf_redo_op. Qed.
Print Assumptions undo_depth_bound_redo.
Theorem undo_depth_bound_goto : forall orc ctxkeys st e spec, wf_undo e -> wf_undo (fst (goto_op orc ctxkeys st e spec)).
Proof. exact wf_goto. Qed.
Print Assumptions undo_depth_bound_goto.
Theorem restore_points_after_choice : forall c l, List.length (push50 c l) = Nat.min (S (List.length l)) 50.
Proof. exact push50_length. Qed.
Print Assumptions restore_points_after_choice.
Theorem undo_pops_one : forall e, undo_stack e <> [] ->
  snd (undo e) = true /\ S (List.length (undo_stack (fst (undo e)))) = List.length (undo_stack e).
Proof. exact undo_length. Qed.
Print Assumptions undo_pops_one.

(* undo/redo with nothing to do return False and change nothing *)
Theorem undo_noop_when_empty : forall e, undo_stack e = [] -> undo e = (e, false).
Proof. exact undo_empty. Qed.
Print Assumptions undo_noop_when_empty.
Theorem redo_noop_when_empty : forall e, redo_stack e = [] -> redo e = (e, false).
Proof. exact redo_empty. Qed.
Print Assumptions redo_noop_when_empty.

(* non-vacuity: a state with an offered choice exists for a concrete story (see Props/C02.v for the
   story); here: the hypotheses of redo_undo are met by any state after one push *)
Example wf_after_push : forall c, wf_undo (mkES c (push50 c []) [] [] []) /\ push50 c [] <> [].
Proof. intros c. split; [unfold wf_undo, MAXUNDO; simpl; repeat constructor|discriminate]. Qed.
