(* C04 — Undo returns exactly to the previous decision point; redo exactly re-applies it.
   Property theorems only (proofs: Proofs/EngineUndo.v).  They hold for every story, every author-code
   oracle (including code that fails at any point) and every engine state, so for every history.
   A snapshot is the whole `core` (position, variables, used one-time choices, hook registrations,
   @join progress and the displayed output); navigation has type core -> core by construction, so it
   cannot touch the stacks. "Later play never alters an earlier restore point" is immediate for immutable
   Gallina values; for the implementation it is the deepcopy discipline, carried by the correspondence run
   with stories that mutate lists/dicts in place. *)
From Coq Require Import String List Bool ZArith Arith.
From Bardic Require Import PyStr Value Compiled Engine EngineBase EngineNav EngineUndo.
Import ListNotations.

(* undo after any accepted choice - whether the navigation succeeded or failed half-way - restores
   exactly the situation before it; undo availability is unchanged and the undone state is redoable *)
Theorem undo_choose : forall orc ctxkeys st e i,
  valid_index e i ->
  let e1 := fst (choose orc ctxkeys st e i) in
  snd (undo e1) = true /\
  ec (fst (undo e1)) = ec e /\
  escopes (fst (undo e1)) = escopes e /\
  undo_stack (fst (undo e1)) = firstn 49 (undo_stack e) /\
  redo_stack (fst (undo e1)) = [ec e1].
Proof. exact undo_choose_lemma. Qed.
Print Assumptions undo_choose.

(* redo after undo restores the undone state exactly, stacks included *)
Theorem redo_undo : forall e,
  wf_undo e -> undo_stack e <> [] ->
  let e1 := fst (undo e) in
  snd (undo e) = true /\ snd (redo e1) = true /\
  ec (fst (redo e1)) = ec e /\ undo_stack (fst (redo e1)) = undo_stack e /\
  redo_stack (fst (redo e1)) = redo_stack e /\ escopes (fst (redo e1)) = escopes e.
Proof. exact redo_undo_lemma. Qed.
Print Assumptions redo_undo.

(* a new choice discards the redo history and pushes exactly one restore point (bounded by 50) *)
Theorem choose_clears_redo : forall orc ctxkeys st e i,
  valid_index e i ->
  undo_stack (fst (choose orc ctxkeys st e i)) = push50 (ec e) (undo_stack e) /\
  redo_stack (fst (choose orc ctxkeys st e i)) = [].
Proof. exact choose_stacks. Qed.
Print Assumptions choose_clears_redo.

(* at most the 50 most recent choices can be undone: the stack never exceeds 50 (an invariant of every
   operation), one choice adds one restore point up to that bound, one undo removes exactly one *)
Theorem undo_depth_bound_choose : forall orc ctxkeys st e i, wf_undo e -> wf_undo (fst (choose orc ctxkeys st e i)).
Proof. exact wf_choose. Qed.
Print Assumptions undo_depth_bound_choose.
Theorem undo_depth_bound_undo : forall e, wf_undo e -> wf_undo (fst (undo e)).
Proof. exact wf_undo_op. Qed.
Print Assumptions undo_depth_bound_undo.
Theorem undo_depth_bound_redo : forall e, wf_undo e -> wf_undo (fst (redo e)).
Proof. exact wf_redo_op. Qed.
Print Assumptions undo_depth_bound_redo.
Theorem undo_depth_bound_goto : forall orc ctxkeys st e spec, wf_undo e -> wf_undo (fst (goto_op orc ctxkeys st e spec)).
Proof. exact wf_goto. Qed.
Print Assumptions undo_depth_bound_goto.
Theorem restore_points_after_choice : forall c l, List.length (push50 c l) = Nat.min (S (List.length l)) 50.
Proof. exact push50_length. Qed.
Print Assumptions restore_points_after_choice.
Theorem undo_pops_one : forall e, undo_stack e <> [] ->
  snd (undo e) = true /\ S (List.length (undo_stack (fst (undo e)))) = List.length (undo_stack e).
Proof. exact undo_length. Qed.
Print Assumptions undo_pops_one.

(* undo/redo with nothing to do return False and change nothing *)
Theorem undo_noop_when_empty : forall e, undo_stack e = [] -> undo e = (e, false).
Proof. exact undo_empty. Qed.
Print Assumptions undo_noop_when_empty.
Theorem redo_noop_when_empty : forall e, redo_stack e = [] -> redo e = (e, false).
Proof. exact redo_empty. Qed.
Print Assumptions redo_noop_when_empty.

(* non-vacuity: a state with an offered choice exists for a concrete story (see Props/C02.v for the
   story); here: the hypotheses of redo_undo are met by any state after one push *)
Example wf_after_push : forall c, wf_undo (mkES c (push50 c []) [] [] []) /\ push50 c [] <> [].
Proof. intros c. split; [unfold wf_undo, MAXUNDO; simpl; repeat constructor|discriminate]. Qed.

(* =========================================================================================== *)
(* Restore points and SHARED objects: the snapshot as copy.deepcopy with one memo (Codec/DeepCopy.v) *)
(* =========================================================================================== *)
From Bardic Require Import Cells CellsProofs DeepCopy DeepCopyCheck DeepCopyProofs.

(* --- C04: the undo/redo snapshot is copy.deepcopy(state) with ONE memo (engine._copy_state) ------------------ *)

(* the snapshot is the live state with every cell renamed, injectively, into new identities n .. n'-1 *)
Theorem snapshot_is_injective_renaming : forall s n,
  consistent s ->
  exists r, (forall j k, In j (ids_state s) -> In k (ids_state s) -> r j = r k -> j = k)
            /\ (forall k, In k (ids_state s) -> n <= r k < fst (fst (deepcopy_state n s)))
            /\ snapshot n s = rename_state r s.
Proof. exact snapshot_is_renaming. Qed.
Print Assumptions snapshot_is_injective_renaming.

(* (1) it uses only new cells *)
Theorem snapshot_uses_only_new_cells : forall s n,
  consistent s ->
  n <= fst (fst (deepcopy_state n s))
  /\ in_range n (fst (fst (deepcopy_state n s))) (ids_state (snapshot n s)).
Proof. exact snapshot_fresh. Qed.
Print Assumptions snapshot_uses_only_new_cells.

(* later play (an in-place mutation of any cell of the running game) never alters an earlier restore point *)
Theorem later_play_never_alters_restore_point : forall s n i f,
  consistent s -> i < n -> mutate_state i f (snapshot n s) = snapshot n s.
Proof. exact later_play_keeps_snapshot_l. Qed.
Print Assumptions later_play_never_alters_restore_point.

(* ... however long the play *)
Theorem restore_point_survives_any_later_play : forall s n ops,
  consistent s ->
  Forall (fun op => ~ (n <= fst op < fst (fst (deepcopy_state n s)))) ops ->
  play ops (snapshot n s) = snapshot n s.
Proof. exact later_play_sequence. Qed.
Print Assumptions restore_point_survives_any_later_play.

(* and mutating a cell of the restore point does not change the running game *)
Theorem editing_restore_point_keeps_game : forall s n j f,
  consistent s -> Forall (fun i => i < n) (ids_state s) -> In j (ids_state (snapshot n s)) ->
  mutate_state j f s = s.
Proof. exact editing_snapshot_keeps_game_l. Qed.
Print Assumptions editing_restore_point_keeps_game.

(* (2) the restore point denotes the same value *)
Theorem snapshot_denotes_same_value : forall s n, consistent s -> shape_state (snapshot n s) = shape_state s.
Proof. exact snapshot_shape. Qed.
Print Assumptions snapshot_denotes_same_value.

(* (3) sharing is preserved exactly *)
Theorem snapshot_keeps_sharing_pattern : forall s n,
  consistent s -> sharing_pattern (snapshot n s) = sharing_pattern s.
Proof. exact snapshot_sharing_pattern. Qed.
Print Assumptions snapshot_keeps_sharing_pattern.

Theorem snapshot_same_cell_iff : forall s n,
  consistent s ->
  length (ids_state (snapshot n s)) = length (ids_state s)
  /\ forall p q, p < length (ids_state s) -> q < length (ids_state s) ->
       (nth_error (ids_state (snapshot n s)) p = nth_error (ids_state (snapshot n s)) q
        <-> nth_error (ids_state s) p = nth_error (ids_state s) q).
Proof. exact snapshot_sharing_iff. Qed.
Print Assumptions snapshot_same_cell_iff.

(* playing the same in-place mutation after a restore behaves as it did originally *)
Theorem replay_after_restore : forall s n,
  consistent s ->
  exists r g,
    snapshot n s = rename_state r s
    /\ (forall k, In k (ids_state s) -> g (r k) = k)
    /\ forall i f, In i (ids_state s) ->
         mutate_state (r i) (conj r g f) (snapshot n s) = rename_state r (mutate_state i f s).
Proof. exact replay_on_snapshot. Qed.
Print Assumptions replay_after_restore.

Theorem replay_after_restore_same_value : forall s n,
  consistent s ->
  exists r, snapshot n s = rename_state r s /\
    forall i f, In i (ids_state s) -> (forall c, f (rename r c) = rename r (f c)) ->
      mutate_state (r i) f (snapshot n s) = rename_state r (mutate_state i f s)
      /\ shape_state (mutate_state (r i) f (snapshot n s)) = shape_state (mutate_state i f s).
Proof. exact replay_natural. Qed.
Print Assumptions replay_after_restore_same_value.

(* a restore point is again a well-formed state *)
Theorem snapshot_is_consistent : forall s n, consistent s -> consistent (snapshot n s).
Proof. exact snapshot_consistent. Qed.
Print Assumptions snapshot_is_consistent.

(* a correspondence case accepted by DeepCopyCheck.dcase_bad: the real copy IS the model's snapshot *)
Theorem accepted_case_is_snapshot : forall s k real,
  dcase_bad (s, k, real) = false ->
  consistent s /\ Forall (fun i => i < k) (ids_state s) /\ real = snapshot k s.
Proof. exact dcase_ok_meaning. Qed.
Print Assumptions accepted_case_is_snapshot.

(* (4) the theorem has content: copying each variable with its own memo (seeded change C04_3) is NOT a renaming *)
Theorem per_variable_copy_splits_shared_objects_refuted :
  exists s n, consistent s /\ Forall (fun i => i < n) (ids_state s)
    /\ (~ exists r, snd (copy_per_variable n s) = rename_state r s)
    /\ sharing_pattern (snd (copy_per_variable n s)) <> sharing_pattern s.
Proof. exact per_variable_copy_refuted. Qed.
Print Assumptions per_variable_copy_splits_shared_objects_refuted.

(* non-vacuity: inventory and backpack are one list, `seen` holds one dict twice *)
Example shared_objects_example :
  consistent shared_state
  /\ snapshot 10 shared_state
     = [("inventory"%string, CList 10 [CAtom 1]); ("backpack"%string, CList 10 [CAtom 1]);
        ("seen"%string, CList 11 [CDict 12 [("n"%string, CAtom 0)]; CDict 12 [("n"%string, CAtom 0)]])]
  /\ sharing_pattern shared_state = [[0; 1]; [0; 1]; [2]; [3; 4]; [3; 4]]
  /\ sharing_pattern (snd (copy_per_variable 10 shared_state)) = [[0]; [1]; [2]; [3; 4]; [3; 4]]
  /\ mutate_state 0 append2 (snapshot 10 shared_state) = snapshot 10 shared_state
  /\ shape_state (mutate_state 10 append2 (snapshot 10 shared_state)) = shape_state (mutate_state 0 append2 shared_state)
  /\ (forall j, shape_state (mutate_state j append2 (snd (copy_per_variable 10 shared_state)))
               <> shape_state (mutate_state 0 append2 shared_state)).
Proof.
  destruct per_variable_copy_splits_sharing as [A [_ [_ [P1 [P2 [_ [_ D]]]]]]].
  destruct one_memo_copy_keeps_sharing as [B1 [_ [B3 [B4 _]]]].
  repeat split; assumption.
Qed.

