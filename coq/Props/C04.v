(* placeholder, replaced by the real theorems *)
Theorem placeholder_C04 : True. Proof. exact I. Qed.
Print Assumptions placeholder_C04.
