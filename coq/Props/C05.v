(* C05 — A saved game, loaded into a fresh engine, continues exactly like the original.
   Property theorems only (proofs: Proofs/SaveLoadProofs.v; the value codec is C06).  The save document is a JSON
   tree (Codec.json); json_rt is the json.dumps/json.loads round trip.  The displayed output is encoded by an
   abstract pair out_enc/out_dec: the theorems need only that decoding the round trip of an encoded output gives
   it back and passes load_state's shape test - in the implementation both directions are plain data copies of
   the output's own dicts, and the correspondence run compares the output shown after a real load with the one
   shown before the save. *)
From Coq Require Import String Ascii List Bool ZArith Arith.
From Bardic Require Import PyStr Value Compiled Engine Codec SaveLoad SaveLoadProofs.
Import ListNotations.

(* save_state() has no effect on the running game: it is a function of the state (save_json e is a value
   computed from e; there is no resulting state to speak of).  Stated for completeness: *)
Theorem save_no_effect : forall cx fuel out_enc (e : estate) d1 d2,
  save_json cx fuel out_enc e = Some d1 -> save_json cx fuel out_enc e = Some d2 -> d1 = d2.
Proof. intros. congruence. Qed.
Print Assumptions save_no_effect.

(* loading the JSON round trip of a save into ANY engine e0 for the same story reproduces position, used
   one-time choices, hook registrations, @join progress and the displayed text/choices exactly, the variables as
   the value codec restores them (C06 state_roundtrip: equal values, tuples as lists, imports kept), and clears
   the undo/redo history *)
Theorem load_faithful : forall orc ctxkeys st cx fuel out_enc out_dec e e0 doc sd p o vars',
  cur (ec e) = Some p -> has_key p (passages st) = true -> out (ec e) = Some o ->
  save_doc fuel fixed cx (vars (ec e)) = Some sd ->
  save_json cx fuel out_enc e = Some doc ->
  output_shape st (json_rt (out_enc o)) = true -> out_dec (json_rt (out_enc o)) = Some o ->
  load_doc fixed cx (vars (ec e0)) (map_items json_rt sd) = Some vars' ->
  load orc ctxkeys st cx out_dec e0 (json_rt doc) =
  (mkES (mkCore (Some p) vars' (used (ec e)) (hooks (ec e)) (joinidx (ec e)) (Some o)) [] []
        (escopes e0) (elog e0), Ok tt).
Proof. exact load_faithful_lemma. Qed.
Print Assumptions load_faithful.

(* hence every continuation behaves exactly as in the original session with its history cleared: the loaded
   engine IS that state (same core, empty stacks), and the engine is a function of its state.  In particular when
   the variables come back unchanged (no tuples): *)
Theorem continuation_equal : forall orc ctxkeys st cx fuel out_enc out_dec e e0 doc sd p o,
  cur (ec e) = Some p -> has_key p (passages st) = true -> out (ec e) = Some o ->
  save_doc fuel fixed cx (vars (ec e)) = Some sd ->
  save_json cx fuel out_enc e = Some doc ->
  output_shape st (json_rt (out_enc o)) = true -> out_dec (json_rt (out_enc o)) = Some o ->
  load_doc fixed cx (vars (ec e0)) (map_items json_rt sd) = Some (vars (ec e)) ->
  escopes e0 = escopes e -> elog e0 = elog e ->
  fst (load orc ctxkeys st cx out_dec e0 (json_rt doc)) =
  mkES (ec e) [] [] (escopes e) (elog e).
Proof.
  intros orc ctxkeys st cx fuel out_enc out_dec e e0 doc sd p o Hc Hk Ho Hsd Hs Hsh Hd Hl Hsc Hlg.
  rewrite (load_faithful_lemma orc ctxkeys st cx fuel out_enc out_dec e e0 doc sd p o (vars (ec e))
             Hc Hk Ho Hsd Hs Hsh Hd Hl). simpl. rewrite Hsc, Hlg.
  destruct e as [[c v u h j ot] us rs sc lg]. simpl in *. subst. reflexivity.
Qed.
Print Assumptions continuation_equal.

(* every malformed document - ANY JSON tree the shape test rejects: not an object, no version, a position that is
   not a string or not a passage of the story, state not an object, used_choices / hooks / join progress of the
   wrong types, a malformed displayed output - is refused with ValueError and the running game is untouched *)
Theorem load_rejects_malformed : forall orc ctxkeys st cx out_dec e0 j,
  valid_doc st j = false -> load orc ctxkeys st cx out_dec e0 j = (e0, Exc ValueError).
Proof. exact load_rejects_malformed_lemma. Qed.
Print Assumptions load_rejects_malformed.

Theorem unknown_passage_rejected : forall st o p,
  lookup "version"%string o <> None -> lookup "current_passage_id"%string o = Some (JStr p) ->
  has_key p (passages st) = false -> valid_doc st (JObj o) = false.
Proof. exact decode_unknown_passage. Qed.
Print Assumptions unknown_passage_rejected.

(* load either succeeds or refuses with ValueError leaving the running game exactly as it was - there is no third
   outcome, also for documents in the older format (no displayed output), which re-enter the saved passage and put
   the game back if that fails *)
Theorem load_outcomes : forall orc ctxkeys st cx out_dec e0 j,
  (exists e', load orc ctxkeys st cx out_dec e0 j = (e', Ok tt)) \/
  load orc ctxkeys st cx out_dec e0 j = (e0, Exc ValueError).
Proof. exact load_total. Qed.
Print Assumptions load_outcomes.

(* non-vacuity: the shape test accepts a well-formed document and rejects mutated ones *)
Definition demo_story : story := mkStory "A" [("A"%string, mkPassage "A" [] [] [] [] [] [])] [] [].
Definition demo_doc : json :=
  JObj [("version"%string, JStr "0.1.0"); ("current_passage_id"%string, JStr "A");
        ("state"%string, JObj [("x"%string, JInt 1)]); ("used_choices"%string, JList []);
        ("hooks"%string, JObj [("turn_end"%string, JList [JStr "A"])]);
        ("join_section_index"%string, JObj [("A"%string, JInt 0)]);
        ("current_output"%string,
         JObj [("content"%string, JStr "hi"); ("choices"%string, JList []); ("passage_id"%string, JStr "A");
               ("render_directives"%string, JList []); ("input_directives"%string, JList []);
               ("jump_target"%string, JNull)])].
Example demo_valid : valid_doc demo_story demo_doc = true.
Proof. vm_compute. reflexivity. Qed.
Example demo_invalid :
  valid_doc demo_story (JList []) = false /\
  valid_doc demo_story (JObj [("version"%string, JStr "1"); ("current_passage_id"%string, JStr "Nowhere")]) = false /\
  valid_doc demo_story (JObj [("version"%string, JStr "1"); ("current_passage_id"%string, JStr "A");
                              ("hooks"%string, JList [])]) = false /\
  valid_doc demo_story (JObj [("version"%string, JStr "1"); ("current_passage_id"%string, JStr "A");
                              ("join_section_index"%string, JObj [("A"%string, JInt (-1))])]) = false.
Proof. vm_compute. repeat split. Qed.

(* =========================================================================================== *)
(* 'after a JSON round trip': the save document as TEXT (Codec/JsonText.v, Proofs/JsonTextSave.v) *)
(* =========================================================================================== *)
From Bardic Require Import Codec JsonText JsonTextProofs JsonTextSave.

(* C05: the document of save_state(), written as text (either layout) and read back *)
Theorem save_text_roundtrip_c05 : forall cx fuel out_enc e doc,
  ctx_kd cx -> env_kd (vars (ec e)) ->
  NoDup (map fst (hooks (ec e))) -> NoDup (map fst (joinidx (ec e))) ->
  (forall o, out (ec e) = Some o -> keys_distinct (out_enc o)) ->
  save_json cx fuel out_enc e = Some doc ->
  loads (dumps doc) = Some (json_rt doc) /\ loads (dumps_indent2 doc) = Some (json_rt doc).
Proof. exact save_text_roundtrip. Qed.
Print Assumptions save_text_roundtrip_c05.

