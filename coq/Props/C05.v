(* C05 — A saved game, loaded into a fresh engine, continues exactly like the original.
   Property theorems only (proofs: Proofs/SaveLoadProofs.v; the value codec is C06).  The save document is a JSON
   tree (Codec.json); json_rt is the json.dumps/json.loads round trip.  The displayed output is encoded by an
   abstract pair out_enc/out_dec: the theorems need only that decoding the round trip of an encoded output gives
   it back and passes load_state's shape test - in the implementation both directions are plain data copies of
   the output's own dicts, and the correspondence run compares the output shown after a real load with the one
   shown before the save. *)
From Coq Require Import String Ascii List Bool ZArith Arith.
From Bardic Require Import PyStr Value Compiled Engine Codec SaveLoad SaveLoadProofs.
Import ListNotations.

(* save_state() has no effect on the running game: it is a function of the state (save_json e is a value
   computed from e; there is no resulting state to speak of).  Stated for completeness: *)
Theorem save_no_effect : forall st cx fuel out_enc now (e : estate) d1 d2,
  save_json st cx fuel out_enc now e = Some d1 -> save_json st cx fuel out_enc now e = Some d2 -> d1 = d2.
Proof. intros. congruence. Qed.
Print Assumptions save_no_effect.

(* loading the JSON round trip of a save into ANY engine e0 for the same story reproduces position, used
   one-time choices, hook registrations, @join progress and the displayed text/choices exactly, the variables as
   the value codec restores them (C06 state_roundtrip: equal values, tuples as lists, imports kept), and clears
   the undo/redo history *)
Theorem load_faithful : forall orc ctxkeys st cx fuel out_enc out_dec now e e0 doc sd p o vars',
  cur (ec e) = Some p -> has_key p (passages st) = true -> out (ec e) = Some o ->
  save_doc fuel fixed cx (vars (ec e)) = Some sd ->
  save_json st cx fuel out_enc now e = Some doc ->
  output_shape st (json_rt (out_enc o)) = true -> out_dec (json_rt (out_enc o)) = Some o ->
  load_doc fixed cx (vars (ec e0)) (map_items json_rt sd) = Some vars' ->
  load orc ctxkeys st cx out_dec e0 (json_rt doc) =
  (mkES (mkCore (Some p) vars' (used (ec e)) (hooks (ec e)) (joinidx (ec e)) (Some o)) [] []
        (escopes e0) (elog e0), Ok tt).
Proof. exact load_faithful_lemma. Qed.
Print Assumptions load_faithful.

(* hence every continuation behaves exactly as in the original session with its history cleared: the loaded
   engine IS that state (same core, empty stacks), and the engine is a function of its state.  In particular when
   the variables come back unchanged (no tuples): *)
Theorem continuation_equal : forall orc ctxkeys st cx fuel out_enc out_dec now e e0 doc sd p o,
  cur (ec e) = Some p -> has_key p (passages st) = true -> out (ec e) = Some o ->
  save_doc fuel fixed cx (vars (ec e)) = Some sd ->
  save_json st cx fuel out_enc now e = Some doc ->
  output_shape st (json_rt (out_enc o)) = true -> out_dec (json_rt (out_enc o)) = Some o ->
  load_doc fixed cx (vars (ec e0)) (map_items json_rt sd) = Some (vars (ec e)) ->
  escopes e0 = escopes e -> elog e0 = elog e ->
  fst (load orc ctxkeys st cx out_dec e0 (json_rt doc)) =
  mkES (ec e) [] [] (escopes e) (elog e).
Proof.
  intros orc ctxkeys st cx fuel out_enc out_dec now e e0 doc sd p o Hc Hk Ho Hsd Hs Hsh Hd Hl Hsc Hlg.
  rewrite (load_faithful_lemma orc ctxkeys st cx fuel out_enc out_dec now e e0 doc sd p o (vars (ec e))
             Hc Hk Ho Hsd Hs Hsh Hd Hl). simpl. rewrite Hsc, Hlg.
  destruct e as [[c v u h j ot] us rs sc lg]. simpl in *. subst. reflexivity.
Qed.
Print Assumptions continuation_equal.

(* every malformed document - ANY JSON tree the shape test rejects: not an object, no version, a position that is
   not a string or not a passage of the story, state not an object, used_choices / hooks / join progress of the
   wrong types, a malformed displayed output - is refused with ValueError and the running game is untouched *)
Theorem load_rejects_malformed : forall orc ctxkeys st cx out_dec e0 j,
  valid_doc st j = false -> load orc ctxkeys st cx out_dec e0 j = (e0, Exc ValueError).
Proof. exact load_rejects_malformed_lemma. Qed.
Print Assumptions load_rejects_malformed.

Theorem unknown_passage_rejected : forall st o p,
  lookup "version"%string o <> None -> lookup "current_passage_id"%string o = Some (JStr p) ->
  has_key p (passages st) = false -> valid_doc st (JObj o) = false.
Proof. exact decode_unknown_passage. Qed.
Print Assumptions unknown_passage_rejected.

(* load either succeeds or refuses with ValueError leaving the running game exactly as it was - there is no third
   outcome, also for documents in the older format (no displayed output), which re-enter the saved passage and put
   the game back if that fails *)
Theorem load_outcomes : forall orc ctxkeys st cx out_dec e0 j,
  (exists e', load orc ctxkeys st cx out_dec e0 j = (e', Ok tt)) \/
  load orc ctxkeys st cx out_dec e0 j = (e0, Exc ValueError).
Proof. exact load_total. Qed.
Print Assumptions load_outcomes.

(* non-vacuity: the shape test accepts a well-formed document and rejects mutated ones *)
Definition demo_story : story := mkStory "A" [("A"%string, mkPassage "A" [] [] [] [] [] [])] [] [].
Definition demo_doc : json :=
  JObj [("version"%string, JStr "0.1.0"); ("current_passage_id"%string, JStr "A");
        ("state"%string, JObj [("x"%string, JInt 1)]); ("used_choices"%string, JList []);
        ("hooks"%string, JObj [("turn_end"%string, JList [JStr "A"])]);
        ("join_section_index"%string, JObj [("A"%string, JInt 0)]);
        ("current_output"%string,
         JObj [("content"%string, JStr "hi"); ("choices"%string, JList []); ("passage_id"%string, JStr "A");
               ("render_directives"%string, JList []); ("input_directives"%string, JList []);
               ("jump_target"%string, JNull)])].
Example demo_valid : valid_doc demo_story demo_doc = true.
Proof. vm_compute. reflexivity. Qed.
Example demo_invalid :
  valid_doc demo_story (JList []) = false /\
  valid_doc demo_story (JObj [("version"%string, JStr "1"); ("current_passage_id"%string, JStr "Nowhere")]) = false /\
  valid_doc demo_story (JObj [("version"%string, JStr "1"); ("current_passage_id"%string, JStr "A");
                              ("hooks"%string, JList [])]) = false /\
  valid_doc demo_story (JObj [("version"%string, JStr "1"); ("current_passage_id"%string, JStr "A");
                              ("join_section_index"%string, JObj [("A"%string, JInt (-1))])]) = false.
Proof. vm_compute. repeat split. Qed.

(* =========================================================================================== *)
(* 'after a JSON round trip': the save document as TEXT (Codec/JsonText.v, Proofs/JsonTextSave.v) *)
(* =========================================================================================== *)
From Bardic Require Import Codec JsonText JsonTextProofs JsonTextSave.

(* C05: the document of save_state(), written as text (either layout) and read back *)
Theorem save_text_roundtrip_c05 : forall st cx fuel out_enc now e doc,
  ctx_kd cx -> env_kd (vars (ec e)) ->
  NoDup (map fst (hooks (ec e))) -> NoDup (map fst (joinidx (ec e))) ->
  (forall o, out (ec e) = Some o -> keys_distinct (out_enc o)) ->
  save_json st cx fuel out_enc now e = Some doc ->
  loads (dumps doc) = Some (json_rt doc) /\ loads (dumps_indent2 doc) = Some (json_rt doc).
Proof. exact save_text_roundtrip. Qed.
Print Assumptions save_text_roundtrip_c05.

(* =========================================================================================== *)
(* The side conditions of save_text_roundtrip_c05 are INVARIANTS of every reachable state (Proofs/SaveTextReach.v) *)
(* =========================================================================================== *)
From Coq Require Import String Ascii List Bool ZArith Arith.
From Bardic Require Import PyStr Value Compiled Engine EngineCheck EngineHooks StoryWfChoose Codec SaveLoad JsonText
     SaveOutEnc SaveTextReach ArgKeys.
Module Reach.
(* C05 (addition) - the save document as TEXT, for every reachable state: the side conditions of
   save_text_roundtrip_c05 (variables, hook table, @join table, displayed output are Python dicts) are invariants of
   play.  Proofs: Proofs/SaveTextReach.v; the concrete encoder of the displayed output: Engine/SaveOutEnc.v. *)
Import ListNotations.

(* every state a history reaches (OpSave/OpLoad/OpReload included), from initial variables that are a Python dict,
   with an author-code oracle that returns Python values: the engine's dictionaries have distinct keys at every depth *)
Theorem reachable_state_is_python_data_c05 : forall orc ctxkeys st, orc_kd orc -> forall e slot,
  played_kd orc ctxkeys st e slot ->
  env_kd (vars (ec e)) /\ NoDup (map fst (hooks (ec e))) /\ NoDup (map fst (joinidx (ec e))) /\
  (forall o, out (ec e) = Some o -> out_kd o).
Proof. exact played_state_kd. Qed.
Print Assumptions reachable_state_is_python_data_c05.

Theorem reach_state_is_python_data_c05 : forall orc ctxkeys st, orc_kd orc -> forall e,
  reach_kd orc ctxkeys st e ->
  env_kd (vars (ec e)) /\ NoDup (map fst (hooks (ec e))) /\ NoDup (map fst (joinidx (ec e))).
Proof. exact reach_state_kd. Qed.
Print Assumptions reach_state_is_python_data_c05.

(* the same for every restore point and for the content of the save slot *)
Theorem restore_points_are_python_data_c05 : forall orc ctxkeys st, orc_kd orc -> forall e slot,
  played_kd orc ctxkeys st e slot ->
  Forall core_kd (undo_stack e) /\ Forall core_kd (redo_stack e) /\ (forall c, slot = Some c -> core_kd c).
Proof. exact played_stacks_kd. Qed.
Print Assumptions restore_points_are_python_data_c05.

(* the concrete encoder of the displayed output writes distinct keys at every depth *)
Theorem out_enc_std_keys_distinct_c05 : forall cx fuel o,
  ctx_kd cx -> out_kd o -> keys_distinct (out_enc_std cx fuel o).
Proof. exact out_enc_std_kd. Qed.
Print Assumptions out_enc_std_keys_distinct_c05.

(* hence: the document of save_state() in ANY reachable state, written as text (either layout), reads back *)
Theorem reachable_save_text_roundtrip_c05 : forall orc ctxkeys st, orc_kd orc -> forall cx fuel now e doc,
  ctx_kd cx -> reach_kd orc ctxkeys st e ->
  save_json st cx fuel (out_enc_std cx fuel) now e = Some doc ->
  loads (dumps doc) = Some (json_rt doc) /\ loads (dumps_indent2 doc) = Some (json_rt doc).
Proof. exact reachable_save_text_roundtrip. Qed.
Print Assumptions reachable_save_text_roundtrip_c05.

Theorem played_save_text_roundtrip_c05 : forall orc ctxkeys st, orc_kd orc -> forall cx fuel now e slot doc,
  ctx_kd cx -> played_kd orc ctxkeys st e slot ->
  save_json st cx fuel (out_enc_std cx fuel) now e = Some doc ->
  loads (dumps doc) = Some (json_rt doc) /\ loads (dumps_indent2 doc) = Some (json_rt doc).
Proof. exact played_save_text_roundtrip. Qed.
Print Assumptions played_save_text_roundtrip_c05.

(* the restricted notions are the usual ones with Python initial variables *)
Theorem played_kd_is_played_c05 : forall orc ctxkeys st e slot,
  played_kd orc ctxkeys st e slot -> played orc ctxkeys st e slot.
Proof. exact played_kd_played. Qed.
Print Assumptions played_kd_is_played_c05.
Theorem reach_kd_is_reach_c05 : forall orc ctxkeys st e, reach_kd orc ctxkeys st e -> reach orc ctxkeys st e.
Proof. exact reach_kd_reach. Qed.
Print Assumptions reach_kd_is_reach_c05.

(* ---- non-vacuity ---- *)
Local Open Scope string_scope.
Definition orc0 : pyorc :=
  mkOrc (fun _ _ => Ok (VDict [("a", VInt 1)])) (fun ctx _ => Ok (set_key "x" (VList [VInt 1; VDict []]) ctx))
        (fun _ _ => Ok "") (fun _ _ => Ok ([VInt 1], [("k", VInt 2)])).

Example orc0_kd : orc_kd orc0.
Proof.
  constructor; simpl.
  - intros ctx code v _ E. inversion E; subst. cbn. repeat split; try exact I. repeat constructor. intros [].
  - intros ctx code ctx' H E. inversion E; subst. apply env_kd_vkd. apply env_kd_set; [|exact H].
    cbn. repeat split; constructor.
  - intros ctx a pos kw _ E. inversion E; subst. split; repeat constructor.
Qed.

Definition demo_reach_story : story :=
  mkStory "A"
    [("A", mkPassage "A" []
             [TText "hi "; TExpr "x"; TRender "card" "1, k=2" None; TInput [("name", "nm"); ("label", "Name")]]
             [Choice [TText "go"] "B" "" None true 0 [] []; Choice [TText "on"] "@join" "" None false 1 [] [TPyStmt "y = 2"]]
             [TPyStmt "x = 1"; THook true "turn_end" "H"] [] []);
     ("B", mkPassage "B" [] [TText "bye"; TLoop "i" "xs" [TExpr "i"] []] [Choice [TText "back"] "A" "" None true 0 [] []] [] [] []);
     ("H", mkPassage "H" [] [TText "tick"] [] [] [] [])] [] [].

Definition demo_reach_state : estate :=
  fst (step orc0 [] demo_reach_story
         (fst (step orc0 [] demo_reach_story (fst (init orc0 [] demo_reach_story [("seen", VTuple [VInt 1])])) (OpChoose 0)))
         (OpInput "nm" "Zed")).

Example demo_reach_state_reachable : reach_kd orc0 [] demo_reach_story demo_reach_state.
Proof.
  unfold demo_reach_state. apply rk_step. apply rk_step.
  destruct (init orc0 [] demo_reach_story [("seen", VTuple [VInt 1])]) as [e0 [o0|x]] eqn:E.
  - eapply rk_init; [|exact E]. cbn. repeat split; try exact I. repeat constructor. intros [].
  - vm_compute in E. discriminate E.
Qed.

Definition demo_now : string := "2026-10-01T12:00:00.000001".
Definition doc_keys (j : json) : list string := match j with JObj o => map fst o | _ => [] end.

Example demo_reach_saves :
  exists doc, save_json demo_reach_story [] 3 (out_enc_std [] 3) demo_now demo_reach_state = Some doc /\
              loads (dumps doc) = Some (json_rt doc) /\ loads (dumps_indent2 doc) = Some (json_rt doc) /\
              hooks (ec demo_reach_state) = [("turn_end", ["H"])] /\
              map fst (vars (ec demo_reach_state)) = ["seen"; "_inputs"; "x"] /\
              (* the 12 keys of the real document, in its order *)
              doc_keys doc = ["version"; "story_version"; "story_name"; "story_id"; "timestamp"; "current_passage_id";
                              "state"; "used_choices"; "metadata"; "hooks"; "join_section_index"; "current_output"].
Proof.
  destruct (save_json demo_reach_story [] 3 (out_enc_std [] 3) demo_now demo_reach_state) as [doc|] eqn:E.
  - exists doc. split; [reflexivity|].
    assert (Hcx : ctx_kd []) by (intros c f attrs H; cbn in H; discriminate H).
    destruct (reachable_save_text_roundtrip_c05 orc0 [] demo_reach_story orc0_kd [] 3 demo_now demo_reach_state doc
                Hcx demo_reach_state_reachable E) as [H1 H2].
    split; [exact H1|]. split; [exact H2|]. split; [vm_compute; reflexivity|]. split; [vm_compute; reflexivity|].
    vm_compute in E. inversion E; subst doc. reflexivity.
  - vm_compute in E. discriminate E.
Qed.

(* the five entries load_state does not read: story_version / story_name / story_id come from the story's @metadata
   block ("unknown" when absent), timestamp from the clock, metadata from the story *)
Definition demo_meta_story : story :=
  mkStory "A" [("A", mkPassage "A" [] [TText "hi"] [] [] [] []); ("B", mkPassage "B" [] [] [] [] [] [])] []
          [("title", "Demo"); ("version", "1.2"); ("author", "nobody")].
Example demo_meta_saves :
  save_json demo_meta_story [] 3 (out_enc_std [] 3) demo_now
            (fst (init orc0 [] demo_meta_story [("n", VInt 1)])) =
  Some (JObj [("version", JStr "0.1.0"); ("story_version", JStr "1.2"); ("story_name", JStr "Demo");
              ("story_id", JStr "unknown"); ("timestamp", JStr demo_now); ("current_passage_id", JStr "A");
              ("state", JObj [("n", JInt 1); ("_inputs", JObj [])]); ("used_choices", JList []);
              ("metadata", JObj [("passage_count", JInt 2); ("initial_passage", JStr "A")]);
              ("hooks", JObj []); ("join_section_index", JObj [("A", JInt 0)]);
              ("current_output",
               JObj [("content", JStr "hi"); ("choices", JList []); ("passage_id", JStr "A");
                     ("render_directives", JList []); ("input_directives", JList []); ("jump_target", JNull)])]).
Proof. vm_compute. reflexivity. Qed.

(* the requirement on the initial variables is needed: the model type of environments also has lists that are not
   Python dicts, and reach/played start from any of them *)
Example initial_vars_python_dict_needed :
  exists e, reach orc0 [] demo_reach_story e /\ ~ NoDup (map fst (vars (ec e))).
Proof.
  exists (fst (init orc0 [] demo_reach_story [("seen", VInt 1); ("seen", VInt 2)])). split.
  - destruct (init orc0 [] demo_reach_story [("seen", VInt 1); ("seen", VInt 2)]) as [e0 [o0|x]] eqn:E.
    + eapply reach_init. exact E.
    + vm_compute in E. discriminate E.
  - vm_compute. intros H. inversion H as [|a l Hn Hr]; subst. apply Hn. left. reflexivity.
Qed.

(* the third clause of orc_kd asks nothing of the keyword NAMES: the engine assigns them into the dict that already
   holds arg_0, arg_1, .. (Engine.args_dict, as _parse_directive_args does), so the argument dictionary of a call or
   of an evaluated @render directive has distinct keys whatever the author wrote: "f(1, arg_0=2)" gives
   {"arg_0": 2}, "f(a=1, a=2)" gives {"a": 2} (ast.parse accepts both; replayed on the real engine) *)
Theorem argument_dict_keys_distinct_c05 : forall pos kws, NoDup (map fst (args_dict pos kws)).
Proof. exact ArgKeys.args_dict_nodup. Qed.
Print Assumptions argument_dict_keys_distinct_c05.

Example args_dict_marker_keyword :
  args_dict [VInt 1] [("arg_0", VInt 2)] = [("arg_0", VInt 2)] /\
  args_dict [VInt 1; VInt 2] [("arg_0", VInt 7); ("x", VInt 3); ("arg_5", VInt 4)] =
    [("arg_0", VInt 7); ("arg_1", VInt 2); ("x", VInt 3); ("arg_5", VInt 4)] /\
  args_dict [] [("a", VInt 1); ("a", VInt 2)] = [("a", VInt 2)].
Proof. vm_compute. repeat split. Qed.
End Reach.
