(* C06 — Story values and custom objects survive save -> JSON -> load at any depth.
   Property theorems only; proofs are in Proofs/CodecProofs.v, the model is Codec/Codec.v.

   The theorems are about the codec WITH the candidate patches F06a (import bindings are not saved and
   are kept on load), F06b (every key of __dict__ is written) and F06c (the dict returned by
   to_save_dict is serialised recursively and "_data" is deserialised before from_save_dict):
   `fixed` = mkCfg true true true.  For the code before the patches (`legacy`) the property is false;
   the `_refuted` theorems at the end keep the witnesses, each of which is also a failing input of the
   real engine (harness/c06.py, PINNED).

   Reading guide:
   * `ser fuel cf cx v : option json` is _serialize_value.  Its result is a JSON tree by typing
     (ser_is_json only adds that the text codec json.dumps/json.loads gives the same tree back).
     None = no JSON document (RecursionError when `fuel` nested to_save_dict calls do not suffice —
     excluded below by `n <= fuel` — or, for `legacy`, a live object inside the save data).
   * `supp n cx v` is the documented domain with at most n nested to_save_dict calls: JSON scalars, lists,
     tuples, string-keyed dicts without a "_type" key, instances of registered classes — plain
     attribute objects and classes with to_save_dict/from_save_dict whose two functions are inverse to
     each other on the object — nested to any depth in any combination.  `supported` = for some n.
   * `t2l` (tuples_to_lists) turns every tuple into a list, as documented. *)
From Coq Require Import String Ascii List Bool ZArith.
From Bardic Require Import PyStr Value Codec CodecCheck CodecProofs.
Import ListNotations.
Local Open Scope list_scope.
Local Open Scope string_scope.

(* Every supported value tree comes back from save -> JSON text -> load as itself, tuples as lists. *)
Theorem codec_roundtrip : forall cx n v, supp n cx v -> forall fuel, n <= fuel ->
  exists j, ser fuel fixed cx v = Some j /\ deser fixed cx (json_rt j) = Some (t2l v).
Proof. exact codec_roundtrip_lemma. Qed.
Print Assumptions codec_roundtrip.

(* The same without the depth index: enough fuel exists for every supported value. *)
Theorem codec_roundtrip_any_depth : forall cx v, supported cx v ->
  exists n, forall fuel, n <= fuel ->
  exists j, ser fuel fixed cx v = Some j /\ deser fixed cx (json_rt j) = Some (t2l v).
Proof. exact codec_roundtrip_supported. Qed.
Print Assumptions codec_roundtrip_any_depth.

(* What _serialize_value returns contains only JSON data: true by typing (ser : ... -> option json);
   json.dumps/json.loads rebuild every JSON tree unchanged. *)
Theorem ser_is_json : forall j, json_rt j = j.
Proof. exact json_rt_id. Qed.
Print Assumptions ser_is_json.

(* Saving and loading what was loaded changes nothing more. *)
Theorem roundtrip_idempotent : forall cx n v, supp n cx v -> supp n cx (t2l v) ->
  forall fuel, n <= fuel ->
  exists j1 v1 j2, ser fuel fixed cx v = Some j1 /\ deser fixed cx (json_rt j1) = Some v1 /\
                   ser fuel fixed cx v1 = Some j2 /\ deser fixed cx (json_rt j2) = Some v1.
Proof. exact roundtrip_idempotent_lemma. Qed.
Print Assumptions roundtrip_idempotent.

(* For values without to_save_dict objects the second hypothesis is a theorem (and no fuel is needed). *)
Theorem roundtrip_idempotent_plain : forall cx v, supp 0 cx v -> forall fuel,
  exists j1 v1 j2, ser fuel fixed cx v = Some j1 /\ deser fixed cx (json_rt j1) = Some v1 /\
                   ser fuel fixed cx v1 = Some j2 /\ deser fixed cx (json_rt j2) = Some v1.
Proof. exact roundtrip_idempotent_plain_lemma. Qed.
Print Assumptions roundtrip_idempotent_plain.

Theorem tuples_to_lists_idempotent : forall v, t2l (t2l v) = t2l v.
Proof. exact t2l_idem. Qed.
Print Assumptions tuples_to_lists_idempotent.

(* The domain grows with the depth bound. *)
Theorem domain_monotone : forall cx n m v, n <= m -> supp n cx v -> supp m cx v.
Proof. exact supp_mono. Qed.
Print Assumptions domain_monotone.

(* Names bound by the story's import lines (classes, modules, functions) are bound to the same thing
   after a load, whatever the save file contains. *)
Theorem imports_survive_load : forall cx cur doc st' k v,
  lookup k cur = Some v -> is_import_binding v = true ->
  load_doc fixed cx cur doc = Some st' -> lookup k st' = Some v.
Proof. exact imports_survive_load_lemma. Qed.
Print Assumptions imports_survive_load.

(* Nothing in the save file stems from such a binding. *)
Theorem imports_not_saved : forall cx fuel st doc,
  save_doc fuel fixed cx st = Some doc ->
  forall k j, In (k, j) doc ->
  exists v, In (k, v) st /\ is_import_binding v = false /\ ser fuel fixed cx v = Some j.
Proof. exact imports_not_saved_lemma. Qed.
Print Assumptions imports_not_saved.

(* The whole variable dictionary: save_state, JSON text, load_state into an engine whose state is `cur`. *)
Theorem state_roundtrip : forall cx n fuel st cur, n <= fuel ->
  Forall (fun kv => is_import_binding (snd kv) = true \/ supp n cx (snd kv)) st ->
  exists doc st',
    save_doc fuel fixed cx st = Some doc /\
    load_doc fixed cx cur (map_items json_rt doc) = Some st' /\
    (forall k v, lookup k cur = Some v -> is_import_binding v = true -> lookup k st' = Some v) /\
    (forall k v, lookup k st = Some v -> is_import_binding v = false ->
                 lookup k (filter (fun kv => is_import_binding (snd kv)) cur) = None ->
                 lookup k st' = Some (t2l v)).
Proof. exact state_roundtrip_lemma. Qed.
Print Assumptions state_roundtrip.

(* ---- non-vacuity: object in list in dict in object, a custom object holding an object and a tuple ---- *)
Definition sword := VObj "Plain" [("name", VStr "sword"); ("n", VTuple [VInt 1; VInt 2])].
Definition aria := VObj "Hero" [("name", VStr "Aria"); ("hp", VInt 3); ("bag", VList [sword; VTuple [VNone]])].
Definition wallet30 := VObj "Wallet" [("_gold", VInt 30)].
Definition chest :=
  VObj "Box" [("label", VStr "chest");
              ("inner", VDict [("k", VList [sword; aria])]);
              ("items", VList [wallet30; VTuple [VBool true; aria]])].

Example chest_supported : supp 1 test_ctx chest.
Proof. vm_compute. repeat (split; try reflexivity). Qed.

Example chest_not_plain : ~ supp 0 test_ctx chest.
Proof. vm_compute. tauto. Qed.

Example chest_roundtrip :
  exists j, ser 1 fixed test_ctx chest = Some j /\ deser fixed test_ctx (json_rt j) = Some (t2l chest)
            /\ t2l chest <> chest.
Proof. eexists. split; [vm_compute; reflexivity|]. split; [vm_compute; reflexivity|]. vm_compute. discriminate. Qed.

Definition demo_state : env :=
  [("_inputs", VDict []); ("Wallet", VClass "Wallet"); ("math", VModule "math"); ("helper", VFunc "helper");
   ("w", wallet30); ("party", VTuple [aria; chest])].
Definition demo_fresh : env :=
  [("_inputs", VDict []); ("Wallet", VClass "Wallet"); ("math", VModule "math"); ("helper", VFunc "helper")].

Example demo_state_ok :
  Forall (fun kv => is_import_binding (snd kv) = true \/ supp 1 test_ctx (snd kv)) demo_state.
Proof.
  repeat constructor; simpl; try (left; reflexivity); right; vm_compute; repeat (split; try reflexivity).
Qed.

Example demo_state_roundtrip :
  exists doc, save_doc 1 fixed test_ctx demo_state = Some doc /\
    load_doc fixed test_ctx demo_fresh (map_items json_rt doc)
    = Some [("Wallet", VClass "Wallet"); ("math", VModule "math"); ("helper", VFunc "helper");
            ("_inputs", VDict []); ("w", wallet30); ("party", t2l (VTuple [aria; chest]))].
Proof. eexists. split; vm_compute; reflexivity. Qed.

(* ---- the hypothesis on dicts is needed: a dict with a "_type" key reads as a serialised object ---- *)
Theorem type_key_dict_refuted :
  exists cx v j, dump v = Some j /\ ser 0 fixed cx v = Some j /\
                 deser fixed cx (json_rt j) <> Some (t2l v).
Proof.
  exists test_ctx, (VDict [("_type", VStr "Plain"); ("_data", VDict [("name", VInt 1)])]).
  eexists. split; [vm_compute; reflexivity|]. split; [vm_compute; reflexivity|].
  vm_compute. discriminate.
Qed.
Print Assumptions type_key_dict_refuted.

(* ---------------------------------------------------------------------------------------- *)
(* The code before the patches (`legacy`): the property fails.  Each witness below is replayed on the
   real engine by harness/c06.py (PINNED) and reported there with the signature given in the comment. *)

(* F06a, signature import-overwritten:kind=class — `from bardic.stdlib.economy import Wallet`, save, load:
   the class is saved as null and the null is written back over the imported name. *)
Theorem imports_survive_load_refuted :
  exists cx st k v doc st',
    lookup k st = Some v /\ is_import_binding v = true /\
    save_doc 0 legacy cx st = Some doc /\ load_doc legacy cx st (map_items json_rt doc) = Some st' /\
    lookup k st' <> Some v.
Proof.
  exists test_ctx, [("Wallet", VClass "Wallet")], "Wallet", (VClass "Wallet"),
         [("Wallet", JNull)], [("Wallet", VNone)].
  vm_compute. repeat (split; [reflexivity|]). discriminate.
Qed.
Print Assumptions imports_survive_load_refuted.

(* F06a, signatures module-dumped / import-overwritten:kind=module|function — `import math`,
   `from c06mod import helper`: both come back as dicts. *)
Theorem module_and_function_bindings_refuted :
  exists cx st doc st',
    save_doc 0 legacy cx st = Some doc /\ load_doc legacy cx st (map_items json_rt doc) = Some st' /\
    lookup "math" st = Some (VModule "math") /\ lookup "math" st' = Some (VDict []) /\
    lookup "helper" st = Some (VFunc "helper") /\ lookup "helper" st' = Some (VDict []).
Proof.
  exists test_ctx, [("math", VModule "math"); ("helper", VFunc "helper")].
  eexists. eexists. split; [vm_compute; reflexivity|]. split; [vm_compute; reflexivity|].
  vm_compute. repeat (split; try reflexivity).
Qed.
Print Assumptions module_and_function_bindings_refuted.

(* F06b, signature value-lost:kind=underscore-attribute — Wallet(30): "_gold" is not written, the wallet
   comes back without it (wallet.gold then raises AttributeError). *)
Theorem underscore_attribute_refuted :
  exists cx v j, supp 0 cx v /\ ser 0 legacy cx v = Some j /\
                 deser legacy cx (json_rt j) = Some (VObj "Wallet" []) /\
                 deser legacy cx (json_rt j) <> Some (t2l v).
Proof.
  exists test_ctx, wallet30. eexists.
  split; [vm_compute; repeat (split; try reflexivity)|].
  split; [vm_compute; reflexivity|]. split; [vm_compute; reflexivity|]. vm_compute. discriminate.
Qed.
Print Assumptions underscore_attribute_refuted.

(* F06c, signature custom-nested-object — Hero("Aria", 3, [Plain("sword", (1, 2)), (None,)]): the dict
   returned by to_save_dict goes into the save data as it is, json.dumps raises TypeError. *)
Theorem custom_nested_object_refuted :
  exists cx v, supp 1 cx v /\ forall fuel, ser fuel legacy cx v = None.
Proof.
  exists test_ctx, aria. split; [vm_compute; repeat (split; try reflexivity)|].
  intros fuel. rewrite ser_fuel. reflexivity.
Qed.
Print Assumptions custom_nested_object_refuted.

(* =========================================================================================== *)
(* The JSON TEXT codec inside the model (Codec/JsonText.v): json.dumps / json.dumps(indent=2) / json.loads *)
(* =========================================================================================== *)
From Bardic Require Import JsonText JsonTextProofs.

(* ---- C06 / C05 / C12 / C01: the JSON text codec (json.dumps, json.dumps(indent=2), json.loads) ---- *)

Theorem json_text_roundtrip : forall j, keys_distinct j -> loads (dumps j) = Some (json_rt j).
Proof. exact loads_dumps_rt. Qed.
Print Assumptions json_text_roundtrip.

Theorem json_text_roundtrip_indent2 : forall j, keys_distinct j -> loads (dumps_indent2 j) = Some (json_rt j).
Proof. exact loads_dumps_indent2_rt. Qed.
Print Assumptions json_text_roundtrip_indent2.

Theorem json_text_roundtrip_ascii : forall j, ascii_json j -> keys_distinct j -> loads (dumps j) = Some j.
Proof. exact loads_dumps. Qed.
Print Assumptions json_text_roundtrip_ascii.

Theorem json_text_roundtrip_any_tree : forall j, loads (dumps j) = Some (normalize j).
Proof. exact loads_dumps_normalize. Qed.
Print Assumptions json_text_roundtrip_any_tree.

Theorem json_text_injective : forall a b, dumps a = dumps b -> a = b.
Proof. exact dumps_injective. Qed.
Print Assumptions json_text_injective.

Theorem json_text_indent2_injective : forall a b, dumps_indent2 a = dumps_indent2 b -> a = b.
Proof. exact dumps_indent2_injective. Qed.
Print Assumptions json_text_indent2_injective.

Theorem json_text_fuel_enough : forall s n, String.length s <= n -> pvalue n s = pvalue (String.length s) s.
Proof. exact pvalue_fuel_enough. Qed.
Print Assumptions json_text_fuel_enough.

Theorem json_loads_gives_dicts : forall s j, loads s = Some j -> keys_distinct j.
Proof. exact loads_kd. Qed.
Print Assumptions json_loads_gives_dicts.

Theorem json_text_is_ascii : forall j, str_all printable (dumps j) = true.
Proof. exact dumps_printable. Qed.
Print Assumptions json_text_is_ascii.

Theorem json_text_indent2_is_ascii : forall j, str_all printable_nl (dumps_indent2 j) = true.
Proof. exact dumps_indent2_printable. Qed.
Print Assumptions json_text_indent2_is_ascii.

(* C06: the serialised value, written as text and read back, is the tree the codec theorems call json_rt j *)
Theorem ser_text_roundtrip_c06 : forall cf cx fuel v j,
  ctx_kd cx -> value_kd v -> ser fuel cf cx v = Some j -> loads (dumps j) = Some (json_rt j).
Proof. exact ser_text_roundtrip. Qed.
Print Assumptions ser_text_roundtrip_c06.

(* ---- non-vacuity ---- *)
Definition sample_doc : json :=
  JObj [("version", JStr "0.1.0");
        ("current_passage_id", JNull);
        ("state", JObj [("hp", JInt (-3)); ("big", JInt 1180591620717411303424);
                        ("name", JStr (String (ascii_of_nat 10) (String (ascii_of_nat 127) "say ""hi""\/")));
                        ("hero", JObj [("_type", JStr "Hero"); ("_module", JStr "game"); ("_data", JObj []); ("_custom", JBool true)])]);
        ("used_choices", JList [JStr "a"; JStr ""]);
        ("hooks", JObj []); ("flags", JList [JBool true; JBool false; JList []])].

Ltac nodup_tac := repeat (constructor; [cbn [In]; intuition discriminate|]); try constructor.

Example sample_doc_kd : keys_distinct sample_doc.
Proof. cbn [sample_doc keys_distinct allPi allP map fst]. repeat split; nodup_tac. Qed.

Example sample_doc_text :
  dumps sample_doc =
  "{""version"": ""0.1.0"", ""current_passage_id"": null, ""state"": {""hp"": -3, ""big"": 1180591620717411303424, ""name"": ""\n\u007fsay \""hi\""\\/"", ""hero"": {""_type"": ""Hero"", ""_module"": ""game"", ""_data"": {}, ""_custom"": true}}, ""used_choices"": [""a"", """"], ""hooks"": {}, ""flags"": [true, false, []]}"
  /\ loads (dumps sample_doc) = Some sample_doc /\ loads (dumps_indent2 sample_doc) = Some sample_doc.
Proof. vm_compute. repeat split. Qed.

Example sample_indent2_text :
  dumps_indent2 (JObj [("a", JList [JInt 1; JObj []; JList []]); ("b", JObj [("c", JNull)])]) =
"{
  ""a"": [
    1,
    {},
    []
  ],
  ""b"": {
    ""c"": null
  }
}".
Proof. vm_compute. reflexivity. Qed.

(* the hypothesis on keys is needed (such a tree is not a Python dict): json.loads keeps the LAST value at
   the FIRST position *)
Example repeated_key_tree : loads (dumps (JObj [("a", JInt 1); ("b", JInt 2); ("a", JInt 3)])) = Some (JObj [("a", JInt 3); ("b", JInt 2)]).
Proof. vm_compute. reflexivity. Qed.

(* json.loads accepts what json.dumps never writes: free white space, \/ , \uXXXX of either case *)
Example loads_liberal :
  loads (String (ascii_of_nat 9) " [ 1 ,-0, ""\u0041\/\u00e9\u00E9"" , { ""k"" : [ ] } ] ")
  = Some (JList [JInt 1; JInt 0; JStr (String "A" (String "/" (String (ascii_of_nat 233) (String (ascii_of_nat 233) ""))));
                 JObj [("k", JList [])]]).
Proof. vm_compute. reflexivity. Qed.

(* and rejects: leading zeros, trailing commas, raw control characters, floats (outside the domain), extra data *)
Example loads_rejects :
  map loads ["01"; "[1,]"; "{""a"":1,}"; String """" (String (ascii_of_nat 9) """"); "1.5"; "1e5"; "[] []"; ""; "nul"; """\u0100"""]
  = [None; None; None; None; None; None; None; None; None; None].
Proof. vm_compute. reflexivity. Qed.
