(* C07 — Passage parameters bind like Python calls, are local, and never leak or linger.
   Theorems (proofs: Proofs/EngineNav.v, Proofs/EngineUndo.v, Proofs/EngineParams.v, Proofs/CallBindProofs.v): for every
   story and every author-code oracle.

   Last clause of the property ("a story that compiles never fails at run time for a missing, surplus, unknown or
   doubly supplied argument") -- now theorems, second half of this file:
     * one call site: the compiler's validator accepted the call (validate_single_call = POk tt), the engine's
       argument evaluation succeeded => _bind_arguments reaches neither of its two structural raise sites
       ("Required parameter not provided", "provided multiple times"); it returns the scope, or fails because a
       DEFAULT expression of the signature failed (author code, C15).  The real _bind_arguments has no raise site
       for a surplus positional or an unknown keyword (what is left over in the dict is ignored); for these the
       theorem is that a validated call leaves nothing over.
     * every compiled story (parse ... = POk story, arbitrary extractors and oracles): every jump token at any
       depth and every choice offered in ANY state a history can reach is such a validated call site, and
       signatures have distinct parameter names.
     * whole operations / histories (step, run_all with the two raise sites made parameters are equal to the real
       ones): `…_partial`, see there for the one hypothesis that is not derived from `parse` for arbitrary
       extractors.
     * binding IS Python's call rule (fixes F07d: a parameter named arg_<digits> is refused by the compiler, F07e: a
       call that repeats a keyword is refused by the validator): for every validated call site of a compiled story
       the keyword names are distinct (the association list is the dict), the argument dict the engine builds has
       the positional markers arg_0..arg_{k-1} and no other (positional_prefix, until now a hypothesis of
       bind_is_python_call, is a CONSEQUENCE), and bind_arguments = py_bind = py_call, Python's call rule stated
       on the positional values and keyword pairs themselves.  Third part of this file.
   What the call-shape phase of harness/engine_props.py still carries: `shape_agrees` / `blank_shape` -- that the
   two oracles describe the same call, i.e. that the compiler (ast.parse("_temp_(" + args + ")")) and the engine
   (ast.parse("__directive__(" + args + ")"), skipped for a blank string) read an argument string with Python's
   `ast` the same way -- and, as everywhere, that the two models follow the code. *)
From Coq Require Import String List Bool ZArith Arith.
From Bardic Require Import PyStr Value Compiled Engine EngineBase EngineNav EngineUndo EngineParams.
From Bardic Require Import EngineHooks EngineCheck GraphProofs StoryWfChoose ParseBase ParseLine ParseMain ParseAllProofs CallBindProofs CallBindReal.
Import ListNotations.

(* the parameter scope ends when the navigation completes OR fails: the scope stack after any operation is
   the scope stack before it (this is the `finally`), for choose, goto, undo and redo *)
Theorem scope_balanced_choose : forall orc ctxkeys st e i,
  escopes (fst (choose orc ctxkeys st e i)) = escopes e.
Proof. exact choose_scopes. Qed.
Print Assumptions scope_balanced_choose.
Theorem scope_balanced_goto : forall orc ctxkeys st e spec,
  escopes (fst (goto_op orc ctxkeys st e spec)) = escopes e.
Proof. exact goto_op_scopes. Qed.
Print Assumptions scope_balanced_goto.
Theorem scope_balanced_undo_redo : forall e,
  escopes (fst (undo e)) = escopes e /\ escopes (fst (redo e)) = escopes e.
Proof. intros e. split; [apply undo_scopes|apply redo_scopes]. Qed.
Print Assumptions scope_balanced_undo_redo.

(* parameters never appear in or alter the global variables: what a statement or block writes back
   skips every parameter name, so a global with a parameter's name keeps its value and a parameter
   that is not a global does not become one *)
Theorem params_stay_local : forall ctxkeys ctx' v skip k,
  str_in k skip = true -> lookup k (sync_back ctxkeys ctx' v skip) = lookup k v.
Proof. exact sync_back_skips. Qed.
Print Assumptions params_stay_local.

(* ... and they shadow same-named globals in everything the passage evaluates *)
Theorem params_shadow_globals : forall v l sc k x,
  NoDup (keys l) -> lookup k l = Some x -> lookup k (eval_context v (l :: sc)) = Some x.
Proof. exact eval_context_local. Qed.
Print Assumptions params_shadow_globals.

(* binding follows Python's call rule (py_bind, Proofs/EngineParams.v): parameter number i takes positional
   argument i when there is one, else the keyword argument of its name, else its default evaluated with the
   earlier parameters visible, else ValueError.  positional_prefix: the positional arguments are arg_0..arg_{k-1},
   which is how _parse_directive_args numbers them -- for ANY dict; for the dict of a validated call of a compiled
   story the hypothesis is discharged (validated_call_positional_prefix, compiled_*_binds_like_python below). *)
Theorem bind_is_python_call : forall orc ctx0 ps ad k,
  positional_prefix ad k -> bind_arguments orc ctx0 ps ad 0 [] = py_bind orc ctx0 ps ad.
Proof. exact bind_arguments_spec. Qed.
Print Assumptions bind_is_python_call.

(* ======================================================================================== *)
(* "A story that compiles never fails at run time for a missing, surplus, unknown or doubly supplied argument" *)

(* The engine model raises ValueError at both structural sites of _bind_arguments (and enter_scope turns a failing
   default into ValueError too), so the sites are told apart as in C12: bind_arguments_g dup missing is
   bind_arguments with an ARBITRARY result at the "provided multiple times" site (dup) and at the "Required
   parameter not provided" site (missing).  The real function is the instance with the real raises ... *)
Theorem bind_sites_are_the_real_raises : forall orc ctx0 ad ps pi acc,
  bind_arguments orc ctx0 ps ad pi acc = bind_arguments_g orc (Exc ValueError) (Exc ValueError) ctx0 ps ad pi acc.
Proof. exact bind_arguments_is_g. Qed.
Print Assumptions bind_sites_are_the_real_raises.

(* ... and a theorem "bind_arguments_g dup missing … = bind_arguments …" for all dup, missing says that neither
   site is reached.

   One call site.  shape_agrees: whenever the engine's parse-and-evaluate of the argument string gives pos/kws,
   the compiler's parse of the same string has that many positional arguments and those keyword names.  The
   signature has distinct names (every compiled story: compiled_call_sites_validated below; needed:
   distinct_parameter_names_needed). *)
Theorem validated_call_binds : forall pp is_call orc passages,
  shape_agrees pp orc ->
  forall tg args tp,
  validate_single_call pp is_call passages tg args = POk tt ->
  String.eqb tg "@join" = false -> lookup tg passages = Some tp ->
  NoDup (map pname (params tp)) ->
  forall ctx pos kws dup missing,
  o_args orc ctx args = Ok (pos, kws) ->
  bind_arguments_g orc dup missing ctx (params tp) (args_dict pos kws) 0 [] =
  bind_arguments orc ctx (params tp) (args_dict pos kws) 0 [].
Proof. exact validated_call_binds_lemma. Qed.
Print Assumptions validated_call_binds.

(* the same without the device: if binding fails, it is a default expression of the signature that failed,
   evaluated with the earlier parameters in view *)
Theorem validated_call_fails_only_in_a_default : forall pp is_call orc passages,
  shape_agrees pp orc ->
  forall tg args tp,
  validate_single_call pp is_call passages tg args = POk tt ->
  String.eqb tg "@join" = false -> lookup tg passages = Some tp ->
  NoDup (map pname (params tp)) ->
  forall ctx pos kws e,
  o_args orc ctx args = Ok (pos, kws) ->
  bind_arguments orc ctx (params tp) (args_dict pos kws) 0 [] = Exc e ->
  exists q d acc, In q (params tp) /\ pdefault q = Some d /\ o_eval orc (update ctx acc) d = Exc e.
Proof. exact validated_call_fails_only_in_a_default_lemma. Qed.
Print Assumptions validated_call_fails_only_in_a_default.

(* ... so when the defaults evaluate, binding succeeds *)
Theorem validated_call_binds_when_defaults_evaluate : forall pp is_call orc passages,
  shape_agrees pp orc ->
  forall tg args tp,
  validate_single_call pp is_call passages tg args = POk tt ->
  String.eqb tg "@join" = false -> lookup tg passages = Some tp ->
  NoDup (map pname (params tp)) ->
  forall ctx pos kws,
  o_args orc ctx args = Ok (pos, kws) ->
  (forall q d acc, In q (params tp) -> pdefault q = Some d -> exists v, o_eval orc (update ctx acc) d = Ok v) ->
  exists pv, bind_arguments orc ctx (params tp) (args_dict pos kws) 0 [] = Ok pv.
Proof. exact validated_call_binds_when_defaults_evaluate_lemma. Qed.
Print Assumptions validated_call_binds_when_defaults_evaluate.

(* surplus / unknown: nothing is left over for the engine to ignore -- every positional value has a parameter,
   every keyword names a parameter, no parameter gets both *)
Theorem validated_call_no_surplus_no_unknown : forall pp is_call orc passages,
  shape_agrees pp orc ->
  forall tg args tp,
  validate_single_call pp is_call passages tg args = POk tt ->
  String.eqb tg "@join" = false -> lookup tg passages = Some tp ->
  forall ctx pos kws,
  args <> ""%string -> o_args orc ctx args = Ok (pos, kws) ->
  List.length pos <= List.length (params tp) /\
  (forall k, In k (map fst kws) -> In k (map pname (params tp))) /\
  (forall k, In k (firstn (List.length pos) (map pname (params tp))) -> ~ In k (map fst kws)).
Proof. exact validated_call_no_surplus_no_unknown_lemma. Qed.
Print Assumptions validated_call_no_surplus_no_unknown.

(* the dict goto really builds (empty for no / blank argument text, without asking Python; blank_shape: the compiler's
   parse of a blank string is the empty argument list) *)
Theorem validated_engine_dict_binds : forall pp is_call orc passages,
  shape_agrees pp orc ->
  forall tg args tp,
  validate_single_call pp is_call passages tg args = POk tt ->
  String.eqb tg "@join" = false -> lookup tg passages = Some tp ->
  NoDup (map pname (params tp)) ->
  forall ctx ad dup missing,
  blank_shape pp -> engine_arg_dict orc ctx args = Ok ad ->
  bind_arguments_g orc dup missing ctx (params tp) ad 0 [] = bind_arguments orc ctx (params tp) ad 0 [].
Proof. exact validated_engine_dict_binds_lemma. Qed.
Print Assumptions validated_engine_dict_binds.

(* why distinct names are a hypothesis of the call-site theorems: T(a, a) called as T(1) passes the validator (the
   second `a` counts as supplied by the first positional argument) and stops at the "missing" site *)
Theorem distinct_parameter_names_needed :
  validate_single_call one_arg_pp (fun _ => true) dup_sig_passages "T" "1" = POk tt /\
  shape_agrees one_arg_pp one_arg_orc /\
  bind_arguments one_arg_orc [] [mkParam "a" None; mkParam "a" None] (args_dict [VInt 1] []) 0 []
  = Exc ValueError.
Proof. exact distinct_names_needed. Qed.
Print Assumptions distinct_parameter_names_needed.

(* ---- every story the compiler returns (arbitrary extractors and oracles) ---- *)

(* every call site at a position the renderer can report it from -- the passage's own choices, the choices of its
   conditionals and loops at any depth (passage_choice), its jump tokens at any depth (passage_jump) -- went
   through validate_single_call, a jump never targets @join, and parameter names are distinct *)
Theorem compiled_call_sites_validated : forall pp is_call xs lines0 story,
  parse pp is_call xs lines0 = POk story ->
  story_calls_validated pp is_call story /\ story_params_distinct story.
Proof. exact parse_ok_call_sites_validated_lemma. Qed.
Print Assumptions compiled_call_sites_validated.

(* a jump token at any depth of any passage: if its argument text evaluates, binding reaches neither site *)
Theorem compiled_jump_site_binds : forall pp is_call xs lines0 story,
  parse pp is_call xs lines0 = POk story ->
  forall orc, shape_agrees pp orc ->
  forall pid p tg a, get_passage story pid = Some p -> passage_jump p tg a ->
  exists tp, get_passage story tg = Some tp /\
    forall ctx pos kws dup missing, o_args orc ctx a = Ok (pos, kws) ->
      bind_arguments_g orc dup missing ctx (params tp) (args_dict pos kws) 0 [] =
      bind_arguments orc ctx (params tp) (args_dict pos kws) 0 [].
Proof. exact parse_ok_jump_site_binds_lemma. Qed.
Print Assumptions compiled_jump_site_binds.

(* a choice offered in ANY state a history can reach (choose, undo, redo, goto, reset, reload, input, ...), other
   than `-> @join`: its target is a passage, and if its argument text evaluates, binding reaches neither site *)
Theorem compiled_offered_choice_binds : forall pp is_call xs lines0 story,
  parse pp is_call xs lines0 = POk story ->
  forall orc ctxkeys, shape_agrees pp orc ->
  forall e rc, reach orc ctxkeys story e -> In rc (o_choices (current_out e)) ->
  ch_target (rc_choice rc) <> "@join"%string ->
  exists tp, get_passage story (ch_target (rc_choice rc)) = Some tp /\
    forall ctx pos kws dup missing, o_args orc ctx (ch_args (rc_choice rc)) = Ok (pos, kws) ->
      bind_arguments_g orc dup missing ctx (params tp) (args_dict pos kws) 0 [] =
      bind_arguments orc ctx (params tp) (args_dict pos kws) 0 [].
Proof. exact parse_ok_offered_choice_binds_lemma. Qed.
Print Assumptions compiled_offered_choice_binds.

Theorem compiled_offered_choice_fails_only_in_a_default : forall pp is_call xs lines0 story,
  parse pp is_call xs lines0 = POk story ->
  forall orc ctxkeys, shape_agrees pp orc ->
  forall e rc, reach orc ctxkeys story e -> In rc (o_choices (current_out e)) ->
  ch_target (rc_choice rc) <> "@join"%string ->
  exists tp, get_passage story (ch_target (rc_choice rc)) = Some tp /\
    forall ctx pos kws x, o_args orc ctx (ch_args (rc_choice rc)) = Ok (pos, kws) ->
      bind_arguments orc ctx (params tp) (args_dict pos kws) 0 [] = Exc x ->
      exists q d acc, In q (params tp) /\ pdefault q = Some d /\ o_eval orc (update ctx acc) d = Exc x.
Proof. exact parse_ok_offered_choice_fails_only_in_a_default_lemma. Qed.
Print Assumptions compiled_offered_choice_fails_only_in_a_default.

(* ---- whole operations and histories ---- *)

(* step_b / run_all_b dup missing: EngineCheck.step / run_all with the two sites of _bind_arguments made parameters in
   every enter_scope of every hop of every jump chain; the real ones are the instances with the real raises *)
Theorem step_sites_are_the_real_raises : forall orc ctxkeys st e o,
  step orc ctxkeys st e o = step_b orc ctxkeys st (Exc ValueError) (Exc ValueError) e o.
Proof. exact step_is_b. Qed.
Print Assumptions step_sites_are_the_real_raises.
Theorem run_sites_are_the_real_raises : forall orc ctxkeys st v0 ops,
  run_all orc ctxkeys st v0 ops = run_all_b orc ctxkeys st (Exc ValueError) (Exc ValueError) v0 ops.
Proof. exact run_all_is_b. Qed.
Print Assumptions run_sites_are_the_real_raises.

(* PARTIAL.  No operation of a history reaches either site -- under story_specs_roundtrip: the engine gets a call
   as ONE string `Target(args)` and splits it again with its own parenthesis scan (parse_spec); the hypothesis says
   that for every call site of the story this gives back the (target, args) pair the compiler validated.  That is
   what is missing: it is not a consequence of `parse … = POk story` for ARBITRARY block extractors (a token
   `TJump "T" "1)(2, 3"` from an extractor passes the validator as two positional arguments, the engine reads
   `T(1)(2, 3)` as T(1)).  It holds of everything extract_target_and_args produces (splitter_args_are_balanced,
   choice_line_args_are_balanced, balanced_args_roundtrip below: all top-level choice and jump lines); for the real
   block parser it is carried by the call-shape phase (sites choice-in-if / jump-in-if / choice-in-for / jump-in-for).
   op_valid: a spec handed to goto() by the host application is one the engine can bind (valid_spec); every other
   operation is unrestricted. *)
Theorem compiled_step_never_binds_structurally_partial : forall pp is_call xs lines0 story,
  parse pp is_call xs lines0 = POk story -> story_specs_roundtrip story ->
  forall orc ctxkeys, shape_agrees pp orc -> blank_shape pp ->
  forall dup missing e o, reach orc ctxkeys story e -> op_valid orc story o ->
    step_b orc ctxkeys story dup missing e o = step orc ctxkeys story e o.
Proof. exact parse_ok_step_never_binds_structurally_partial_lemma. Qed.
Print Assumptions compiled_step_never_binds_structurally_partial.

(* ... with the save slot of EngineCheck.run_all (StoryWfChoose.played) *)
Theorem compiled_played_never_binds_structurally_partial : forall pp is_call xs lines0 story,
  parse pp is_call xs lines0 = POk story -> story_specs_roundtrip story ->
  forall orc ctxkeys, shape_agrees pp orc -> blank_shape pp ->
  forall dup missing e slot o, played orc ctxkeys story e slot -> op_valid orc story o ->
    step_b orc ctxkeys story dup missing e o = step orc ctxkeys story e o.
Proof. exact parse_ok_played_never_binds_structurally_partial_lemma. Qed.
Print Assumptions compiled_played_never_binds_structurally_partial.

(* ... whole histories from __init__ on: the initial passage is entered without arguments and the compiler accepts
   it only when every parameter has a default *)
Theorem compiled_run_never_binds_structurally_partial : forall pp is_call xs lines0 story,
  parse pp is_call xs lines0 = POk story -> story_specs_roundtrip story ->
  forall orc ctxkeys, shape_agrees pp orc -> blank_shape pp ->
  forall dup missing v0 ops, Forall (op_valid orc story) ops ->
    run_all_b orc ctxkeys story dup missing v0 ops = run_all orc ctxkeys story v0 ops.
Proof. exact parse_ok_run_never_binds_structurally_partial_lemma. Qed.
Print Assumptions compiled_run_never_binds_structurally_partial.

(* the part of story_specs_roundtrip that is proved: the compiler's splitter cuts the arguments at the parenthesis
   at which the engine's scan of `args)` stops, so for a target without "(" (every passage name) re-reading
   `Target(args)` gives back the pair *)
Theorem splitter_args_are_balanced : forall t, args_balanced (snd (extract_target_and_args t)).
Proof. exact extract_target_and_args_balanced. Qed.
Print Assumptions splitter_args_are_balanced.
Theorem choice_line_args_are_balanced : forall l c, parse_choice_line l = POk (Some c) -> args_balanced (ch_args c).
Proof. exact parse_choice_line_balanced. Qed.
Print Assumptions choice_line_args_are_balanced.
Theorem balanced_args_roundtrip : forall tg a,
  StoryWfProofs.no_paren tg = true -> args_balanced a -> spec_roundtrip tg a.
Proof. exact balanced_roundtrip. Qed.
Print Assumptions balanced_args_roundtrip.

(* ======================================================================================== *)
(* Binding is Python's call rule for every call a compiled story can make (fixes F07d, F07e).

   py_call orc ctx ps pos kws: parameter number i takes positional value i when there is one, else the value of the
   keyword of its name, else its default evaluated with the earlier parameters visible, else ValueError -- stated on
   the call (pos, kws), without the arg_<i> keys.  py_bind (bind_is_python_call) reads the positional values through
   those keys, which is only faithful when no keyword or parameter is named like one. *)

(* F07d: the compiler refuses a parameter named arg_<digits> (is_positional_marker = re.fullmatch(r"arg_\d+")) *)
Theorem reserved_parameter_name_rejected : forall s ps,
  parse_passage_params s = POk ps -> forall q, In q ps -> is_positional_marker (pname q) = false.
Proof. exact parse_passage_params_unreserved. Qed.
Print Assumptions reserved_parameter_name_rejected.

(* ... every arg_<i> is such a name, and i |-> arg_<i> is injective *)
Theorem positional_markers_are_reserved : forall i, is_positional_marker (arg_key i) = true.
Proof. exact arg_key_is_marker. Qed.
Print Assumptions positional_markers_are_reserved.
Theorem positional_markers_distinct : forall i j, arg_key i = arg_key j -> i = j.
Proof. exact arg_key_inj. Qed.
Print Assumptions positional_markers_distinct.

(* every compiled story: no parameter of any passage is named like a positional marker *)
Theorem compiled_parameter_names_not_reserved : forall pp is_call xs lines0 story,
  parse pp is_call xs lines0 = POk story -> story_params_unreserved story.
Proof. exact parse_ok_params_unreserved_lemma. Qed.
Print Assumptions compiled_parameter_names_not_reserved.

(* F07e: the keywords of a validated call (of a passage with parameters) are distinct, so the association list is
   the dict: the value the engine finds for a keyword is the value of the ONLY entry of that name *)
Theorem validated_call_keywords_distinct : forall pp is_call orc passages,
  shape_agrees pp orc ->
  forall tg args tp,
  validate_single_call pp is_call passages tg args = POk tt ->
  String.eqb tg "@join" = false -> lookup tg passages = Some tp ->
  forall ctx pos kws,
  params tp <> [] -> o_args orc ctx args = Ok (pos, kws) ->
  NoDup (map fst kws) /\ (forall k v, In (k, v) kws -> lookup k kws = Some v).
Proof. exact validated_call_keywords_distinct_lemma. Qed.
Print Assumptions validated_call_keywords_distinct.

(* the hypothesis of bind_is_python_call, derived: the dict built for a validated call of a signature without
   reserved names has the markers arg_0..arg_{k-1} of its k positional values and no other *)
Theorem validated_call_positional_prefix : forall pp is_call orc passages,
  shape_agrees pp orc ->
  forall tg args tp,
  validate_single_call pp is_call passages tg args = POk tt ->
  String.eqb tg "@join" = false -> lookup tg passages = Some tp ->
  forall ctx pos kws,
  params tp <> [] -> unreserved (map pname (params tp)) -> o_args orc ctx args = Ok (pos, kws) ->
  positional_prefix (args_dict pos kws) (List.length pos).
Proof. exact validated_call_positional_prefix_lemma. Qed.
Print Assumptions validated_call_positional_prefix.

(* one call site: sig_ok = distinct names, none reserved (every compiled story) *)
Theorem validated_call_binds_like_python : forall pp is_call orc passages,
  shape_agrees pp orc ->
  forall tg args tp,
  validate_single_call pp is_call passages tg args = POk tt ->
  String.eqb tg "@join" = false -> lookup tg passages = Some tp ->
  sig_ok (params tp) ->
  forall ctx pos kws,
  o_args orc ctx args = Ok (pos, kws) ->
  bind_arguments orc ctx (params tp) (args_dict pos kws) 0 [] = py_call orc ctx (params tp) pos kws /\
  bind_arguments orc ctx (params tp) (args_dict pos kws) 0 [] =
    py_bind orc ctx (params tp) (args_dict pos kws).
Proof. exact validated_call_binds_like_python_lemma. Qed.
Print Assumptions validated_call_binds_like_python.

(* ... for the dict goto really builds (empty for no / blank argument text) *)
Theorem validated_engine_dict_binds_like_python : forall pp is_call orc passages,
  shape_agrees pp orc ->
  forall tg args tp,
  validate_single_call pp is_call passages tg args = POk tt ->
  String.eqb tg "@join" = false -> lookup tg passages = Some tp ->
  forall ctx ad,
  sig_ok (params tp) -> engine_arg_dict orc ctx args = Ok ad ->
  exists pos kws, ad = args_dict pos kws /\
    bind_arguments orc ctx (params tp) ad 0 [] = py_call orc ctx (params tp) pos kws /\
    bind_arguments orc ctx (params tp) ad 0 [] = py_bind orc ctx (params tp) ad.
Proof. exact validated_engine_dict_binds_like_python_lemma. Qed.
Print Assumptions validated_engine_dict_binds_like_python.

(* why "no reserved name" is a hypothesis of the call-site theorems: T(a, arg_0=5) called as T(1) passes the validator,
   Python binds arg_0 = 5, the engine binds arg_0 = 1 (the minimal story of proposed_fixes/F07d) *)
Theorem unreserved_parameter_names_needed :
  validate_single_call one_arg_pp (fun _ => true) marker_sig_passages "T" "1" = POk tt /\
  shape_agrees one_arg_pp five_orc /\ NoDup (map pname marker_sig) /\
  bind_arguments five_orc [] marker_sig (args_dict [VInt 1] []) 0 [] =
    Ok [("a"%string, VInt 1); ("arg_0"%string, VInt 1)] /\
  py_call five_orc [] marker_sig [VInt 1] [] = Ok [("a"%string, VInt 1); ("arg_0"%string, VInt 5)].
Proof. exact unreserved_names_needed. Qed.
Print Assumptions unreserved_parameter_names_needed.

(* ---- every story the compiler returns (arbitrary extractors and oracles): NO side condition ---- *)

(* a jump token at any depth of any passage: if its argument text evaluates, the engine binds the target's
   parameters exactly as Python's call rule says *)
Theorem compiled_jump_site_binds_like_python : forall pp is_call xs lines0 story,
  parse pp is_call xs lines0 = POk story ->
  forall orc, shape_agrees pp orc ->
  forall pid p tg a, get_passage story pid = Some p -> passage_jump p tg a ->
  exists tp, get_passage story tg = Some tp /\
    forall ctx pos kws, o_args orc ctx a = Ok (pos, kws) ->
      bind_arguments orc ctx (params tp) (args_dict pos kws) 0 [] = py_call orc ctx (params tp) pos kws /\
      bind_arguments orc ctx (params tp) (args_dict pos kws) 0 [] =
        py_bind orc ctx (params tp) (args_dict pos kws).
Proof. exact parse_ok_jump_site_binds_like_python_lemma. Qed.
Print Assumptions compiled_jump_site_binds_like_python.

(* a choice offered in ANY state a history can reach, other than `-> @join` *)
Theorem compiled_offered_choice_binds_like_python : forall pp is_call xs lines0 story,
  parse pp is_call xs lines0 = POk story ->
  forall orc ctxkeys, shape_agrees pp orc ->
  forall e rc, reach orc ctxkeys story e -> In rc (o_choices (current_out e)) ->
  ch_target (rc_choice rc) <> "@join"%string ->
  exists tp, get_passage story (ch_target (rc_choice rc)) = Some tp /\
    forall ctx pos kws, o_args orc ctx (ch_args (rc_choice rc)) = Ok (pos, kws) ->
      bind_arguments orc ctx (params tp) (args_dict pos kws) 0 [] = py_call orc ctx (params tp) pos kws /\
      bind_arguments orc ctx (params tp) (args_dict pos kws) 0 [] =
        py_bind orc ctx (params tp) (args_dict pos kws).
Proof. exact parse_ok_offered_choice_binds_like_python_lemma. Qed.
Print Assumptions compiled_offered_choice_binds_like_python.

(* ... and its argument dict is a genuine dict with exactly the positional markers of its positional values *)
Theorem compiled_offered_choice_argument_dict : forall pp is_call xs lines0 story,
  parse pp is_call xs lines0 = POk story ->
  forall orc ctxkeys, shape_agrees pp orc ->
  forall e rc, reach orc ctxkeys story e -> In rc (o_choices (current_out e)) ->
  ch_target (rc_choice rc) <> "@join"%string ->
  exists tp, get_passage story (ch_target (rc_choice rc)) = Some tp /\
    forall ctx pos kws, params tp <> [] -> o_args orc ctx (ch_args (rc_choice rc)) = Ok (pos, kws) ->
      NoDup (map fst kws) /\ (forall k v, In (k, v) kws -> lookup k kws = Some v) /\
      positional_prefix (args_dict pos kws) (List.length pos).
Proof. exact parse_ok_offered_choice_dict_lemma. Qed.
Print Assumptions compiled_offered_choice_argument_dict.

(* ---------------------------------------------------------------------------------------- *)
(* non-vacuity: a signature T(p, q=p + 1), a table of argument strings that fills BOTH oracles (as the harness
   fills both from one ast.parse), and every kind of call shape *)
Local Open Scope string_scope.
Definition ex_table (a : string) : option (list value * list (string * value)) :=
  if String.eqb a "1, 2" then Some ([VInt 1; VInt 2], [])
  else if String.eqb a "1, q=5" then Some ([VInt 1], [("q", VInt 5)])
  else if String.eqb a "q=5, p=1" then Some ([], [("q", VInt 5); ("p", VInt 1)])
  else if String.eqb a "1" then Some ([VInt 1], [])
  else if String.eqb a "" then Some ([], [])
  else if String.eqb a "1, 2, 3" then Some ([VInt 1; VInt 2; VInt 3], [])
  else if String.eqb a "1, zz=3" then Some ([VInt 1], [("zz", VInt 3)])
  else if String.eqb a "1, p=2" then Some ([VInt 1], [("p", VInt 2)])
  else if String.eqb a "q=5" then Some ([], [("q", VInt 5)])
  else if String.eqb a "p=1, p=2" then Some ([], [("p", VInt 1); ("p", VInt 2)])
  else if String.eqb a "1, arg_0=2" then Some ([VInt 1], [("arg_0", VInt 2)])
  else None.
Definition ex_pp : pyparse :=
  mkPyparse (fun _ => true)
            (fun a => match ex_table a with Some (pos, kws) => Some (List.length pos, map fst kws) | None => None end)
            (fun _ => 0).
Definition ex_orc : pyorc :=
  mkOrc (fun ctx code => if String.eqb code "p + 1"
                         then match lookup "p" ctx with Some (VInt n) => Ok (VInt (n + 1)) | _ => Exc NameError end
                         else if String.eqb code "q"
                         then match lookup "q" ctx with Some x => Ok x | None => Exc NameError end
                         else Exc NameError)
        (fun e _ => Ok e) (fun _ _ => Exc ValueError)
        (fun _ a => match ex_table a with Some x => Ok x | None => Exc SyntaxError end).
Definition ex_T : passage := mkPassage "T" [mkParam "p" None; mkParam "q" (Some "p + 1")] [] [] [] [] [].
Definition ex_passages : list (string * passage) := [("T", ex_T)].
Definition ex_validate (a : string) : pres unit := validate_single_call ex_pp (fun _ => true) ex_passages "T" a.
Definition ex_bind (a : string) : res env :=
  match o_args ex_orc [] a with
  | Ok (pos, kws) => bind_arguments ex_orc [] (params ex_T) (args_dict pos kws) 0 []
  | Exc e => Exc e
  end.

Example ex_oracles_agree : shape_agrees ex_pp ex_orc /\ blank_shape ex_pp.
Proof.
  split.
  - intros ctx args pos kws H. simpl in *. destruct (ex_table args) as [[p k]|]; [|discriminate].
    inversion H; subst. reflexivity.
  - intros args n ks Hsp H. simpl in H. unfold ex_table in H.
    repeat match type of H with
           | context [String.eqb args ?lit] =>
               let E := fresh "E" in destruct (String.eqb args lit) eqn:E;
               [apply String.eqb_eq in E; subst args; try discriminate Hsp; inversion H; split; reflexivity|]
           end.
    discriminate.
Qed.
(* exact / by keyword / keywords only / default used: accepted, and bound as Python binds them *)
Example ex_exact : ex_validate "1, 2" = POk tt /\ ex_bind "1, 2" = Ok [("p", VInt 1); ("q", VInt 2)].
Proof. split; vm_compute; reflexivity. Qed.
Example ex_keyword : ex_validate "1, q=5" = POk tt /\ ex_bind "1, q=5" = Ok [("p", VInt 1); ("q", VInt 5)].
Proof. split; vm_compute; reflexivity. Qed.
Example ex_keywords_only : ex_validate "q=5, p=1" = POk tt /\ ex_bind "q=5, p=1" = Ok [("p", VInt 1); ("q", VInt 5)].
Proof. split; vm_compute; reflexivity. Qed.
Example ex_default_used : ex_validate "1" = POk tt /\ ex_bind "1" = Ok [("p", VInt 1); ("q", VInt 2)].
Proof. split; vm_compute; reflexivity. Qed.
(* too many / unknown keyword / positional and keyword / missing: rejected by the validator; the engine would have
   ignored the first three silently and raised on the fourth *)
Example ex_too_many : ex_validate "1, 2, 3" = PDiag (DSyntax "call:too-many-positional" 0) /\
                      ex_bind "1, 2, 3" = Ok [("p", VInt 1); ("q", VInt 2)].
Proof. split; vm_compute; reflexivity. Qed.
Example ex_unknown_keyword : ex_validate "1, zz=3" = PDiag (DSyntax "call:unknown-keyword" 0) /\
                             ex_bind "1, zz=3" = Ok [("p", VInt 1); ("q", VInt 2)].
Proof. split; vm_compute; reflexivity. Qed.
Example ex_duplicate : ex_validate "1, p=2" = PDiag (DSyntax "call:positional-and-keyword" 0) /\
                       ex_bind "1, p=2" = Ok [("p", VInt 1); ("q", VInt 2)].
Proof. split; vm_compute; reflexivity. Qed.
Example ex_missing : ex_validate "q=5" = PDiag (DSyntax "call:missing-required" 0) /\ ex_bind "q=5" = Exc ValueError.
Proof. split; vm_compute; reflexivity. Qed.
Example ex_missing_all : ex_validate "" = PDiag (DSyntax "call:missing-required" 0) /\ ex_bind "" = Exc ValueError.
Proof. split; vm_compute; reflexivity. Qed.

(* a repeated keyword (fix F07e): rejected as malformed arguments; the engine, given the call all the same (the host
   application's goto("T(p=1, p=2)")), binds the LAST value -- its argument dict is one dict (Engine.args_dict) *)
Example ex_repeated_keyword : ex_validate "p=1, p=2" = PDiag (DSyntax "call:malformed-arguments" 0) /\
                              ex_bind "p=1, p=2" = Ok [("p", VInt 2); ("q", VInt 3)].
Proof. split; vm_compute; reflexivity. Qed.
(* a keyword named like a positional marker: no parameter has such a name (fix F07d), so the validator refuses it as
   an unknown keyword; the engine, given goto("T(1, arg_0=2)"), overwrites the entry of the first positional value *)
Example ex_marker_keyword : ex_validate "1, arg_0=2" = PDiag (DSyntax "call:unknown-keyword" 0) /\
                            args_dict [VInt 1] [("arg_0", VInt 2)] = [("arg_0", VInt 2)] /\
                            ex_bind "1, arg_0=2" = Ok [("p", VInt 2); ("q", VInt 3)].
Proof. repeat split; vm_compute; reflexivity. Qed.
(* the accepted shapes bind as py_call says, read off the call itself *)
Example ex_py_call : py_call ex_orc [] (params ex_T) [VInt 1] [("q", VInt 5)] = ex_bind "1, q=5" /\
                     py_call ex_orc [] (params ex_T) [] [("q", VInt 5); ("p", VInt 1)] = ex_bind "q=5, p=1" /\
                     py_call ex_orc [] (params ex_T) [VInt 1] [] = ex_bind "1".
Proof. repeat split; vm_compute; reflexivity. Qed.
(* a header with a reserved parameter name (fix F07d) is refused; names that merely look similar are not *)
Example ex_reserved_header :
  parse_passage_params "a, arg_0=5" = PDiag (DSyntax "params:reserved-name" 0) /\
  parse_passage_params "arg_12" = PDiag (DSyntax "params:reserved-name" 0) /\
  parse_passage_params "arg_x, arg, my_arg_0, arg_0x, arg_, Arg_0" =
    POk [mkParam "arg_x" None; mkParam "arg" None; mkParam "my_arg_0" None; mkParam "arg_0x" None;
         mkParam "arg_" None; mkParam "Arg_0" None].
Proof. repeat split; vm_compute; reflexivity. Qed.
Example ex_reserved_story_rejected :
  parse ex_pp (fun _ => true) no_extractors [":: Start"; "hi"; "+ [Go] -> T(1)"; ""; ":: T(a, arg_0=5)"; "T {a} {arg_0}"] =
  PDiag (DSyntax "params:reserved-name" 4).
Proof. vm_compute. reflexivity. Qed.

(* the hypotheses of the history theorem are satisfiable: a compiled story with two call sites and a jump *)
Definition ex_lines : list string :=
  [":: Start"; "hi"; "+ [Go] -> T(1)"; "+ [Both] -> T(1, q=5)"; ""; ":: T(p, q=p + 1)"; "{q}"; "-> Start"].
Definition ex_nl : string := String (Ascii.ascii_of_nat 10) EmptyString.
Definition ex_story : story :=
  mkStory "Start"
    [("Start", mkPassage "Start" [] [TText "hi"; TText ex_nl]
                 [Choice [TText "Go"] "T" "1" None true 0 [] []; Choice [TText "Both"] "T" "1, q=5" None true 0 [] []]
                 [] [] []);
     ("T", mkPassage "T" [mkParam "p" None; mkParam "q" (Some "p + 1")]
             [TExpr "q"; TText ex_nl; TJump "Start" ""] [] [] [] [])] [] [].
Example ex_story_compiles : parse ex_pp (fun _ => true) no_extractors ex_lines = POk ex_story.
Proof. vm_compute. reflexivity. Qed.
Example ex_story_roundtrip : story_specs_roundtrip ex_story.
Proof.
  intros k p Hin. simpl in Hin. destruct Hin as [E|[E|[]]]; inversion E; subst; split.
  - intros c kd [[Hc _]|Hc]; simpl in Hc; [|contradiction].
    destruct Hc as [<-|[<-|[]]]; right; vm_compute; reflexivity.
  - intros tg a Hj. vm_compute in Hj. contradiction.
  - intros c kd [[Hc _]|Hc]; simpl in Hc; contradiction.
  - intros tg a Hj. vm_compute in Hj. destruct Hj as [E1|[]]. inversion E1; subst. vm_compute. reflexivity.
Qed.
Example ex_history_never_binds_structurally : forall dup missing ops,
  Forall (op_valid ex_orc ex_story) ops ->
  run_all_b ex_orc [] ex_story dup missing [] ops = run_all ex_orc [] ex_story [] ops.
Proof.
  intros dup missing ops H.
  exact (compiled_run_never_binds_structurally_partial _ _ _ _ _ ex_story_compiles ex_story_roundtrip ex_orc []
           (proj1 ex_oracles_agree) (proj2 ex_oracles_agree) dup missing [] ops H).
Qed.
(* ... and what that history shows: the default sees the earlier parameter, the keyword overrides it *)
Example ex_history_plays :
  map (fun ov => (fst ov, v_content (snd ov))) (run_all ex_orc [] ex_story [] [OpChoose 0; OpChoose 1]) =
  [(ObsOk, "hi" ++ ex_nl); (ObsOk, "2" ++ ex_nl ++ ex_nl ++ ex_nl ++ "hi" ++ ex_nl);
   (ObsOk, "5" ++ ex_nl ++ ex_nl ++ ex_nl ++ "hi" ++ ex_nl)].
Proof. vm_compute. reflexivity. Qed.

(* ------------------------------------------------------------------------------------------- *)
(* FULL for the real block parser (Proofs/CallBindReal.v): story_specs_roundtrip is a THEOREM of parse_real --
   every jump token and every choice the real extractors return, at any depth, went through
   extract_target_and_args, whose cut is the cut the engine's own parenthesis scan makes -- so the three
   `_partial` statements above hold for every compiled story without that hypothesis. *)
Theorem compiled_specs_roundtrip : forall pp is_call lines story,
  parse_real pp is_call lines = POk story -> story_specs_roundtrip story.
Proof. exact real_story_specs_roundtrip. Qed.
Print Assumptions compiled_specs_roundtrip.

Theorem compiled_step_never_binds_structurally : forall pp is_call lines story,
  parse_real pp is_call lines = POk story ->
  forall orc ctxkeys, shape_agrees pp orc -> blank_shape pp ->
  forall dup missing e o, reach orc ctxkeys story e -> op_valid orc story o ->
    step_b orc ctxkeys story dup missing e o = step orc ctxkeys story e o.
Proof. exact real_step_never_binds_structurally. Qed.
Print Assumptions compiled_step_never_binds_structurally.

Theorem compiled_played_never_binds_structurally : forall pp is_call lines story,
  parse_real pp is_call lines = POk story ->
  forall orc ctxkeys, shape_agrees pp orc -> blank_shape pp ->
  forall dup missing e slot o, played orc ctxkeys story e slot -> op_valid orc story o ->
    step_b orc ctxkeys story dup missing e o = step orc ctxkeys story e o.
Proof. exact real_played_never_binds_structurally. Qed.
Print Assumptions compiled_played_never_binds_structurally.

Theorem compiled_run_never_binds_structurally : forall pp is_call lines story,
  parse_real pp is_call lines = POk story ->
  forall orc ctxkeys, shape_agrees pp orc -> blank_shape pp ->
  forall dup missing v0 ops, Forall (op_valid orc story) ops ->
    run_all_b orc ctxkeys story dup missing v0 ops = run_all orc ctxkeys story v0 ops.
Proof. exact real_run_never_binds_structurally. Qed.
Print Assumptions compiled_run_never_binds_structurally.

Theorem extractor_tokens_are_balanced : xs_bal real_extractors.
Proof. exact real_extractors_bal. Qed.
Print Assumptions extractor_tokens_are_balanced.

Theorem balanced_extractor_tokens_needed :
  exists story,
    parse (mkPyparse (fun _ => true) (fun _ => Some (2, [])) (fun _ => 0)) (fun _ => true) bad_extractors
          [":: Start"; "@if x:"; ":: T(a, b)"; "hi"] = POk story /\
    ~ story_specs_roundtrip story.
Proof. exact balanced_extractors_needed. Qed.
Print Assumptions balanced_extractor_tokens_needed.

(* non-vacuity *)
Definition ex_block_lines : list string :=
  [":: Start"; "hi"; "@if go:"; "  + [In if] -> T(1)"; "  -> T(1, 2)"; "@endif";
   "@for i in items:"; "  + [In for] -> T(1, q=5)"; "  @if i:"; "    -> T(q=5, p=1)"; "  @endif"; "@endfor"; "";
   ":: T(p, q=p + 1)"; "{q}"; "-> Start"].
Definition ex_block_story : story :=
  match parse_real ex_pp (fun _ => true) ex_block_lines with POk s => s | _ => mkStory "" [] [] [] end.
Example ex_block_story_compiles : parse_real ex_pp (fun _ => true) ex_block_lines = POk ex_block_story.
Proof. vm_compute. reflexivity. Qed.
Example ex_block_story_sites :
  match get_passage ex_block_story "Start" with
  | Some p => content_jumps (content p) = [("T", "1, 2"); ("T", "q=5, p=1")] /\
              map (fun ck => (ch_target (fst ck), ch_args (fst ck))) (content_choices (content p)) =
                [("T", "1"); ("T", "1, q=5")]
  | None => False
  end.
Proof. vm_compute. split; reflexivity. Qed.
Example ex_block_history_never_binds_structurally : forall dup missing ops,
  Forall (op_valid ex_orc ex_block_story) ops ->
  run_all_b ex_orc [] ex_block_story dup missing [] ops = run_all ex_orc [] ex_block_story [] ops.
Proof.
  intros dup missing ops H.
  exact (compiled_run_never_binds_structurally _ _ _ _ ex_block_story_compiles ex_orc []
           (proj1 ex_oracles_agree) (proj2 ex_oracles_agree) dup missing [] ops H).
Qed.
Eval vm_compute in (match get_passage ex_block_story "Start" with Some p => content p | None => [] end).

