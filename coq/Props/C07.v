(* C07 — Passage parameters bind like Python calls, are local, and never leak or linger.
   Theorems (proofs: Proofs/EngineNav.v, Proofs/EngineUndo.v, Proofs/EngineParams.v): for every story and
   every author-code oracle. *)
From Coq Require Import String List Bool ZArith Arith.
From Bardic Require Import PyStr Value Compiled Engine EngineBase EngineNav EngineUndo EngineParams.
Import ListNotations.

(* the parameter scope ends when the navigation completes OR fails: the scope stack after any operation is
   the scope stack before it (this is the `finally`), for choose, goto, undo and redo *)
Theorem scope_balanced_choose : forall orc ctxkeys st e i,
  escopes (fst (choose orc ctxkeys st e i)) = escopes e.
Proof. exact choose_scopes. Qed.
Print Assumptions scope_balanced_choose.
Theorem scope_balanced_goto : forall orc ctxkeys st e spec,
  escopes (fst (goto_op orc ctxkeys st e spec)) = escopes e.
Proof. exact goto_op_scopes. Qed.
Print Assumptions scope_balanced_goto.
Theorem scope_balanced_undo_redo : forall e,
  escopes (fst (undo e)) = escopes e /\ escopes (fst (redo e)) = escopes e.
Proof. intros e. split; [apply undo_scopes|apply redo_scopes]. Qed.
Print Assumptions scope_balanced_undo_redo.

(* parameters never appear in or alter the global variables: what a statement or block writes back
   skips every parameter name, so a global with a parameter's name keeps its value and a parameter
   that is not a global does not become one *)
Theorem params_stay_local : forall ctxkeys ctx' v skip k,
  str_in k skip = true -> lookup k (sync_back ctxkeys ctx' v skip) = lookup k v.
Proof. exact sync_back_skips. Qed.
Print Assumptions params_stay_local.

(* ... and they shadow same-named globals in everything the passage evaluates *)
Theorem params_shadow_globals : forall v l sc k x,
  NoDup (keys l) -> lookup k l = Some x -> lookup k (eval_context v (l :: sc)) = Some x.
Proof. exact eval_context_local. Qed.
Print Assumptions params_shadow_globals.

(* binding follows Python's call rule (py_bind, Proofs/EngineParams.v): parameter number i takes positional
   argument i when there is one, else the keyword argument of its name, else its default evaluated with the
   earlier parameters visible, else ValueError.  positional_prefix: the positional arguments are arg_0..arg_{k-1},
   which is how _parse_directive_args numbers them. *)
Theorem bind_is_python_call : forall orc ctx0 ps ad k,
  positional_prefix ad k -> bind_arguments orc ctx0 ps ad 0 [] = py_bind orc ctx0 ps ad.
Proof. exact bind_arguments_spec. Qed.
Print Assumptions bind_is_python_call.
