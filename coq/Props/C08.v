(* C08 — Jumps act where they stand, chains concatenate in order, navigation terminates.
   Property theorems only (proofs: Proofs/EngineJump.v, Proofs/EngineNav.v); for every story, every
   author-code oracle and every state.  Navigation is the fuelled function goto_rec with
   fuel = number of passages + 1 (goto); the visited list is shared along the chain. *)
From Coq Require Import String Ascii List Bool ZArith Arith Lia.
From Bardic Require Import PyStr Value Compiled Engine EngineBase EngineNav EngineParams EngineSem EngineJump.
Import ListNotations.

(* Navigation terminates: the model is a total function, and its fuel is never what decides the outcome -
   any two fuels above (number of passages - passages already visited) give the same result, because the
   visited list has no duplicates and only holds defined passages (pigeonhole).  goto uses such a fuel. *)
Theorem goto_fuel_enough : forall orc ctxkeys st f1 f2 spec vis s,
  NoDup vis -> incl vis (keys (passages st)) ->
  List.length (passages st) < f1 + List.length vis ->
  List.length (passages st) < f2 + List.length vis ->
  goto_rec orc ctxkeys st f1 spec vis s = goto_rec orc ctxkeys st f2 spec vis s.
Proof. exact goto_fuel_irrelevant. Qed.
Print Assumptions goto_fuel_enough.

Theorem goto_uses_enough_fuel : forall orc ctxkeys st extra spec s,
  goto orc ctxkeys st spec s = goto_rec orc ctxkeys st (S (List.length (passages st)) + extra) spec [] s.
Proof.
  intros. unfold goto. apply goto_fuel_irrelevant; simpl; try lia.
  - constructor.
  - intros x [].
Qed.
Print Assumptions goto_uses_enough_fuel.

(* A jump transfers control where it is reached: everything after it in the passage is skipped (the result
   does not depend on what follows the jump - in particular only the first jump reached takes effect) ... *)
Theorem jump_acts_where_it_stands : forall orc ctxkeys target args pre post post' s,
  render_content orc ctxkeys (pre ++ TJump target args :: post) s =
  render_content orc ctxkeys (pre ++ TJump target args :: post') s.
Proof. exact jump_acts_where_it_stands_lemma. Qed.
Print Assumptions jump_acts_where_it_stands.

(* ... and text and directives before it are kept; the jump hands on its target with its arguments *)
Theorem jump_keeps_what_precedes : forall orc ctxkeys target args pre post s s1 txt ds,
  forallb (fun t => negb (is_marker t)) pre = true ->
  render_content orc ctxkeys pre s = (s1, Ok (txt, None, ds)) ->
  render_content orc ctxkeys (pre ++ TJump target args :: post) s
  = (s1, Ok (txt, Some (jump_spec target args), ds)).
Proof. exact jump_keeps_prefix_lemma. Qed.
Print Assumptions jump_keeps_what_precedes.

(* What is shown is the concatenation, in order, of every passage along the chain with the final passage's
   choices: a successful goto enters the passage, executes it, renders it, and if rendering reached a jump
   follows it and combines (chain_output: contents merged in order, render directives appended, choices and
   input directives of the continuation). *)
Theorem chain_concatenates : forall orc ctxkeys st f spec vis s s' o,
  goto_rec orc ctxkeys st (S f) spec vis s = (s', Ok o) ->
  exists pid args p s1 s3 s4 o1,
    parse_spec spec = Ok (pid, args) /\ get_passage st pid = Some p /\ str_in pid vis = false /\
    enter_scope orc p args s = (s1, Ok tt) /\
    execute_passage orc ctxkeys st pid (enter_state s1 pid) = (s3, Ok tt) /\
    render_passage orc ctxkeys st pid s3 = (s4, Ok o1) /\
    out (nc s') = Some o /\
    ((o_jump o1 = None /\ o = o1 /\ joinidx (nc s') = joinidx (nc s4) /\ log s' = log s4) \/
     (exists t jo s5, o_jump o1 = Some t /\
        goto_rec orc ctxkeys st f t (vis ++ [pid]) s4 = (s5, Ok jo) /\ o = chain_output o1 jo /\
        joinidx (nc s') = joinidx (nc s5) /\ log s' = log s5)).
Proof. exact goto_rec_inv. Qed.
Print Assumptions chain_concatenates.

Theorem chain_output_is_concatenation : forall o jo,
  o_content (chain_output o jo) = merge_content (o_content o) (o_content jo) /\
  o_choices (chain_output o jo) = o_choices jo /\ o_pid (chain_output o jo) = o_pid jo /\
  o_render (chain_output o jo) = o_render o ++ o_render jo /\ o_input (chain_output o jo) = o_input jo.
Proof. intros. repeat split. Qed.
Print Assumptions chain_output_is_concatenation.

(* A chain that comes back to a passage it already entered is reported (RuntimeError; ValueError only if the
   arguments of that last jump do not bind) instead of being followed, with the position, variables and the
   scope stack exactly as they were when the re-entry was attempted; the error propagates outwards unchanged
   (bind) and every enclosing parameter scope is popped (C07 scope_balanced), so the engine stays usable. *)
Theorem cycle_is_runtime_error : forall orc ctxkeys st f spec vis s pid args p,
  parse_spec spec = Ok (pid, args) -> get_passage st pid = Some p -> str_in pid vis = true ->
  exists s' e, goto_rec orc ctxkeys st (S f) spec vis s = (s', Exc e) /\
               (e = RuntimeError \/ e = ValueError) /\ scopes s' = scopes s /\ nc s' = nc s.
Proof. exact goto_rec_revisit. Qed.
Print Assumptions cycle_is_runtime_error.

Theorem usable_after_any_navigation : forall orc ctxkeys st e spec,
  escopes (fst (goto_op orc ctxkeys st e spec)) = escopes e /\
  undo_stack (fst (goto_op orc ctxkeys st e spec)) = undo_stack e /\
  redo_stack (fst (goto_op orc ctxkeys st e spec)) = redo_stack e.
Proof.
  intros. split; [apply goto_op_scopes|]. unfold goto_op, run_nav.
  destruct (goto orc ctxkeys st spec _); split; reflexivity.
Qed.
Print Assumptions usable_after_any_navigation.

(* non-vacuity: a two-passage cycle in a concrete story is reported as RuntimeError *)
Definition cyc_story : story :=
  mkStory "A" [("A"%string, mkPassage "A" [] [TText "a"; TJump "B" ""] [] [] [] []);
               ("B"%string, mkPassage "B" [] [TText "b"; TJump "A" ""] [] [] [] [])] [] [].
Definition no_orc : pyorc := mkOrc (fun _ _ => Exc NameError) (fun _ _ => Exc NameError)
                                   (fun _ _ => Exc ValueError) (fun _ _ => Exc SyntaxError).
Example cycle_example : snd (init no_orc [] cyc_story []) = Exc RuntimeError.
Proof. vm_compute. reflexivity. Qed.
