(* C09 — turn_end hooks run once per successful choice, in order, until unhooked.
   Property theorems only (proofs: Proofs/EngineHooks.v, Proofs/EngineSem.v).  They hold for every story and
   every author-code oracle.  `hook_runs lg` is the list of hooked passages run in the log segment lg
   (ghost log of the model); `active s` is the turn_end registration list in state s; `defined st p` says that
   passage p exists in the story (a hook on a missing passage is skipped, as in the implementation). *)
From Coq Require Import String Ascii List Bool ZArith Arith.
From Bardic Require Import PyStr Value Compiled Engine EngineBase EngineNav EngineParams EngineSem EngineHooks
     EngineUndo PyMini EngineCheck.
Import ListNotations.

(* after every successful ordinary choice: the navigation itself runs no hook, and then each hooked passage
   registered at that moment runs, in first-registered-first-run order ... *)
Theorem hooks_once_per_choice : forall orc ctxkeys st ch o s s' o',
  String.eqb (ch_target (rc_choice ch)) "@join" = false ->
  choose_nav orc ctxkeys st ch o s = (s', Ok o') ->
  exists s1 lg1 lg2,
    log s1 = log s ++ lg1 /\ hook_runs lg1 = [] /\
    log s' = log s1 ++ lg2 /\ hook_runs lg2 = filter (defined st) (active s1).
Proof. exact choose_nav_hooks. Qed.
Print Assumptions hooks_once_per_choice.

(* ... and "exactly once": in every reachable state no passage is registered twice for an event
   (registering twice has no additional effect), so the list run above has no duplicates *)
Theorem registrations_have_no_duplicates : forall orc ctxkeys st e,
  reach orc ctxkeys st e -> hooks_nodup (hooks (ec e)).
Proof. intros orc ctxkeys st e H. exact (proj1 (HInv_reach orc ctxkeys st e H)). Qed.
Print Assumptions registrations_have_no_duplicates.

Theorem register_idempotent : forall h ev p,
  register_hook (register_hook h ev p) ev p = register_hook h ev p.
Proof. exact register_idempotent_lemma. Qed.
Print Assumptions register_idempotent.

(* a new registration goes last: first registered, first run *)
Theorem register_is_fifo : forall h ev p l,
  lookup ev h = Some l -> str_in p l = false -> lookup ev (register_hook h ev p) = Some (l ++ [p]).
Proof. exact register_appends_last. Qed.
Print Assumptions register_is_fifo.

(* the turn_end run, also after an @join choice and in general: every hooked passage that is registered when
   the event fires and exists runs once, in order; the list is a snapshot taken when the event fires, so a hook
   that unhooks itself (or another) while running takes effect from the next turn on *)
Theorem turn_end_runs_registered_hooks : forall orc ctxkeys st o s s' o',
  after_hooks orc ctxkeys st o s = (s', Ok o') ->
  (exists lg, log s' = log s ++ lg /\ hook_runs lg = filter (defined st) (active s)) /\
  (exists h, o' = with_hook_output o h).
Proof. exact after_hooks_log. Qed.
Print Assumptions turn_end_runs_registered_hooks.

Theorem self_unhook_next_turn : forall orc ctxkeys st s,
  trigger_event orc ctxkeys st "turn_end" s =
  match lookup "turn_end" (hooks (nc s)) with
  | None => (s, Ok ""%string)
  | Some a => bind (run_hooks orc ctxkeys st a) (fun outs => ret (join (String "010"%char EmptyString) outs)) s
  end.
Proof. exact trigger_event_snapshot. Qed.
Print Assumptions self_unhook_next_turn.

(* unhooking removes that passage only: other events are untouched, and in its own event's list the others keep
   their places (the list splits as a ++ p :: b and becomes a ++ b) *)
Theorem unhook_only_that_one : forall h ev p l,
  lookup ev h = Some l ->
  lookup ev (unregister_hook h ev p) = Some (remove_first_str p l) /\
  (List.In p l -> exists a b, l = a ++ p :: b /\ ~ List.In p a /\ remove_first_str p l = a ++ b) /\
  (forall ev', String.eqb ev' ev = false -> lookup ev' (unregister_hook h ev p) = lookup ev' h).
Proof.
  intros h ev p l H. split; [apply unregister_this_event; exact H|]. split.
  - apply remove_first_split.
  - intros ev' Hne. apply unregister_other_event. exact Hne.
Qed.
Print Assumptions unhook_only_that_one.

(* never on direct navigation ... *)
Theorem no_hooks_on_goto : forall orc ctxkeys st spec s s' r,
  goto orc ctxkeys st spec s = (s', r) -> exists lg, log s' = log s ++ lg /\ hook_runs lg = [].
Proof. exact goto_no_hooks. Qed.
Print Assumptions no_hooks_on_goto.

(* ... nor on undo, redo, reset or read calls: they run nothing at all (the log is unchanged) *)
Theorem no_hooks_on_undo_redo_reads : forall orc ctxkeys st e,
  elog (fst (undo e)) = elog e /\ elog (fst (redo e)) = elog e /\
  elog (reset_one_time e) = elog e /\ fst (step orc ctxkeys st e OpRead) = e.
Proof.
  intros orc ctxkeys st e. repeat split.
  - unfold undo. destruct (undo_stack e); reflexivity.
  - unfold redo. destruct (redo_stack e); reflexivity.
Qed.
Print Assumptions no_hooks_on_undo_redo_reads.

(* ... nor on a load: in the model a load (into a fresh engine, OpReload; of the save slot into the same engine, OpLoad
   in EngineCheck.run_slot) installs a core and empties the stacks - the log, i.e. what has run, is untouched, and the
   hook registrations are those of the saved core (that the real load_state does the same is C05 and the tie) *)
Theorem no_hooks_on_load : forall orc ctxkeys st e,
  elog (fst (step orc ctxkeys st e OpReload)) = elog e /\
  hooks (ec (fst (step orc ctxkeys st e OpReload))) = hooks (ec e) /\
  fst (step orc ctxkeys st e OpSave) = e.
Proof. intros. repeat split. Qed.
Print Assumptions no_hooks_on_load.

(* hooks change neither the position, the used one-time choices, @join progress nor the scope stack *)
Theorem hooks_keep_position : forall orc ctxkeys st o s s' r,
  after_hooks orc ctxkeys st o s = (s', r) -> HFrame s s'.
Proof. exact after_hooks_frame. Qed.
Print Assumptions hooks_keep_position.

(* text a hook produces is appended after the turn's own text; nothing else of the output changes *)
Theorem hook_text_appended : forall o h,
  h <> ""%string ->
  o_content (with_hook_output o h) =
  (if String.eqb (o_content o) "" then h
   else (o_content o ++ String "010"%char (String "010"%char h))%string) /\
  o_choices (with_hook_output o h) = o_choices o /\ o_pid (with_hook_output o h) = o_pid o /\
  o_render (with_hook_output o h) = o_render o /\ o_input (with_hook_output o h) = o_input o.
Proof. exact with_hook_output_content. Qed.
Print Assumptions hook_text_appended.

(* non-vacuity *)
Example register_twice_example :
  register_hook (register_hook (register_hook [] "turn_end" "Clock") "turn_end" "Poison") "turn_end" "Clock"
  = [("turn_end"%string, ["Clock"%string; "Poison"%string])].
Proof. vm_compute. reflexivity. Qed.
Example unhook_middle_example :
  unregister_hook [("turn_end"%string, ["A"%string; "B"%string; "C"%string])] "turn_end" "B"
  = [("turn_end"%string, ["A"%string; "C"%string])].
Proof. vm_compute. reflexivity. Qed.
