(* placeholder, replaced by the real theorems *)
Theorem placeholder_C09 : True. Proof. exact I. Qed.
Print Assumptions placeholder_C09.
