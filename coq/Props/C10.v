(* C10 — @join passages advance one section per join choice and merge back correctly.
   Property theorems only (proofs: Proofs/EngineChoice.v, Proofs/EngineJump.v).  For every story, every
   author-code oracle and every state. *)
From Coq Require Import String Ascii List Bool ZArith Arith.
From Bardic Require Import PyStr Value Compiled Engine EngineBase EngineNav EngineParams EngineSem EngineJump
     EngineUndo EngineChoice.
Import ListNotations.

(* only the current section's choices are offered: every choice render_passage offers is a candidate of the
   passage whose section number is the passage's current @join progress (block choices count as section 0) *)
Theorem join_one_section_at_a_time : forall orc ctxkeys st pid s s' o,
  render_passage orc ctxkeys st pid s = (s', Ok o) ->
  exists p cds sec, get_passage st pid = Some p /\
    Forall (fun rc => exists dt fd, List.In (rc_choice rc, dt, fd) (passage_cands p cds) /\
                                    dir_section (rc_choice rc) fd = sec) (o_choices o) /\
    (exists s1, sec = match lookup pid (joinidx (nc s1)) with Some n => n | None => 0 end /\
                joinidx (nc s1) = joinidx (nc s)).
Proof. exact render_passage_section. Qed.
Print Assumptions join_one_section_at_a_time.

(* taking a '-> @join' choice stays in the passage, shows that choice's own block (rendered exactly once, so its
   statements are applied once) followed by the text between the current marker and the next one, offers the
   next section's choices, and advances the progress by exactly one; hook text, if any, comes last *)
Theorem join_choice_advances : forall orc ctxkeys st c s s' o,
  execute_join_choice orc ctxkeys st c s = (s', Ok o) ->
  let pid := match cur (nc s) with Some p => p | None => ""%string end in
  let idx := match lookup pid (joinidx (nc s)) with Some n => n | None => 0 end in
  lookup pid (joinidx (nc s')) = Some (S idx) /\ cur (nc s') = cur (nc s) /\
  exists btxt bds s1 post s2 h,
    (match ch_block (rc_choice c) with
     | [] => btxt = ""%string /\ bds = [] /\ s1 = s
     | blk => exists j, render_content orc ctxkeys blk s = (s1, Ok (btxt, j, bds))
     end) /\
    render_from_join_marker orc ctxkeys st pid idx s1 = (s2, Ok post) /\
    o_choices o = o_choices post /\ o_pid o = pid /\
    o_content o = o_content (with_hook_output
      (mkOut (if String.eqb (o_content post) "" then btxt
              else if negb (String.eqb btxt "") && negb (ends_with_newline btxt)
                   then (btxt ++ String "010"%char (o_content post))%string
                   else (btxt ++ o_content post)%string) [] "" [] [] None) h).
Proof. exact execute_join_choice_advances. Qed.
Print Assumptions join_choice_advances.

(* an ordinary choice leaves the passage: it is a navigation to its target (C02 chosen_target_is_entered) *)
Theorem ordinary_choice_leaves : forall orc ctxkeys st ch o,
  ch_sticky (rc_choice ch) = true -> String.eqb (ch_target (rc_choice ch)) "@join" = false ->
  forall s, choose_nav orc ctxkeys st ch o s =
            bind (goto orc ctxkeys st (jump_spec (ch_target (rc_choice ch)) (ch_args (rc_choice ch))))
                 (after_hooks orc ctxkeys st) s.
Proof. intros orc ctxkeys st ch o Hs Hj s. unfold choose_nav. rewrite Hs, Hj. reflexivity. Qed.
Print Assumptions ordinary_choice_leaves.

(* progress restarts whenever the passage is entered again - by a choice, through a jump chain or by direct
   navigation: after any successful goto the passage that is shown is at its first section *)
Theorem reentry_restarts : forall orc ctxkeys st f spec vis s s' o,
  goto_rec orc ctxkeys st f spec vis s = (s', Ok o) -> lookup (o_pid o) (joinidx (nc s')) = Some 0.
Proof. exact goto_rec_join_reset. Qed.
Print Assumptions reentry_restarts.

(* non-vacuity: a passage with one marker; taking the join choice advances to section 1 and shows block + tail *)
Definition join_story : story :=
  mkStory "J" [("J"%string,
     mkPassage "J" [] [TText "intro"; TJoinMarker 0; TText "tail"]
       [Choice [TText "a"] "@join" "" None true 0 [] [TText "block "];
        Choice [TText "leave"] "J" "" None true 1 [] []] [] [] [])] [] [].
Definition ok_orc : pyorc := mkOrc (fun _ _ => Ok VNone) (fun c _ => Ok c)
                                   (fun _ _ => Ok ""%string) (fun _ _ => Ok ([], [])).
Example join_example :
  let e0 := fst (init ok_orc [] join_story []) in
  let e1 := fst (choose ok_orc [] join_story e0 0) in
  (o_content (current_out e0), map rc_text (o_choices (current_out e0)),
   o_content (current_out e1), map rc_text (o_choices (current_out e1)), joinidx (ec e1))
  = ("intro"%string, ["a"%string], ("block " ++ String "010"%char "tail")%string, ["leave"%string],
     [("J"%string, 1)]).
Proof. vm_compute. reflexivity. Qed.
