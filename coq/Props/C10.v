(* C10 — @join passages advance one section per join choice and merge back correctly.
   Property theorems only (proofs: Proofs/EngineChoice.v, Proofs/EngineJump.v, Proofs/EngineJoin.v).  For every
   story, every author-code oracle and every state.

   Sections, progress, re-entry:       join_one_section_at_a_time, join_choice_advances, ordinary_choice_leaves,
                                       reentry_restarts
   What a join choice shows:           join_choice_output (block text ++ text between marker k and marker k+1
                                       [++ hook text]), between_markers_next / _to_the_end / _absent
   What it runs:                       join_choice_is_block_then_section_then_hooks (the state transformer, an
                                       equation), join_choice_log (nothing else is logged, no passage entered,
                                       position kept), join_block_statements_once (straight-line blocks: the log)
   Only its own block:                 join_only_own_block
   What it offers:                     join_choice_offers_next_section (+ _no_block_choices, the special case),
                                       join_offers_block_choices_demo
   As an engine operation:             join_choice_as_engine_operation (restore point, redo, one-time mark, undo)
   Shapes outside the property's text: join_choice_without_marker, join_choice_after_last_marker_raises

   CHANGED with /repo 310398c (fix F10d, /verif/proposed_fixes/F10d-join-section-block-choices.diff):
   _render_from_join_marker now splits the directives of the section text like _render_passage does and offers
   [passage-level choices of section k+1] ++ [the block choices the section text just produced].  The model
   (Engine.v render_from_join_marker) follows, therefore
   * join_choice_offers_next_section now says: the offered choices are filter_choices of
     join_cands p (k+1) (dir_choices pds) = section-(k+1) passage-level candidates ++ block choices of the
     between-markers rendering pds (before: of the passage-level candidates only).  Its membership clause became a
     disjunction (passage-level choice of section k+1, or a DChoice directive of pds), the closed formula under
     purity got the second summand for the block choices.  The old statement is kept as the special case
     join_choice_offers_next_section_no_block_choices (dir_choices pds = []).
   * join_choice_output / join_choice_log / join_choice_is_block_then_section_then_hooks: the result now carries
     dir_renders pds as render directives (after those of the block) and dir_inputs pds as input directives
     (before: every directive of pds as a render directive, and no input directive).
   * join_drops_block_choices_refuted (the witness of the defect) is gone; join_offers_block_choices_demo shows the
     minimal story of the patch header now offering ['Cond'], and choosing it going to End. *)
From Coq Require Import String Ascii List Bool ZArith Arith.
From Bardic Require Import PyStr Value Compiled Engine EngineBase EngineNav EngineParams EngineSem EngineJump
     EngineUndo EngineHooks EngineChoice EngineJoin.
Import ListNotations.

(* only the current section's choices are offered: every choice render_passage offers is a candidate of the
   passage whose section number is the passage's current @join progress (block choices count as section 0) *)
Theorem join_one_section_at_a_time : forall orc ctxkeys st pid s s' o,
  render_passage orc ctxkeys st pid s = (s', Ok o) ->
  exists p cds sec, get_passage st pid = Some p /\
    Forall (fun rc => exists dt fd, List.In (rc_choice rc, dt, fd) (passage_cands p cds) /\
                                    dir_section (rc_choice rc) fd = sec) (o_choices o) /\
    (exists s1, sec = match lookup pid (joinidx (nc s1)) with Some n => n | None => 0 end /\
                joinidx (nc s1) = joinidx (nc s)).
Proof. exact render_passage_section. Qed.
Print Assumptions join_one_section_at_a_time.

(* taking a '-> @join' choice stays in the passage, shows that choice's own block (rendered exactly once, so its
   statements are applied once) followed by the text between the current marker and the next one, offers the
   next section's choices, and advances the progress by exactly one; hook text, if any, comes last *)
Theorem join_choice_advances : forall orc ctxkeys st c s s' o,
  execute_join_choice orc ctxkeys st c s = (s', Ok o) ->
  let pid := match cur (nc s) with Some p => p | None => ""%string end in
  let idx := match lookup pid (joinidx (nc s)) with Some n => n | None => 0 end in
  lookup pid (joinidx (nc s')) = Some (S idx) /\ cur (nc s') = cur (nc s) /\
  exists btxt bds s1 post s2 h,
    (match ch_block (rc_choice c) with
     | [] => btxt = ""%string /\ bds = [] /\ s1 = s
     | blk => exists j, render_content orc ctxkeys blk s = (s1, Ok (btxt, j, bds))
     end) /\
    render_from_join_marker orc ctxkeys st pid idx s1 = (s2, Ok post) /\
    o_choices o = o_choices post /\ o_pid o = pid /\
    o_content o = o_content (with_hook_output
      (mkOut (if String.eqb (o_content post) "" then btxt
              else if negb (String.eqb btxt "") && negb (ends_with_newline btxt)
                   then (btxt ++ String "010"%char (o_content post))%string
                   else (btxt ++ o_content post)%string) [] "" [] [] None) h).
Proof. exact execute_join_choice_advances. Qed.
Print Assumptions join_choice_advances.

(* an ordinary choice leaves the passage: it is a navigation to its target (C02 chosen_target_is_entered) *)
Theorem ordinary_choice_leaves : forall orc ctxkeys st ch o,
  ch_sticky (rc_choice ch) = true -> String.eqb (ch_target (rc_choice ch)) "@join" = false ->
  forall s, choose_nav orc ctxkeys st ch o s =
            bind (goto orc ctxkeys st (jump_spec (ch_target (rc_choice ch)) (ch_args (rc_choice ch))))
                 (after_hooks orc ctxkeys st) s.
Proof. intros orc ctxkeys st ch o Hs Hj s. unfold choose_nav. rewrite Hs, Hj. reflexivity. Qed.
Print Assumptions ordinary_choice_leaves.

(* progress restarts whenever the passage is entered again - by a choice, through a jump chain or by direct
   navigation: after any successful goto the passage that is shown is at its first section *)
Theorem reentry_restarts : forall orc ctxkeys st f spec vis s s' o,
  goto_rec orc ctxkeys st f spec vis s = (s', Ok o) -> lookup (o_pid o) (joinidx (nc s')) = Some 0.
Proof. exact goto_rec_join_reset. Qed.
Print Assumptions reentry_restarts.

(* ---------------------------------------------------------------------------------------------------- *)
(* the tokens strictly between marker k and marker k+1 of a content list (markers counted from 0):
   pre holds exactly k markers, then comes marker k, then the marker-free mid, then the next marker ... *)
Theorem between_markers_next : forall pre k i mid i' rest,
  count_markers pre = k -> no_marker mid ->
  between_markers k (pre ++ TJoinMarker i :: mid ++ TJoinMarker i' :: rest) = mid.
Proof. exact EngineJoin.between_markers_next. Qed.
Print Assumptions between_markers_next.

(* ... or nothing: when there is no marker k+1 the text runs to the end of the content *)
Theorem between_markers_to_the_end : forall pre k i mid,
  count_markers pre = k -> no_marker mid -> between_markers k (pre ++ TJoinMarker i :: mid) = mid.
Proof. exact between_markers_last. Qed.
Print Assumptions between_markers_to_the_end.

Theorem between_markers_absent : forall l k, count_markers l <= k -> between_markers k l = [].
Proof. exact EngineJoin.between_markers_absent. Qed.
Print Assumptions between_markers_absent.

(* what a successful join choice returns, when the passage has a marker for the section the player is in
   (k = cur_section s): the text of ONE rendering of the chosen choice's block, started in the state before the
   choice, then the text of ONE rendering of the tokens between marker k and marker k+1, started where the block
   ended (a newline is put between the two when the block text does not end with one: join_content), then the
   turn_end hook text if any.  The directives of the block are handed on as render directives, followed by the
   render directives of the section text; the @input directives of the section text are reported as input
   directives (its choice directives are offered: join_choice_offers_next_section); a jump met in the section text
   is reported, and current() afterwards is this result. *)
Theorem join_choice_output : forall orc ctxkeys st c s s' o p,
  get_passage st (cur_pid s) = Some p -> cur_section s < count_markers (content p) ->
  execute_join_choice orc ctxkeys st c s = (s', Ok o) ->
  exists btxt jb bds s1 ptxt j pds s2 h,
    render_content orc ctxkeys (ch_block (rc_choice c)) s = (s1, Ok (btxt, jb, bds)) /\
    render_content orc ctxkeys (between_markers (cur_section s) (content p)) s1 = (s2, Ok (ptxt, j, pds)) /\
    o_content o = o_content (with_hook_output (mkOut (join_content btxt ptxt) [] "" [] [] None) h) /\
    o_pid o = cur_pid s /\ o_render o = map dir_as_render bds ++ dir_renders pds /\
    o_input o = dir_inputs pds /\ o_jump o = j /\ out (nc s') = Some o.
Proof. exact EngineJoin.join_choice_output. Qed.
Print Assumptions join_choice_output.

(* the usual case (the compiler ends every block line with a newline token): plain concatenation *)
Theorem join_content_is_concatenation : forall btxt ptxt,
  ends_with_newline btxt = true -> join_content btxt ptxt = (btxt ++ ptxt)%string.
Proof. exact join_content_newline. Qed.
Print Assumptions join_content_is_concatenation.

(* the state transformer of a join choice, as an equation (so it also covers every failing run): render the block
   once; render the section text once and filter the next section's passage-level choices followed by the block
   choices that rendering produced (section_render); advance
   the counter; cache the result; run the turn_end hooks.  Nothing else: join_turn mentions no other block, no
   passage is executed, the position is not assigned. *)
Theorem join_choice_is_block_then_section_then_hooks : forall orc ctxkeys st c s p,
  get_passage st (cur_pid s) = Some p ->
  execute_join_choice orc ctxkeys st c s =
  bind (join_turn orc ctxkeys p (cur_pid s) c)
       (fun r => bind (set_out r) (fun _ => after_hooks orc ctxkeys st r)) s.
Proof. exact execute_join_choice_turn. Qed.
Print Assumptions join_choice_is_block_then_section_then_hooks.

(* the same in terms of the ghost log: what the turn appends is the log of the one block rendering (lb), of the one
   section rendering (lm), of the choice texts (lc) and of the hooks (lh); before the hooks no passage is entered
   and no hook runs; the hooks are exactly those registered when they fire (C09); the position never changes *)
Theorem join_choice_log : forall orc ctxkeys st c s s' o,
  execute_join_choice orc ctxkeys st c s = (s', Ok o) ->
  exists p btxt jb bds s1 toks ptxt j pds s2 chs s3 lb lm lc lh,
    get_passage st (cur_pid s) = Some p /\
    render_content orc ctxkeys (ch_block (rc_choice c)) s = (s1, Ok (btxt, jb, bds)) /\
    join_tokens p (cur_section s) = Ok toks /\
    render_content orc ctxkeys toks s1 = (s2, Ok (ptxt, j, pds)) /\
    filter_choices orc ctxkeys (join_cands p (S (cur_section s)) (dir_choices pds)) 0 s2 = (s3, Ok chs) /\
    log s1 = log s ++ lb /\ log s2 = log s1 ++ lm /\ log s3 = log s2 ++ lc /\
    log s' = log s ++ lb ++ lm ++ lc ++ lh /\
    List.Forall low_event (lb ++ lm ++ lc) /\ entered (lb ++ lm ++ lc) = [] /\ hook_runs (lb ++ lm ++ lc) = [] /\
    hook_runs lh = filter (defined st) (active s3) /\
    cur (nc s1) = cur (nc s) /\ cur (nc s2) = cur (nc s) /\ cur (nc s3) = cur (nc s) /\ cur (nc s') = cur (nc s).
Proof. exact EngineJoin.join_choice_log. Qed.
Print Assumptions join_choice_log.

(* "applying its statements once", literally: when the block and the section text are straight-line (text,
   {expr}, ~ statements, @py blocks, hook commands, directives) and choice texts are the compiler's pure tokens, the
   turn logs every statement of the block exactly once in source order, then those of the section text, then the
   hooks - and nothing else *)
Theorem join_block_statements_once : forall orc ctxkeys st c s s' o p,
  get_passage st (cur_pid s) = Some p -> cur_section s < count_markers (content p) ->
  forallb flat_tok (ch_block (rc_choice c)) = true ->
  forallb flat_tok (between_markers (cur_section s) (content p)) = true ->
  List.Forall pure_choice (choices p) ->
  execute_join_choice orc ctxkeys st c s = (s', Ok o) ->
  exists r1 s1 r2 s2 lh,
    render_content orc ctxkeys (ch_block (rc_choice c)) s = (s1, Ok r1) /\
    render_content orc ctxkeys (between_markers (cur_section s) (content p)) s1 = (s2, Ok r2) /\
    log s' = log s ++ cmd_events (ch_block (rc_choice c))
                   ++ cmd_events (between_markers (cur_section s) (content p)) ++ lh /\
    hook_runs lh = filter (defined st) (active s2).
Proof. exact join_choice_log_flat. Qed.
Print Assumptions join_block_statements_once.

(* only that block: replace the blocks of the passage's choices by anything (p' has the same content and the same
   choices up to their blocks) - the state after the turn is the same and so is the result, up to the block fields
   carried inside the offered choice records *)
Theorem join_only_own_block : forall orc ctxkeys p p' pid c s,
  content p = content p' -> map erase_block (choices p) = map erase_block (choices p') ->
  fst (join_turn orc ctxkeys p pid c s) = fst (join_turn orc ctxkeys p' pid c s) /\
  res_map erase_out (snd (join_turn orc ctxkeys p pid c s)) =
  res_map erase_out (snd (join_turn orc ctxkeys p' pid c s)).
Proof. exact join_turn_other_blocks. Qed.
Print Assumptions join_only_own_block.

(* what is offered afterwards: exactly filter_choices (run without a section test: flag true / section 0) of
   join_cands p (k+1) (dir_choices pds) = the passage-level choices written in section k+1 followed by the block
   choices (@if / @for) that the rendering pds of the text between marker k and marker k+1 produced.  So every
   offered choice is a passage-level choice of section k+1 or a choice directive of that rendering, and for the
   compiler's pure choice texts the offer is: the enabled passage-level choices of section k+1 (the formula of C02
   offered_exactly_enabled) ++ the enabled block choices; k+1 is the passage's new progress *)
Theorem join_choice_offers_next_section : forall orc ctxkeys st c s s' o,
  execute_join_choice orc ctxkeys st c s = (s', Ok o) ->
  exists p btxt jb bds s1 toks ptxt j pds s2 s3,
    get_passage st (cur_pid s) = Some p /\
    render_content orc ctxkeys (ch_block (rc_choice c)) s = (s1, Ok (btxt, jb, bds)) /\
    join_tokens p (cur_section s) = Ok toks /\
    render_content orc ctxkeys toks s1 = (s2, Ok (ptxt, j, pds)) /\
    filter_choices orc ctxkeys (join_cands p (S (cur_section s)) (dir_choices pds)) 0 s2
      = (s3, Ok (o_choices o)) /\
    lookup (cur_pid s) (joinidx (nc s')) = Some (S (cur_section s)) /\
    List.Forall (fun rc => (List.In (rc_choice rc) (choices p) /\ ch_section (rc_choice rc) = S (cur_section s)) \/
                           (exists t, List.In (DChoice (rc_choice rc) t) pds)) (o_choices o) /\
    (List.Forall pure_choice (choices p) -> List.Forall (fun ct => pure_choice (fst ct)) (dir_choices pds) ->
     s3 = s2 /\
     o_choices o = (map (shown orc ctxkeys s2)
                        (filter (keep orc ctxkeys s2 (S (cur_section s))) (passage_cands p [])) ++
                    map (shown orc ctxkeys s2)
                        (filter (keep orc ctxkeys s2 0) (block_cands (dir_choices pds))))%list).
Proof. exact join_choice_offers. Qed.
Print Assumptions join_choice_offers_next_section.

(* a block candidate passes that loop exactly when it is enabled (no section test) *)
Theorem join_block_choice_kept_iff_enabled : forall orc ctxkeys s c t,
  keep orc ctxkeys s 0 (c, t, true) = enabled orc ctxkeys s c t.
Proof. exact keep_block_cand. Qed.
Print Assumptions join_block_choice_kept_iff_enabled.

(* the statement as it was before the fix, now the special case of a section text that produces no block choice:
   exactly the passage-level choices of section k+1, so the invariant of join_one_section_at_a_time holds again *)
Theorem join_choice_offers_next_section_no_block_choices : forall orc ctxkeys st c s s' o,
  execute_join_choice orc ctxkeys st c s = (s', Ok o) ->
  exists p s1 toks ptxt j pds s2,
    get_passage st (cur_pid s) = Some p /\
    join_tokens p (cur_section s) = Ok toks /\
    render_content orc ctxkeys toks s1 = (s2, Ok (ptxt, j, pds)) /\
    (dir_choices pds = [] ->
     List.Forall (fun rc => List.In (rc_choice rc) (choices p) /\ ch_section (rc_choice rc) = S (cur_section s))
                 (o_choices o) /\
     (List.Forall pure_choice (choices p) ->
      o_choices o = map (shown orc ctxkeys s2)
                        (filter (keep orc ctxkeys s2 (S (cur_section s))) (passage_cands p [])))).
Proof. exact join_choice_offers_no_block_choices. Qed.
Print Assumptions join_choice_offers_next_section_no_block_choices.

(* choose(i) on a '-> @join' choice as an engine operation: exactly one restore point is pushed and redo is cleared
   like for any choice (C04), a one-time join choice is marked used (C02), undo brings the whole core back (progress,
   variables, marks); when the turn succeeds the player has not moved, the progress went up by exactly one and
   current() is the returned result *)
Theorem join_choice_as_engine_operation : forall orc ctxkeys st e i ch,
  valid_index e i -> nth_error (o_choices (current_out e)) (Z.to_nat i) = Some ch ->
  ch_target (rc_choice ch) = "@join"%string ->
  let e' := fst (choose orc ctxkeys st e i) in
  let pid := match cur (ec e) with Some p => p | None => ""%string end in
  let idx := match lookup pid (joinidx (ec e)) with Some n => n | None => 0 end in
  undo_stack e' = push50 (ec e) (undo_stack e) /\ redo_stack e' = [] /\ escopes e' = escopes e /\
  used (ec e') = (if ch_sticky (rc_choice ch) then used (ec e)
                  else add_used (choice_id (o_pid (current_out e)) (rc_text ch) "@join") (used (ec e))) /\
  ec (fst (undo e')) = ec e /\
  (forall o, snd (choose orc ctxkeys st e i) = Ok o ->
     cur (ec e') = cur (ec e) /\ lookup pid (joinidx (ec e')) = Some (S idx) /\ out (ec e') = Some o).
Proof. exact choose_join_engine. Qed.
Print Assumptions join_choice_as_engine_operation.

(* Two shapes the property's text does not speak about ("a passage divided by @join markers"); the model follows
   the code.  (a) a '-> @join' choice in a passage without any marker: the whole content is rendered a second time
   after the block; (b) a '-> @join' choice written after the last marker: the block is rendered (its statements
   are applied) and then RuntimeError is raised. *)
Theorem join_choice_without_marker : forall orc ctxkeys st c s s' o p,
  get_passage st (cur_pid s) = Some p -> count_markers (content p) = 0 ->
  execute_join_choice orc ctxkeys st c s = (s', Ok o) ->
  cur_section s = 0 /\
  exists btxt jb bds s1 ptxt j pds s2 h,
    render_content orc ctxkeys (ch_block (rc_choice c)) s = (s1, Ok (btxt, jb, bds)) /\
    render_content orc ctxkeys (content p) s1 = (s2, Ok (ptxt, j, pds)) /\
    o_content o = o_content (with_hook_output (mkOut (join_content btxt ptxt) [] "" [] [] None) h).
Proof. exact EngineJoin.join_choice_without_marker. Qed.
Print Assumptions join_choice_without_marker.

Theorem join_choice_after_last_marker_raises : forall orc ctxkeys st c s p s1 r,
  get_passage st (cur_pid s) = Some p ->
  count_markers (content p) <= cur_section s -> 0 < cur_section s ->
  render_content orc ctxkeys (ch_block (rc_choice c)) s = (s1, Ok r) ->
  execute_join_choice orc ctxkeys st c s = (s1, Exc RuntimeError).
Proof. exact join_choice_after_last_marker. Qed.
Print Assumptions join_choice_after_last_marker_raises.

(* non-vacuity: a passage with one marker; taking the join choice advances to section 1 and shows block + tail *)
Definition join_story : story :=
  mkStory "J" [("J"%string,
     mkPassage "J" [] [TText "intro"; TJoinMarker 0; TText "tail"]
       [Choice [TText "a"] "@join" "" None true 0 [] [TText "block "];
        Choice [TText "leave"] "J" "" None true 1 [] []] [] [] [])] [] [].
Definition ok_orc : pyorc := mkOrc (fun _ _ => Ok VNone) (fun c _ => Ok c)
                                   (fun _ _ => Ok ""%string) (fun _ _ => Ok ([], [])).
Example join_example :
  let e0 := fst (init ok_orc [] join_story []) in
  let e1 := fst (choose ok_orc [] join_story e0 0) in
  (o_content (current_out e0), map rc_text (o_choices (current_out e0)),
   o_content (current_out e1), map rc_text (o_choices (current_out e1)), joinidx (ec e1))
  = ("intro"%string, ["a"%string], ("block " ++ String "010"%char "tail")%string, ["leave"%string],
     [("J"%string, 1)]).
Proof. vm_compute. reflexivity. Qed.

(* ---------------------------------------------------------------------------------------------------- *)
(* non-vacuity for the theorems above: two markers, three sections, join choices whose blocks hold a statement and
   text (the block of B does not end with a newline), an ordinary choice, a way back in.  The oracle runs
   "x=0" and "x+=n" and reads variables. *)
Definition add_x (n : Z) (c : env) : res env :=
  match lookup "x"%string c with
  | Some (VInt z) => Ok (set_key "x"%string (VInt (z + n)) c)
  | _ => Exc NameError
  end.
Definition demo_orc : pyorc :=
  mkOrc (fun ctx c => if String.eqb c "yes" then Ok (VBool true) else
                      match lookup c ctx with Some v => Ok v | None => Exc NameError end)
        (fun c code => if String.eqb code "x=0" then Ok (set_key "x"%string (VInt 0) c)
                       else if String.eqb code "x+=1" then add_x 1 c
                       else if String.eqb code "x+=10" then add_x 10 c
                       else if String.eqb code "x+=100" then add_x 100 c
                       else Exc SyntaxError)
        (fun _ _ => Ok ""%string) (fun _ _ => Ok ([], [])).
Definition nl : string := String "010"%char EmptyString.
Definition demo_content : list token :=
  [TText "intro"; TText nl; TJoinMarker 0; TText "mid x="; TExpr "x"; TText nl; TJoinMarker 1;
   TText "tail x="; TExpr "x"; TText nl].
Definition demo_passage : passage :=
  mkPassage "J" [] demo_content
    [Choice [TText "A"] "@join" "" None true 0 [] [TPyStmt "x+=1"; TText "Block A"; TText nl];
     Choice [TText "A2"] "@join" "" None false 0 [] [TPyStmt "x+=10"; TText "Block A2"; TText nl];
     Choice [TText "Leave"] "End" "" None true 0 [] [];
     Choice [TText "B"] "@join" "" None true 1 [] [TPyStmt "x+=100"; TText "Block B"];
     Choice [TText "C"] "End" "" None true 2 [] []]
    [TPyStmt "x=0"] [] [].
Definition demo_story : story :=
  mkStory "J" [("J"%string, demo_passage);
               ("End"%string, mkPassage "End" [] [TText "end"] [Choice [TText "Back"] "J" "" None true 0 [] []] [] [] [])]
          [] [].

Example between_markers_demo :
  between_markers 0 demo_content = [TText "mid x="; TExpr "x"; TText nl] /\
  between_markers 1 demo_content = [TText "tail x="; TExpr "x"; TText nl] /\
  between_markers 2 demo_content = [] /\ count_markers demo_content = 2.
Proof. repeat split. Qed.

Definition view (e : estate) :=
  (o_content (current_out e), map rc_text (o_choices (current_out e)), lookup "x"%string (vars (ec e)),
   joinidx (ec e), cur (ec e)).
Definition stmt_count (code : string) (e : estate) : nat :=
  List.length (filter (fun ev => match ev with EvStmt c => String.eqb c code | _ => false end) (elog e)).

Example join_walk :
  let e0 := fst (init demo_orc [] demo_story []) in
  let e1 := fst (choose demo_orc [] demo_story e0 0) in      (* A: block "x+=1", then the text after marker 0 *)
  let e2 := fst (choose demo_orc [] demo_story e1 0) in      (* B: block "x+=100", then the text after marker 1 *)
  let e3 := fst (choose demo_orc [] demo_story e2 0) in      (* C: an ordinary choice leaves *)
  let e4 := fst (choose demo_orc [] demo_story e3 0) in      (* Back: the passage starts again *)
  view e0 = (("intro" ++ nl)%string, ["A"; "A2"; "Leave"]%string, Some (VInt 0), [("J"%string, 0)], Some "J"%string) /\
  view e1 = (("Block A" ++ nl ++ "mid x=1" ++ nl)%string, ["B"%string], Some (VInt 1), [("J"%string, 1)], Some "J"%string) /\
  view e2 = (("Block B" ++ nl ++ "tail x=101" ++ nl)%string, ["C"%string], Some (VInt 101), [("J"%string, 2)],
             Some "J"%string) /\
  view e3 = ("end"%string, ["Back"%string], Some (VInt 101), [("J"%string, 2); ("End"%string, 0)], Some "End"%string) /\
  view e4 = (("intro" ++ nl)%string, ["A"; "A2"; "Leave"]%string, Some (VInt 0), [("J"%string, 0); ("End"%string, 0)],
             Some "J"%string) /\
  (* each block statement ran once, the other choice's block never, and no passage was entered by the join turns *)
  (stmt_count "x+=1" e2, stmt_count "x+=10" e2, stmt_count "x+=100" e2, entered (elog e2)) = (1, 0, 1, ["J"%string]) /\
  (* restore points and undo *)
  (List.length (undo_stack e1), redo_stack e1, ec (fst (undo e1))) = (1, [], ec e0).
Proof. vm_compute. repeat split. Qed.

(* the one-time join choice A2: marked used, shown in section 0 no more after coming back *)
Example join_one_time :
  let e0 := fst (init demo_orc [] demo_story []) in
  let e1 := fst (choose demo_orc [] demo_story e0 1) in      (* A2 *)
  let e2 := fst (choose demo_orc [] demo_story e1 0) in      (* B *)
  let e3 := fst (choose demo_orc [] demo_story e2 0) in      (* C *)
  let e4 := fst (choose demo_orc [] demo_story e3 0) in      (* Back *)
  view e1 = (("Block A2" ++ nl ++ "mid x=10" ++ nl)%string, ["B"%string], Some (VInt 10), [("J"%string, 1)],
             Some "J"%string) /\
  used (ec e1) = ["J:A2:@join"%string] /\
  map rc_text (o_choices (current_out e4)) = ["A"; "Leave"]%string.
Proof. vm_compute. repeat split. Qed.

(* (a) and (b) above, concretely *)
Definition nomarker_story : story :=
  mkStory "N" [("N"%string, mkPassage "N" [] [TText "all"; TText nl]
                 [Choice [TText "a"] "@join" "" None true 0 [] [TText "blk"; TText nl]] [] [] [])] [] [].
Definition lastsec_story : story :=
  mkStory "L" [("L"%string, mkPassage "L" [] [TText "one"; TJoinMarker 0; TText "two"]
                 [Choice [TText "a"] "@join" "" None true 0 [] [];
                  Choice [TText "b"] "@join" "" None true 1 [] [TPyStmt "x=0"]] [] [] [])] [] [].
Example join_without_marker_demo :
  let e0 := fst (init demo_orc [] nomarker_story []) in
  let e1 := fst (choose demo_orc [] nomarker_story e0 0) in
  (o_content (current_out e1), o_choices (current_out e1)) = (("blk" ++ nl ++ "all" ++ nl)%string, []).
Proof. vm_compute. reflexivity. Qed.
Example join_after_last_marker_demo :
  let e0 := fst (init demo_orc [] lastsec_story []) in
  let e1 := fst (choose demo_orc [] lastsec_story e0 0) in
  let r2 := choose demo_orc [] lastsec_story e1 0 in
  (match snd r2 with Exc RuntimeError => true | _ => false end, lookup "x"%string (vars (ec (fst r2))))
  = (true, Some (VInt 0)).
Proof. vm_compute. reflexivity. Qed.

(* Block choices of a later section (fixed in /repo 310398c, F10d).  The minimal story of the patch header:
       :: Start / Intro / + [A] -> @join / @join / Middle / @if True: / + [Cond] -> End / @endif      :: End / end
   The section text produces the enabled block choice Cond; the join turn offers it (before the fix: nothing, and
   the choice was handed on as a bogus render directive); there is no render directive; choosing it goes to End.
   A loop choice (text rendered per item) and an @input line of the section are covered by the second story. *)
Definition cond_choice : choice := Choice [TText "Cond"] "End" "" None true 0 [] [].
Definition true_orc : pyorc :=
  mkOrc (fun ctx c => if String.eqb c "True" then Ok (VBool true) else
                      if String.eqb c "False" then Ok (VBool false) else
                      if String.eqb c "[1, 2]" then Ok (VList [VInt 1; VInt 2]) else
                      match lookup c ctx with Some v => Ok v | None => Exc NameError end)
        (fun c _ => Ok c) (fun _ _ => Ok ""%string) (fun _ _ => Ok ([], [])).
(* what the compiler produces for that source *)
Definition blockch_passage : passage :=
  mkPassage "Start" [] [TText "Intro"; TText nl; TJoinMarker 0; TText "Middle"; TText nl;
                        TCond [Branch "True" [] [cond_choice]]; TText nl]
            [Choice [TText "A"] "@join" "" None true 0 [] []] [] [] [].
Definition blockch_story : story :=
  mkStory "Start" [("Start"%string, blockch_passage);
                   ("End"%string, mkPassage "End" [] [TText "end"; TText nl] [] [] [] [])] [] [].
Definition blockch_e0 : estate := fst (init true_orc [] blockch_story []).
Example join_offers_block_choices_demo :
  let e1 := fst (choose true_orc [] blockch_story blockch_e0 0) in
  let e2 := fst (choose true_orc [] blockch_story e1 0) in
  map rc_text (o_choices (current_out blockch_e0)) = ["A"%string] /\
  (* the section text produces the block choice, and it is enabled ... *)
  render_content true_orc [] (between_markers 0 (content blockch_passage)) (nstate_of blockch_e0)
    = (nstate_of blockch_e0, Ok (("Middle" ++ nl ++ nl)%string, None, [DChoice cond_choice None])) /\
  enabled true_orc [] (nstate_of blockch_e0) cond_choice None = true /\
  (* ... the turn offers it, with nothing handed on as a render or input directive ... *)
  o_content (current_out e1) = ("Middle" ++ nl ++ nl)%string /\
  o_choices (current_out e1) = [mkRC "Cond" cond_choice] /\
  o_render (current_out e1) = [] /\ o_input (current_out e1) = [] /\
  joinidx (ec e1) = [("Start"%string, 1)] /\ cur (ec e1) = Some "Start"%string /\
  (* ... and choosing it goes to End *)
  cur (ec e2) = Some "End"%string /\ o_content (current_out e2) = ("end" ++ nl)%string.
Proof. vm_compute. repeat split. Qed.

(* passage-level choices of the section come first, then the block choices in text order; a loop choice is offered
   once per item with its own text; a disabled block choice is not offered; an @input line of the section is
   reported as an input directive and a render directive stays a render directive *)
Definition loop_choice : choice := Choice [TText "Item "; TExpr "q"] "End" "" None true 0 [] [].
Definition off_choice : choice := Choice [TText "Off"] "End" "" (Some "False"%string) true 0 [] [].
Definition order_passage : passage :=
  mkPassage "S" [] [TText "one"; TJoinMarker 0; TText "two";
                    TCond [Branch "True" [] [cond_choice; off_choice]];
                    TInput [("name"%string, "nm"%string)];
                    TLoop "q" "[1, 2]" [] [loop_choice];
                    TJoinMarker 1; TText "three"; TCond [Branch "True" [] [off_choice]]]
            [Choice [TText "A"] "@join" "" None true 0 [] [];
             Choice [TText "Late"] "End" "" None true 2 [] [];
             Choice [TText "B"] "@join" "" None true 1 [] []] [] [] [].
Definition order_story : story :=
  mkStory "S" [("S"%string, order_passage); ("End"%string, mkPassage "End" [] [TText "end"] [] [] [] [])] [] [].
Example join_block_choices_order_demo :
  let e0 := fst (init true_orc [] order_story []) in
  let e1 := fst (choose true_orc [] order_story e0 0) in
  let e2 := fst (choose true_orc [] order_story e1 0) in
  map rc_text (o_choices (current_out e0)) = ["A"%string] /\
  map rc_text (o_choices (current_out e1)) = ["B"; "Cond"; "Item 1"; "Item 2"]%string /\
  o_input (current_out e1) = [[("name"%string, "nm"%string)]] /\ o_render (current_out e1) = [] /\
  map rc_text (o_choices (current_out e2)) = ["Late"%string] /\ joinidx (ec e2) = [("S"%string, 2)].
Proof. vm_compute. repeat split. Qed.
