(* C11 - the compiler is total: any text yields a story or a diagnostic error.

   Model: Compiler/ParseLine.v (line-level functions of content.py / directives.py / validation.py),
   Compiler/ParseMain.v (the `parse` loop of core.py and the post passes of validation.py) - part A;
   Compiler/ParseBlocks.v + ParseBlocksInst.v (the block extractors of blocks.py) - part B, whose own
   theorems are in Props/C11b.v.  In the model every partial Python operation is an explicit
   outcome (PInternal ...), every loop is structural or fuelled; the statements below say which
   outcomes are reachable.  The model follows /repo at 15f0a5b (all F11/F12/F17g-i fixes committed);
   harness/c11.py re-checks that on every run.

   * `parse_total` is the property at full strength for the modelled compiler: for ALL line lists
     (ASCII, no "\n" inside a line) and ALL oracles, `parse` with the real extractors and the real
     line functions returns a story or a diagnostic - never an internal error, never out of fuel.
   * `parse_total_partial`, `parse_never_out_of_fuel` are the statements about the main loop alone,
     for ARBITRARY extractors satisfying `extractors_ok` (each of python/conditional/loop consumes
     at least one line): an internal outcome can only be the very value an extractor returned.
   * oracles (universally quantified): Python's own parser - py_stmt_ok, py_call_shape,
     py_body_is_call; since fix 6f31489 every way ast.parse can fail is a SyntaxError for the compiler,
     so two outcomes are all there is.
   * outside the model: the text of diagnostics, non-ASCII input, the interpreter's recursion limit
     (no recursion of the compiler is input-controlled any more: block nesting is capped at 100 by fix
     179a3c4 and inline conditionals at 50 by fix f3adbc1 - `inline_conditional_depth_capped`).

   History (witnesses of violations that the faithful model exhibited before the fixes; each was
   confirmed on the real code and is still run as a pinned probe by harness/c11.py):
   * validate_call_refuted (fixed by a323daa):  [":: A"; "-> T(""("") + ("")"")"; ":: T(x)"; "hi"]
     with an oracle saying that the body of `_temp_("(") + (")")` is not a Call gave
     PInternal INoneAttr (AttributeError: 'BinOp' object has no attribute 'args');
   * parse_content_line_recursion_refuted (fixed by f3adbc1): with a bounded stack the tokenizer
     returned PInternal (IRecursion _) on "{a ? {b ? c | d} | e}" nested deeper than the stack;
   * RecursionError escaping from ast.parse on "~ x = ---...1" (fixed by 6f31489; outside the model). *)
From Coq Require Import String Ascii List Bool Arith.
From Bardic Require Import PyStr Value Compiled Lex ParseBase ParseLine ParseMain ParseProofs.
From Bardic Require Import ParseBlocks ParseBlocksInst ParseAllProofs.
Import ListNotations.
Local Open Scope string_scope.

(* The termination argument of the real `while`: with fuel = S (length lines) the main loop does not
   run out of fuel (every iteration advances the index by at least one) - the only way to see
   POutOfFuel is an extractor that returned it. *)
Theorem parse_never_out_of_fuel : forall pp xs lines,
  extractors_ok xs ->
  parse_loop pp xs (S (List.length lines)) lines (List.length lines) 0 init_state = POutOfFuel ->
  xs_fuel xs.
Proof. exact parse_never_out_of_fuel_lemma. Qed.
Print Assumptions parse_never_out_of_fuel.

Theorem parse_whole_never_out_of_fuel : forall pp is_call xs lines,
  extractors_ok xs -> parse pp is_call xs lines = POutOfFuel -> xs_fuel xs.
Proof. exact parse_whole_never_out_of_fuel_lemma. Qed.
Print Assumptions parse_whole_never_out_of_fuel.

(* Each line-level function returns a value or a diagnostic on every string: no IndexError,
   AttributeError, UnboundLocalError ... (the functions with a plain result type - parse_tags,
   extract_target_and_args, extract_passage_params, _split_on_commas, find_pipe_separator,
   extract_multiline_expression - have no partial operation at all in the model). *)
Theorem line_functions_total :
  (forall s, ok_or_diag (parse_content_line s)) /\
  (forall s, ok_or_diag (parse_inline_conditional s)) /\
  (forall s, ok_or_diag (split_expressions_with_depth s)) /\
  (forall s, ok_or_diag (parse_choice_line s)) /\
  (forall s i, ok_or_diag (validate_choice_syntax s i)) /\
  (forall s i, ok_or_diag (validate_passage_name s i)) /\
  (forall s, ok_or_diag (parse_passage_params s)) /\
  (forall c s, ok_or_diag (parse_render_line c s)) /\
  (forall c s, ok_or_diag (parse_input_line c s)).
Proof. exact line_functions_total_lemma. Qed.
Print Assumptions line_functions_total.

(* the nesting of inline conditionals is capped: 50 levels are tokenized, the 51st is a diagnostic
   (so the mutual recursion parse_content_line <-> parse_inline_conditional is at most 51 deep) *)
Theorem inline_conditional_depth_capped :
  is_ok (parse_content_line (nested_conditional 50)) = true /\
  parse_content_line (nested_conditional 51) = PDiag (DSyntax "content:nesting-depth" 0).
Proof. exact inline_depth_cap_lemma. Qed.
Print Assumptions inline_conditional_depth_capped.

(* the main loop and the post passes are total up to the extractors: for arbitrary extractors that
   consume at least one line, the result is a story, a diagnostic, or exactly the internal outcome
   some extractor returned *)
Theorem parse_total_partial : forall pp is_call xs,
  extractors_ok xs ->
  forall lines,
    match parse pp is_call xs lines with
    | POk _ | PDiag _ => True
    | PInternal k => xs_internal xs k
    | POutOfFuel => xs_fuel xs
    end.
Proof. exact parse_total_partial_lemma. Qed.
Print Assumptions parse_total_partial.

(* the block extractors of part B, run with part A's line functions, meet what the main loop needs:
   progress, and totality wherever the loop calls them *)
Theorem real_extractors_fit : extractors_ok real_extractors /\ call_sites_total real_extractors.
Proof. exact (conj real_extractors_ok real_call_sites_total). Qed.
Print Assumptions real_extractors_fit.

(* C11 for the modelled compiler, full strength *)
Theorem parse_total : forall pp is_call lines, ok_or_diag (parse_real pp is_call lines).
Proof. exact parse_total_lemma. Qed.
Print Assumptions parse_total.

(* ---- non-vacuity ---- *)

(* sample_oracle, sample_lines: Proofs/ParseProofs.v (witnesses) *)
(* the sample compiles: the hypotheses of the C12 theorems are met, and the initial passage is the
   one @start names although a passage Start exists *)
Example sample_parses :
  match parse sample_oracle (fun _ => true) no_extractors sample_lines with
  | POk st => initial st = "Hall" /\ map fst (passages st) = ["Start"; "Hall"]
  | _ => False
  end.
Proof. vm_compute. split; reflexivity. Qed.

(* a diagnostic, not a crash, on a dangling target *)
Example sample_dangling :
  parse sample_oracle (fun _ => true) no_extractors [":: A"; "-> Nowhere"] =
  PDiag (DSyntax "call:unknown-target" 0).
Proof. vm_compute. reflexivity. Qed.

(* every block construct through the combined model *)
Example block_sample :
  match parse_real (mkPyparse (fun _ => true) (fun _ => Some (0, [])) (fun _ => 0)) (fun _ => true) block_sample_lines with
  | POk st => map fst (passages st) = ["Start"; "End"] /\ initial st = "Start"
  | _ => False
  end.
Proof. exact block_sample_parses. Qed.

(* the former crash is a diagnostic now *)
Example call_body_not_a_call :
  parse binop_oracle binop_is_call no_extractors [":: A"; "-> T(" ++ binop_args ++ ")"; ":: T(x)"; "hi"] =
  PDiag (DSyntax "call:malformed-arguments" 0).
Proof. vm_compute. reflexivity. Qed.

(* extractors_ok is satisfiable (by extractors that consume one line) *)
Example extractors_ok_inhabited :
  extractors_ok (mkExtractors (fun _ _ => POk ("", 1)) (fun _ _ => POk (TCond [], 1))
                              (fun _ _ => POk (TLoop "" "" [] [], 1)) (fun _ _ _ => POk ([], [], 0))).
Proof. repeat split; intros ls i c n H; inversion H; auto. Qed.
