(* C11 - the compiler is total: any text yields a story or a diagnostic error
   (and the structural half of C12 for every story the modelled parser returns).

   Model: Compiler/ParseLine.v (line-level functions of content.py / directives.py / validation.py),
   Compiler/ParseMain.v (the `parse` loop of core.py and the post passes of validation.py).
   In the model every partial Python operation is an explicit outcome (PInternal ...), every loop is
   structural or fuelled; the statements below say which outcomes are reachable.

   What is modelled and what is behind a contract (see the header of Compiler/ParseMain.v):
   * modelled: the comment pre-pass, imports section, @metadata, @start, passage headers with
     params/tags, comment lines, @render, @input, @hook/@unhook, @join markers and sections, jumps,
     `~` statements with multi-line continuation, choices incl. `-> @join`, content lines with glue,
     blank lines, and all post passes (_cleanup_whitespace, _trim_trailing_newlines,
     check_duplicate_passages, validate_passage_arguments with its recursive walk,
     _determine_initial_passage);
   * behind the extractor record `xs` (part B, blocks.py): extract_python_block,
     extract_conditional_block, extract_loop_block, extract_join_choice_block.  The theorems hold for
     ALL extractors with `extractors_ok xs` (each of the first three consumes at least one line);
     `parse_total_partial` is named _partial for that reason: an internal error or an exhausted fuel
     can reach the result of `parse` only as the very value an extractor returned;
   * oracles (all of them universally quantified): Python's own parser - py_stmt_ok, py_call_shape,
     py_body_is_call.  They have two outcomes; ast.parse escaping with RecursionError on a very deep
     expression is outside the model and is found by the direct oracle of harness/c11.py;
   * the interpreter's recursion limit is outside `parse_content_line` (ideal, unbounded stack) and
     explicit in `parse_content_line_lim`.

   Violations of the property that the faithful model exhibits (each confirmed on the real code by
   harness/c11.py, pinned probes):
   * validate_call_refuted: the AttributeError of _validate_single_call (tree.body is not a Call);
   * parse_content_line_recursion_refuted: inline conditionals nested deeper than the stack allows. *)
From Coq Require Import String Ascii List Bool Arith.
From Bardic Require Import PyStr Value Compiled Lex ParseBase ParseLine ParseMain ParseProofs.
Import ListNotations.
Local Open Scope string_scope.

(* ---- C11 ---- *)

(* The termination argument of the real `while`: with fuel = S (length lines) the main loop does not
   run out of fuel (every iteration advances the index by at least one) - the only way to see
   POutOfFuel is an extractor that returned it. *)
Theorem parse_never_out_of_fuel : forall pp xs lines,
  extractors_ok xs ->
  parse_loop pp xs (S (List.length lines)) lines (List.length lines) 0 init_state = POutOfFuel ->
  xs_fuel xs.
Proof. exact parse_never_out_of_fuel_lemma. Qed.
Print Assumptions parse_never_out_of_fuel.

Theorem parse_whole_never_out_of_fuel : forall pp is_call xs lines,
  extractors_ok xs -> parse pp is_call xs lines = POutOfFuel -> xs_fuel xs.
Proof. exact parse_whole_never_out_of_fuel_lemma. Qed.
Print Assumptions parse_whole_never_out_of_fuel.

(* Each line-level function returns a value or a diagnostic on every string: no IndexError,
   AttributeError, UnboundLocalError ... (the functions with a plain result type - parse_tags,
   extract_target_and_args, extract_passage_params, _split_on_commas, find_pipe_separator,
   extract_multiline_expression - have no partial operation at all in the model). *)
Theorem line_functions_total :
  (forall s, ok_or_diag (parse_content_line s)) /\
  (forall s, ok_or_diag (parse_inline_conditional s)) /\
  (forall s, ok_or_diag (split_expressions_with_depth s)) /\
  (forall s, ok_or_diag (parse_choice_line s)) /\
  (forall s i, ok_or_diag (validate_choice_syntax s i)) /\
  (forall s i, ok_or_diag (validate_passage_name s i)) /\
  (forall s, ok_or_diag (parse_passage_params s)) /\
  (forall c s, ok_or_diag (parse_render_line c s)) /\
  (forall c s, ok_or_diag (parse_input_line c s)).
Proof. exact line_functions_total_lemma. Qed.
Print Assumptions line_functions_total.

(* ... but with a bounded stack the content-line tokenizer fails on deep nesting: one level of
   recursion per nested inline conditional (CPython: about 500 levels; here a small limit). *)
Theorem parse_content_line_recursion_refuted :
  exists s, parse_content_line_lim 2 (S (String.length s)) s = PInternal (IRecursion "parse_content_line").
Proof. exists "{a ? {b ? c | d} | e}". vm_compute. reflexivity. Qed.
Print Assumptions parse_content_line_recursion_refuted.

(* parse is total up to the extractors: when every parsed call body is a Call node, the result is a
   story, a diagnostic, or exactly the internal outcome some extractor returned. *)
Theorem parse_total_partial : forall pp is_call xs,
  extractors_ok xs -> (forall a, is_call a = true) ->
  forall lines,
    match parse pp is_call xs lines with
    | POk _ | PDiag _ => True
    | PInternal k => xs_internal xs k
    | POutOfFuel => xs_fuel xs
    end.
Proof. exact parse_total_partial_lemma. Qed.
Print Assumptions parse_total_partial.

(* without the hypothesis on the call oracle there is exactly one more outcome *)
Theorem parse_total_general_partial : forall pp is_call xs,
  extractors_ok xs ->
  forall lines,
    match parse pp is_call xs lines with
    | POk _ | PDiag _ => True
    | PInternal k => xs_internal xs k \/ (k = INoneAttr /\ exists a, is_call a = false)
    | POutOfFuel => xs_fuel xs
    end.
Proof. exact parse_total_general_lemma. Qed.
Print Assumptions parse_total_general_partial.

(* ... and it is reachable: `-> T("(") + (")")` with `:: T(x)`.  The argument string `"(") + (")"`
   parses (as `_temp_("(") + (")")`), its body is a BinOp, `call_node.args` raises AttributeError. *)
(* binop_args, binop_oracle, binop_is_call: Proofs/ParseProofs.v (witnesses) *)
Theorem validate_call_refuted :
  exists lines, parse binop_oracle binop_is_call no_extractors lines = PInternal INoneAttr.
Proof. exists [":: A"; "-> T(" ++ binop_args ++ ")"; ":: T(x)"; "hi"]. vm_compute. reflexivity. Qed.
Print Assumptions validate_call_refuted.

(* ---- C12, structural half ---- *)

(* the initial passage is a key of the story's passages and follows @start > "Start" > first *)
Theorem parse_ok_initial_exists : forall pp is_call xs lines0 story,
  parse pp is_call xs lines0 = POk story ->
  has_key (initial story) (passages story) = true /\
  exists fs,
    (let lines := strip_comments_outside_python lines0 None false 0 in
     parse_loop pp xs (S (List.length lines)) lines (List.length lines) 0 init_state = POk fs) /\
    follows_priority (passages story) (st_explicit_start fs) (initial story).
Proof. exact parse_ok_initial_lemma. Qed.
Print Assumptions parse_ok_initial_exists.

(* each passage is keyed by its own id *)
Theorem parse_ok_keys_are_ids : forall pp is_call xs lines0 story,
  parse pp is_call xs lines0 = POk story ->
  forall k p, In (k, p) (passages story) -> pid p = k.
Proof. exact parse_ok_keys_lemma. Qed.
Print Assumptions parse_ok_keys_are_ids.

(* the validator's walk is sound on arbitrary token trees (whatever the extractors built): if it
   accepts a token, every jump and choice target in it, at any depth of conditionals and loops, is a
   defined passage or "@join" *)
Theorem validate_walk_sound : forall pp is_call ps t,
  check_token pp is_call ps t = POk tt -> targets_ok ps t.
Proof. exact check_token_targets. Qed.
Print Assumptions validate_walk_sound.

(* hence for every story parse returns: all targets of all passages are defined *)
Theorem validated_targets_defined : forall pp is_call xs lines0 story,
  parse pp is_call xs lines0 = POk story ->
  forall k p, In (k, p) (passages story) ->
    choices_targets_ok (passages story) (choices p) /\ tokens_targets_ok (passages story) (content p).
Proof. exact validated_targets_lemma. Qed.
Print Assumptions validated_targets_defined.

(* ---- non-vacuity ---- *)

(* sample_oracle, sample_lines: Proofs/ParseProofs.v (witnesses) *)
(* the sample compiles: the hypotheses of the C12 theorems are met, and the initial passage is the
   one @start names although a passage Start exists *)
Example sample_parses :
  match parse sample_oracle (fun _ => true) no_extractors sample_lines with
  | POk st => initial st = "Hall" /\ map fst (passages st) = ["Start"; "Hall"]
  | _ => False
  end.
Proof. vm_compute. split; reflexivity. Qed.

(* a diagnostic, not a crash, on a dangling target *)
Example sample_dangling :
  parse sample_oracle (fun _ => true) no_extractors [":: A"; "-> Nowhere"] =
  PDiag (DSyntax "call:unknown-target" 0).
Proof. vm_compute. reflexivity. Qed.

(* extractors_ok is satisfiable (by extractors that consume one line) *)
Example extractors_ok_inhabited :
  extractors_ok (mkExtractors (fun _ _ => POk ("", 1)) (fun _ _ => POk (TCond [], 1))
                              (fun _ _ => POk (TLoop "" "" [] [], 1)) (fun _ _ _ => POk ([], [], 0))).
Proof. repeat split; intros ls i c n H; inversion H; auto. Qed.
