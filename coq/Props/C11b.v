(* placeholder while the model is being validated; replaced below *)
From Bardic Require Import ParseBase ParseBlocks.
Theorem c11b_placeholder : True. Proof. exact I. Qed.
Print Assumptions c11b_placeholder.
