(* C11 (part B) - the block extractors of bardic/compiler/parsing/blocks.py are total and advance.
   Property theorems only; proofs are in Proofs/ParseBlocksProofs.v.  The coordinator merges this
   file into Props/C11.v.

   Model: Compiler/ParseBlocks.v.  `extract_*_v fixed cap lf` is the extractor of
     fixed = false, cap = None     : /repo as of 45ce265 (before the fixes below)
     fixed = true,  cap = Some 100 : /repo as of 19fd338 = 45ce265 + 2da11ec (F11a: legacy headers without
                                     `>>` are diagnosed) + 179a3c4 (F11b: nesting cap) + b0767bb (glue
                                     honoured by every text flush of an @if branch) + 623c615 (comment
                                     lines at the head of a loop body dropped before dedenting) + 3dd8bdc
                                     (blank lines of an @py: body emptied) + 19fd338 (continuation lines
                                     of a `~` statement in a branch dedented); the unsuffixed names
     fixed = true,  cap = None     : the same without the nesting cap
   for ARBITRARY line-level functions `lf : linefns` (part A's ParseLine.v is one instance).
   Token kinds: the extractors return `token` (Story/Compiled.v), so "only documented kinds" holds by
   typing.  Outside the model: the interpreter's recursion limit (without F11b the nesting depth of
   the input controls the Python stack), non-ASCII text, "\n" inside a line. *)
From Coq Require Import String List Bool Arith.
From Bardic Require Import PyStr Value Compiled Lex ParseBase ParseBlocks ParseBlocksProofs.
Import ListNotations.
Local Open Scope string_scope.

(* What part A's main loop assumes, and the progress argument of its `while`: every extractor that
   returns reports a consumed count inside the list.  No hypothesis on the line-level functions, on
   the version, or on where the call is made.  (Since fix F17o an unclosed legacy `<<py` block is a diagnostic
   like an unclosed `@py:` block -- before it, it reported one line more than there are and this bound was
   S (length lines - start); extract_join_choice_block may report 0: the main loop adds 1 itself.) *)
Theorem extractor_contract : forall fixed cap lf lines start,
  (forall c n, extract_python_block lines start = POk (c, n) ->
               1 <= n /\ n <= length lines - start) /\
  (forall c n, extract_py_new_syntax lines start = POk (c, n) ->
               1 <= n /\ n <= length lines - start) /\
  (forall t n, extract_conditional_block_v fixed cap lf lines start = POk (t, n) ->
               1 <= n /\ n <= length lines - start) /\
  (forall t n, extract_loop_block_v fixed cap lf lines start = POk (t, n) ->
               1 <= n /\ n <= length lines - start) /\
  (forall indent ct ex n, extract_join_choice_block lf lines start indent = POk (ct, ex, n) ->
               n <= length lines - start).
Proof. exact contract_all. Qed.
Print Assumptions extractor_contract.

(* the construct returned is of the announced kind *)
Theorem extractor_result_kind : forall fixed cap lf lines start t n,
  (extract_conditional_block_v fixed cap lf lines start = POk (t, n) -> exists brs, t = TCond brs) /\
  (extract_loop_block_v fixed cap lf lines start = POk (t, n) -> exists v c ct chs, t = TLoop v c ct chs).
Proof. exact shape_all. Qed.
Print Assumptions extractor_result_kind.

(* The fuel the model uses, len(lines) - start + 1, is never exhausted: in every version, for all
   line lists, provided the line-level functions themselves terminate (never OutOfFuel) and
   extract_multiline_expression consumes the line it is called on (otherwise the Python `while`
   would not advance).  extract_loop_block is called on a `for` header, as the parser does. *)
Theorem extractors_never_out_of_fuel : forall fixed cap lf lines start,
  lf_no_fuel lf -> lf_progress lf ->
  extract_python_block lines start <> POutOfFuel /\
  extract_conditional_block_v fixed cap lf lines start <> POutOfFuel /\
  (header_at is_for_line lines start -> extract_loop_block_v fixed cap lf lines start <> POutOfFuel) /\
  (forall indent, extract_join_choice_block lf lines start indent <> POutOfFuel).
Proof. exact never_out_of_fuel_all. Qed.
Print Assumptions extractors_never_out_of_fuel.

(* Totality of the current code (fixed = true, i.e. from commit 2da11ec on): a value or a SyntaxError/ValueError diagnostic, never an internal
   error, whenever the line-level functions are total in that sense. *)
Theorem extractors_total : forall cap lf lines start,
  lf_total lf -> lf_progress lf ->
  (start < length lines -> ok_or_diag (extract_python_block lines start)) /\
  ok_or_diag (extract_conditional_block_v true cap lf lines start) /\
  (header_at is_for_line lines start -> ok_or_diag (extract_loop_block_v true cap lf lines start)) /\
  (forall indent, ok_or_diag (extract_join_choice_block lf lines start indent)).
Proof. exact total_all. Qed.
Print Assumptions extractors_total.

(* the only internal error of extract_python_block is lines[start_index] out of range *)
Theorem python_block_internal_only_out_of_range : forall lines start e,
  extract_python_block lines start = PInternal e -> length lines <= start /\ e = IIndex.
Proof. exact (extract_python_block_internal_iff true). Qed.
Print Assumptions python_block_internal_only_out_of_range.

(* The code before commit 2da11ec was NOT total: `<<if x` without `>>` escapes with UnboundLocalError (F11a),
   at top level and nested in a loop. *)
Theorem extract_conditional_block_cur_refuted : exists lf lines start,
  lf_total lf /\ lf_progress lf /\ header_at is_if_line lines start /\
  extract_conditional_block_cur lf lines start = PInternal IUnboundLocal.
Proof.
  exists lf_sample, ["<<if x"; "hello"; "<<endif>>"], 0.
  split; [exact lf_sample_total|]. split; [exact lf_sample_progress|].
  split; [exists "<<if x"; split; reflexivity|]. vm_compute. reflexivity.
Qed.
Print Assumptions extract_conditional_block_cur_refuted.

Theorem extract_loop_block_cur_refuted : exists lf lines start,
  lf_total lf /\ lf_progress lf /\ header_at is_for_line lines start /\
  extract_loop_block_cur lf lines start = PInternal IUnboundLocal.
Proof.
  exists lf_sample, ["@for i in xs:"; "  <<if i // 2>>"; "  t"; "  <<endif>>"; "@endfor"], 0.
  split; [exact lf_sample_total|]. split; [exact lf_sample_progress|].
  split; [exists "@for i in xs:"; split; reflexivity|]. vm_compute. reflexivity.
Qed.
Print Assumptions extract_loop_block_cur_refuted.

(* ... and `<<elif b` without `>>` silently reuses the previous header's condition. *)
Theorem legacy_elif_reuses_stale_condition_cur :
  extract_conditional_block_cur lf_sample ["<<if a>>"; "A"; "<<elif b"; "B"; "<<endif>>"] 0
  = POk (TCond [Branch "a" [TText "A"; tnl] []; Branch "a" [TText "B"; tnl] []], 5).
Proof. vm_compute. reflexivity. Qed.
Print Assumptions legacy_elif_reuses_stale_condition_cur.

(* With the nesting cap (commit 179a3c4, F11b) the recursion is bounded by the cap whatever the input: 101 nested
   extractor calls on one path are enough for every line list (fuel counts exactly those calls). *)
Theorem capped_recursion_depth_bounded : forall fixed lf n lines start,
  lf_no_fuel lf -> lf_progress lf -> max_block_depth < n ->
  extract_conditional_block_f fixed (Some max_block_depth) lf n 0 lines start <> POutOfFuel /\
  (header_at is_for_line lines start ->
   extract_loop_block_f fixed (Some max_block_depth) lf n 0 lines start <> POutOfFuel).
Proof. exact capped_depth_all. Qed.
Print Assumptions capped_recursion_depth_bounded.

(* structure (used by C12/C01): a conditional extracted at an if-header has at least one branch *)
Theorem conditional_has_branch : forall fixed cap lf lines start brs n,
  header_at is_if_line lines start ->
  extract_conditional_block_v fixed cap lf lines start = POk (TCond brs, n) -> brs <> [].
Proof. exact has_branch_all. Qed.
Print Assumptions conditional_has_branch.

(* `@else:` / `<<else>>` start a branch whose condition is the text "True" *)
Theorem else_branch_condition_is_True : forall lf st cv st' k,
  start_new_branch lf st "True" cv = POk (CNext st' k) ->
  exists brs, cs_cur st' = Some ("True", [], []) /\ cs_lines st' = [] /\ cs_branches st' = brs /\ k = 1.
Proof. exact else_branch_condition_True. Qed.
Print Assumptions else_branch_condition_is_True.

(* ---------------- non-vacuity ---------------- *)
(* the hypotheses on the line-level functions are satisfiable *)
Example linefns_hypotheses_satisfiable : lf_total lf_sample /\ lf_no_fuel lf_sample /\ lf_progress lf_sample.
Proof.
  split; [exact lf_sample_total|]. split; [apply lf_total_no_fuel; exact lf_sample_total|exact lf_sample_progress].
Qed.

(* a nested, mixed legacy/@ block: value, 3 branches, `@else` -> "True", consumed = 11 of 12 lines *)
Example sample_conditional :
  extract_conditional_block lf_sample
    ["@if a:"; "  one"; "  <<for x in xs>>"; "    item<>"; "  <<endfor>>"; "@elif b[0:1]: // c";
     "  -> Next(1)"; "@else:"; "  ~ n = 1"; "  @hook turn_end Tick"; "@endif"; "after"] 0
  = POk (TCond [Branch "a" [TText "one"; tnl; TLoop "x" "xs" [TText "item"] []] [];
                Branch "b[0:1]" [TJump "Next(1)" ""] [];
                Branch "True" [TPyStmt "n = 1"; THook true "turn_end" "Tick"] []], 11).
Proof. vm_compute. reflexivity. Qed.

(* the same header without `>>` in the current code: a located diagnostic *)
Example sample_fixed_header :
  extract_conditional_block lf_sample ["<<if x"; "hello"; "<<endif>>"] 0
  = PDiag (DSyntax "if-missing-close" 0).
Proof. vm_compute. reflexivity. Qed.

(* an unclosed legacy <<py block is rejected like an unclosed @py: block (fix F17o; before it the block ran to
   the end of the lines and reported len - start + 1 of them: POk ("a = 1", 3)) *)
Example sample_py_unclosed :
  extract_python_block ["<<py"; "  a = 1"] 0 = PDiag (DSyntax "py-unclosed" 0) /\
  extract_python_block ["@py:"; "  a = 1"] 0 = PDiag (DSyntax "py-unclosed" 0) /\
  extract_python_block ["<<py"; "  a = 1"; ">>"] 0 = POk ("a = 1", 3).
Proof. vm_compute. repeat split; reflexivity. Qed.

(* glue before a directive inside a branch: honoured since b0767bb, ignored before *)
Example sample_glue_before_directive :
  extract_conditional_block lf_sample ["@if a:"; "  one<>"; "  ~ n = 1"; "  two"; "@endif"] 0
  = POk (TCond [Branch "a" [TText "one"; TPyStmt "n = 1"; TText "two"; tnl] []], 5)
  /\ extract_conditional_block_cur lf_sample ["@if a:"; "  one<>"; "  ~ n = 1"; "  two"; "@endif"] 0
  = POk (TCond [Branch "a" [TText "one<>"; tnl; TPyStmt "n = 1"; TText "two"; tnl] []], 5).
Proof. split; vm_compute; reflexivity. Qed.

(* a comment line at the head of a loop body no longer decides the base indentation (623c615) *)
Example sample_loop_leading_comment :
  extract_loop_block lf_sample ["@for x in xs:"; "# note"; "    item"; "@endfor"] 0
  = POk (TLoop "x" "xs" [TText "item"; tnl] [], 4)
  /\ extract_loop_block_cur lf_sample ["@for x in xs:"; "# note"; "    item"; "@endfor"] 0
  = POk (TLoop "x" "xs" [TText "    item"; tnl] [], 4).
Proof. split; vm_compute; reflexivity. Qed.

(* an @py: body: whitespace-only lines emptied (3dd8bdc); a multi-line ~ statement inside a branch:
   continuation lines lose the indentation of the ~ line (19fd338; lf_sample's
   extract_multiline_expression reports one line, so the instance below uses a two-line reader) *)
Example sample_py_blank_lines :
  extract_python_block ["@py:"; "  a = 1"; "   "; "  b = 2"; "@endpy"] 0 = POk ("a = 1" ++ nl ++ nl ++ "b = 2", 5)
  /\ extract_python_block_cur ["@py:"; "  a = 1"; "   "; "  b = 2"; "@endpy"] 0
     = POk ("a = 1" ++ nl ++ "   " ++ nl ++ "b = 2", 5).
Proof. split; vm_compute; reflexivity. Qed.

Example sample_statement_continuation :
  let lf2 := mkLinefns (lf_content lf_sample) (lf_choice lf_sample) (lf_render lf_sample) (lf_input lf_sample)
                       (fun _ _ c => (c, 2)) (lf_eta lf_sample) in
  extract_conditional_block lf2 ["@if a:"; "    ~ x = ["; "      1]"; "@endif"] 0
  = POk (TCond [Branch "a" [TPyStmt ("x = [" ++ nl ++ "  1]")] []], 4).
Proof. vm_compute. reflexivity. Qed.
