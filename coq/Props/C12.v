(* C12 - every compiled story is well-formed JSON data and is navigation-safe.

   Structural half (about Compiler/ParseMain.v `parse`, for ALL extractors, oracles and line lists):
   what holds of every story the compiler model returns - the initial passage exists and follows
   @start > "Start" > first, every passage is keyed by its own id, every key is a valid passage name,
   and every choice/jump target at any depth of conditionals and loops is a defined passage or "@join"
   (validate_walk_sound is the statement about the validator's walk over ARBITRARY token trees, so it
   covers whatever the block extractors build).  "Only documented token kinds" holds by typing
   (Story/Compiled.v `token`; the one way the real dict escaped that typing - an @input attribute
   named type - was fixed by 74386b3 and is watched by harness/c12.py).

   Navigation half, the unknown-passage error (about Engine/Engine.v and Engine/EngineCheck.v): exceptions of the
   engine model carry a kind, not a message, and ValueError has three raise sites in goto_rec, so "never raises
   the unknown-passage ValueError" is stated by making that ONE site a parameter: `goto_rec_g unknown` is goto_rec
   with an arbitrary computation `unknown` there (Proofs/StoryWfProofs.v), and choose_g / goto_op_g / init_g /
   step_g / run_all_g (Proofs/StoryWfChoose.v) are choose / goto_op / init / EngineCheck.step / run_all over it
   (step_g_is_step, run_all_g_is_run_all: the real functions are the instances `raise ValueError`).  The
   theorems say that the result does not depend on `unknown`, i.e. the site is never reached:
   - at any hop of a goto chain (wf_never_unknown_passage_partial, parse_ok_never_unknown_passage_partial: the
     lemma about the chain alone, kept under its old name);
   - by choose() with ANY integer, and by EVERY operation (choose, goto on a defined name, undo, redo, reset,
     reads, reload, submit_inputs, rejected load, save, load) in EVERY state reachable by ANY history
     (wf_never_unknown_passage over EngineHooks.reach; ..._slot over `played`, which adds what run_slot does
     with the save slot; wf_history_never_unknown_passage over whole runs of run_all, where `noinit` is the
     "Initial passage not found" site of __init__).  Earlier operations of the history are arbitrary (a host
     goto() on an undefined name legitimately ends at the site: that is what it is for, and it changes nothing
     the invariant speaks about); only the operation the statement is about must name a defined passage if it
     is a goto.
   What carries it is an invariant of all reachable states (offered_targets_defined): the target of every
   choice in the shown output - and in the outputs kept by the undo/redo snapshots and the save slot, which
   undo/redo/load put back - is "@join" or a defined passage, because outputs are only built by the renderer,
   whose offered choices sit at positions of the passage the validator has walked (the positions of C18's
   graph walk: GraphProofs.render_passage_positions).
   NOT here: argument binding, the other ValueError of navigation (a call site whose arguments the target's
   parameters do not accept).  It is the subject of Props/C07.v (binding = Python's call rule, for every
   operation incl. failures) and of the call-shape play-through of harness/c12.py and harness/c07.py.
   Two genuine defects found by harness/c12.py were fixed in /repo and the model follows them:
   `-> @join` as a JUMP was accepted (fix 3c6eb71: now a diagnostic, jump_to_join_rejected) and an initial
   passage with a required parameter was accepted (fix 15f0a5b: parse_ok_initial_startable).
   Carried by harness/c12.py only: JSON round trip of the real dict, argument shapes. *)
From Coq Require Import String Ascii List Bool Arith.
From Bardic Require Import PyStr Value Compiled Lex ParseBase ParseLine ParseMain ParseProofs.
From Bardic Require Import Engine StoryWfProofs ParseBlocks ParseBlocksInst ParseAllProofs.
From Coq Require Import ZArith.
From Bardic Require Import EngineCheck EngineHooks StoryWfChoose.
Import ListNotations.
Local Open Scope string_scope.

(* ---- structural half ---- *)

(* the initial passage is a key of the story's passages and follows @start > "Start" > first *)
Theorem parse_ok_initial_exists : forall pp is_call xs lines0 story,
  parse pp is_call xs lines0 = POk story ->
  has_key (initial story) (passages story) = true /\
  exists fs,
    (let lines := strip_comments_outside_python lines0 None false 0 in
     parse_loop pp xs (S (List.length lines)) lines (List.length lines) 0 init_state = POk fs) /\
    follows_priority (passages story) (st_explicit_start fs) (initial story).
Proof. exact parse_ok_initial_lemma. Qed.
Print Assumptions parse_ok_initial_exists.

(* each passage is keyed by its own id *)
Theorem parse_ok_keys_are_ids : forall pp is_call xs lines0 story,
  parse pp is_call xs lines0 = POk story ->
  forall k p, In (k, p) (passages story) -> pid p = k.
Proof. exact parse_ok_keys_lemma. Qed.
Print Assumptions parse_ok_keys_are_ids.

(* each key is a valid passage name: [a-zA-Z_][a-zA-Z0-9_.]* *)
Theorem parse_ok_names_valid : forall pp is_call xs lines0 story,
  parse pp is_call xs lines0 = POk story ->
  forall k p, In (k, p) (passages story) -> valid_passage_pattern k = true.
Proof. exact parse_ok_names_lemma. Qed.
Print Assumptions parse_ok_names_valid.

(* the validator's walk is sound on arbitrary token trees: if it accepts a token, every jump and
   choice target in it, at any depth of conditionals and loops, is a defined passage or "@join" *)
Theorem validate_walk_sound : forall pp is_call ps t,
  check_token pp is_call ps t = POk tt -> targets_ok ps t.
Proof. exact check_token_targets. Qed.
Print Assumptions validate_walk_sound.

(* hence for every story parse returns: all targets of all passages are defined *)
Theorem validated_targets_defined : forall pp is_call xs lines0 story,
  parse pp is_call xs lines0 = POk story ->
  forall k p, In (k, p) (passages story) ->
    choices_targets_ok (passages story) (choices p) /\ tokens_targets_ok (passages story) (content p).
Proof. exact validated_targets_lemma. Qed.
Print Assumptions validated_targets_defined.

(* ---- navigation half ---- *)

(* in a story whose jump tokens (at any depth) target defined passages and whose passage names
   contain no "(", a goto on a spec naming a defined passage never reaches the unknown-passage site,
   at any hop, for every oracle, fuel, visited list and state *)
Theorem wf_never_unknown_passage_partial : forall orc ctxkeys st,
  story_jumps_defined st -> names_plain st ->
  forall unknown fuel spec visited s,
    name_defined st spec ->
    goto_rec_g orc ctxkeys st unknown fuel spec visited s = goto_rec orc ctxkeys st fuel spec visited s.
Proof. exact wf_never_unknown_passage_lemma. Qed.
Print Assumptions wf_never_unknown_passage_partial.

(* the same for every story the compiler model returns (no proviso: since fix 3c6eb71 the validator rejects a jump
   to "@join", so acceptance implies that every jump target is a defined passage) *)
Theorem parse_ok_never_unknown_passage_partial : forall pp is_call xs lines0 story,
  parse pp is_call xs lines0 = POk story ->
  forall orc ctxkeys unknown fuel spec visited s,
    name_defined story spec ->
    goto_rec_g orc ctxkeys story unknown fuel spec visited s = goto_rec orc ctxkeys story fuel spec visited s.
Proof. exact parse_ok_never_unknown_lemma. Qed.
Print Assumptions parse_ok_never_unknown_passage_partial.

(* -- the player's operations -- *)

(* step_g / run_all_g are EngineCheck.step / run_all: the instances with the real raise at both sites *)
Theorem step_g_is_step : forall orc ctxkeys st e o,
  step orc ctxkeys st e o = step_g orc ctxkeys st (raise ValueError) e o.
Proof. exact step_is_g. Qed.
Print Assumptions step_g_is_step.

Theorem run_all_g_is_run_all : forall orc ctxkeys st v0 ops,
  run_all orc ctxkeys st v0 ops =
  run_all_g orc ctxkeys st (raise ValueError) (fun e0 => (e0, Exc ValueError)) v0 ops.
Proof. exact run_all_is_g. Qed.
Print Assumptions run_all_g_is_run_all.

(* the invariant: in a story whose targets are validated (story_targets_defined: every choice target at any depth
   is "@join" or a defined passage, every jump target at any depth a defined passage), every choice offered in a
   state reachable by any history has such a target *)
Theorem offered_targets_defined : forall orc ctxkeys st,
  story_targets_defined st ->
  forall e rc, reach orc ctxkeys st e -> In rc (o_choices (current_out e)) ->
    target_defined (passages st) (ch_target (rc_choice rc)).
Proof. exact reach_offered_targets_defined_lemma. Qed.
Print Assumptions offered_targets_defined.

(* choose() with any integer, in any reachable state, never reaches the unknown-passage site (the whole result -
   new state incl. both stacks and the ghost log, returned output or exception - is the same whatever stands there) *)
Theorem wf_choose_never_unknown_passage : forall orc ctxkeys st,
  names_plain st -> story_targets_defined st ->
  forall unknown e i, reach orc ctxkeys st e ->
    choose_g orc ctxkeys st unknown e i = choose orc ctxkeys st e i.
Proof. exact wf_choose_never_unknown_lemma. Qed.
Print Assumptions wf_choose_never_unknown_passage.

(* every operation (OpGoto on a spec that names a defined passage), in any state reachable by any history *)
Theorem wf_never_unknown_passage : forall orc ctxkeys st,
  names_plain st -> story_targets_defined st ->
  forall unknown e o, reach orc ctxkeys st e -> op_defined st o ->
    step_g orc ctxkeys st unknown e o = step orc ctxkeys st e o.
Proof. exact wf_step_never_unknown_lemma. Qed.
Print Assumptions wf_never_unknown_passage.

(* the same over the histories of run_all, where OpSave / OpLoad use the save slot (`played e slot`: reach, plus
   "keep the core in the slot" and "put the slot's core back with empty stacks") *)
Theorem wf_never_unknown_passage_slot : forall orc ctxkeys st,
  names_plain st -> story_targets_defined st ->
  forall unknown e slot o, played orc ctxkeys st e slot -> op_defined st o ->
    step_g orc ctxkeys st unknown e o = step orc ctxkeys st e o.
Proof. exact wf_played_never_unknown_lemma. Qed.
Print Assumptions wf_never_unknown_passage_slot.

(* whole runs, from __init__ on: what a history shows (every observation and every view) does not depend on what
   stands at the unknown-passage site, nor on what stands at the initial-passage-not-found site *)
Theorem wf_history_never_unknown_passage : forall orc ctxkeys st,
  names_plain st -> story_targets_defined st -> has_key (initial st) (passages st) = true ->
  forall unknown noinit v0 ops, Forall (op_defined st) ops ->
    run_all_g orc ctxkeys st unknown noinit v0 ops = run_all orc ctxkeys st v0 ops.
Proof. exact wf_run_never_unknown_lemma. Qed.
Print Assumptions wf_history_never_unknown_passage.

(* -- the same for every story the compiler model returns, with no further hypothesis -- *)

Theorem parse_ok_offered_targets_defined : forall pp is_call xs lines0 story,
  parse pp is_call xs lines0 = POk story ->
  forall orc ctxkeys e rc, reach orc ctxkeys story e -> In rc (o_choices (current_out e)) ->
    target_defined (passages story) (ch_target (rc_choice rc)).
Proof. exact parse_ok_offered_targets_defined_lemma. Qed.
Print Assumptions parse_ok_offered_targets_defined.

Theorem parse_ok_choose_never_unknown_passage : forall pp is_call xs lines0 story,
  parse pp is_call xs lines0 = POk story ->
  forall orc ctxkeys unknown e i, reach orc ctxkeys story e ->
    choose_g orc ctxkeys story unknown e i = choose orc ctxkeys story e i.
Proof. exact parse_ok_choose_never_unknown_lemma. Qed.
Print Assumptions parse_ok_choose_never_unknown_passage.

Theorem parse_ok_never_unknown_passage : forall pp is_call xs lines0 story,
  parse pp is_call xs lines0 = POk story ->
  forall orc ctxkeys unknown e o, reach orc ctxkeys story e -> op_defined story o ->
    step_g orc ctxkeys story unknown e o = step orc ctxkeys story e o.
Proof. exact parse_ok_step_never_unknown_lemma. Qed.
Print Assumptions parse_ok_never_unknown_passage.

Theorem parse_ok_never_unknown_passage_slot : forall pp is_call xs lines0 story,
  parse pp is_call xs lines0 = POk story ->
  forall orc ctxkeys unknown e slot o, played orc ctxkeys story e slot -> op_defined story o ->
    step_g orc ctxkeys story unknown e o = step orc ctxkeys story e o.
Proof. exact parse_ok_played_never_unknown_lemma. Qed.
Print Assumptions parse_ok_never_unknown_passage_slot.

Theorem parse_ok_history_never_unknown_passage : forall pp is_call xs lines0 story,
  parse pp is_call xs lines0 = POk story ->
  forall orc ctxkeys unknown noinit v0 ops, Forall (op_defined story) ops ->
    run_all_g orc ctxkeys story unknown noinit v0 ops = run_all orc ctxkeys story v0 ops.
Proof. exact parse_ok_run_never_unknown_lemma. Qed.
Print Assumptions parse_ok_history_never_unknown_passage.

(* `-> @join` as a jump is a compile-time diagnostic; what the engine would do with such a story if it were
   accepted is the ValueError of join_jump_unknown (the defect F12a, fixed) *)
Theorem jump_to_join_rejected :
  parse (mkPyparse (fun _ => true) (fun _ => Some (0, [])) (fun _ => 0)) (fun _ => true) no_extractors
        [":: Start"; "hi<>"; "-> @join"] = PDiag (DSyntax "call:jump-to-join" 0) /\
  snd (goto null_orc [] join_jump_story (initial join_jump_story) (mkNS (empty_core []) [] [])) = Exc ValueError.
Proof. split; [exact join_jump_rejected|exact join_jump_unknown]. Qed.
Print Assumptions jump_to_join_rejected.

(* the initial passage of every returned story can be entered without arguments (fix 15f0a5b) *)
Theorem parse_ok_initial_startable : forall pp is_call xs lines0 story,
  parse pp is_call xs lines0 = POk story ->
  exists p, lookup (initial story) (passages story) = Some p /\
            existsb (fun q => match pdefault q with None => true | Some _ => false end) (params p) = false.
Proof. exact parse_ok_initial_startable_lemma. Qed.
Print Assumptions parse_ok_initial_startable.

(* ---- non-vacuity ---- *)

(* a compiled story with a jump chain Start -> Hall -> End satisfies the hypotheses, and the goto
   runs through all three passages *)
Example chain_sample :
  match parse_real (mkPyparse (fun _ => true) (fun _ => Some (0, [])) (fun _ => 0)) (fun _ => true)
                   [":: Start"; "a<>"; "@if x:"; "  -> Hall"; "@endif"; "-> Hall"; ":: Hall"; "b<>"; "-> End"; ":: End"; "c<>"] with
  | POk st =>
      match goto null_orc [] st "Start" (mkNS (empty_core []) [] []) with
      | (_, Ok o) => o_pid o = "End" /\ o_content o = "a" ++ nl ++ nl ++ "b" ++ nl ++ nl ++ "c"
      | _ => False
      end
  | _ => False
  end.
Proof. vm_compute. split; reflexivity. Qed.

(* a compiled story with a choice inside an @if, a choice inside a @for, a `-> @join` choice with a choice in the
   section behind the marker, and the jump chain Cellar -> Hall -> End, played through a history with a join
   choice, undo, the @if choice (three passages entered), save, the @for choice, two rejected indices, a host
   goto, load, an undo on the emptied stack and three more choices: (observation, shown passage, offered
   targets) after __init__ and after each operation.  The same history with OtherError at both sites shows
   the same thing (an instance of parse_ok_history_never_unknown_passage, here by computation). *)
Definition play_lines : list string :=
  [":: Start"; "Welcome.<>";
   "@if x:"; "  + [Cellar] -> Cellar"; "@endif";
   "@for i in items:"; "  + [Room] -> Hall"; "@endfor";
   "* [Rest] -> @join"; "    You rest."; "@join"; "Done."; "+ [Go] -> Hall";
   ":: Hall"; "hall<>"; "-> End";
   ":: Cellar"; "cellar<>"; "-> Hall";
   ":: End"; "end<>"; "+ [Again] -> Start"].
(* every condition holds, every collection is [1] *)
Definition play_orc : pyorc :=
  mkOrc (fun _ _ => Ok (VList [VInt 1])) (fun e _ => Ok e) (fun _ _ => Ok "") (fun _ _ => Ok ([], [])).
Definition play_ops : list op :=
  [OpChoose 0; OpUndo; OpChoose 1; OpSave; OpChoose 0; OpChoose 2; OpChoose 7; OpChoose (-1); OpGoto "Cellar";
   OpLoad; OpUndo; OpChoose 0; OpChoose 0; OpChoose 0].
Definition brief (r : list (obs * view)) : list (obs * string * list string) :=
  map (fun ov => (fst ov, v_pid (snd ov), map (fun c => snd (fst c)) (v_choices (snd ov)))) r.

Example play_sample :
  match parse_real (mkPyparse (fun _ => true) (fun _ => Some (0, [])) (fun _ => 0)) (fun _ => true) play_lines with
  | POk st =>
      brief (run_all play_orc [] st [] play_ops) =
      [(ObsOk, "Start", ["@join"; "Cellar"; "Hall"]);
       (ObsOk, "Start", ["Hall"]);
       (ObsBool true, "Start", ["@join"; "Cellar"; "Hall"]);
       (ObsOk, "End", ["Start"]); (ObsOk, "End", ["Start"]);
       (ObsOk, "Start", ["@join"; "Cellar"; "Hall"]);
       (ObsOk, "End", ["Start"]); (ObsExc IndexError, "End", ["Start"]);
       (ObsExc IndexError, "End", ["Start"]); (ObsOk, "End", ["Start"]);
       (ObsOk, "End", ["Start"]); (ObsBool false, "End", ["Start"]);
       (ObsOk, "Start", ["@join"; "Cellar"; "Hall"]);
       (ObsOk, "Start", ["Hall"]); (ObsOk, "End", ["Start"])] /\
      run_all_g play_orc [] st (raise OtherError) (fun e0 => (e0, Exc OtherError)) [] play_ops =
      run_all play_orc [] st [] play_ops
  | _ => False
  end.
Proof. vm_compute. split; reflexivity. Qed.

(* the parameter stands at a site that IS reached when a target is not defined (a hand-built story whose only
   choice leads to the undefined "Ghost"): choose raises the ValueError, choose_g whatever was put there *)
Definition ghost_story : story :=
  mkStory "Start"
    [("Start", mkPassage "Start" [] [TText "hi"] [Choice [TText "go"] "Ghost" "" None true 0 [] []] [] [] [])] [] [].

Example unknown_site_is_live :
  let e := fst (init null_orc [] ghost_story []) in
  snd (choose null_orc [] ghost_story e 0) = Exc ValueError /\
  snd (choose_g null_orc [] ghost_story (raise OtherError) e 0) = Exc OtherError.
Proof. vm_compute. split; reflexivity. Qed.

(* =========================================================================================== *)
(* The compiled story as JSON data and as JSON text (Story/StoryJson.v) *)
(* =========================================================================================== *)
From Coq Require Import String Ascii List Bool ZArith.
From Bardic Require Import PyStr Value Compiled Codec JsonText JsonTextProofs Engine EngineCheck StoryJson StoryJsonProofs.
Module StoryAsJson.

(* ---- C12: the compiled story as JSON data (Story/StoryJson.v, Proofs/StoryJsonProofs.v) ---- *)
Import ListNotations.
Local Open Scope string_scope.
Local Open Scope list_scope.


(* ---- the compiled story is plain JSON data and survives the JSON round trip ---- *)

(* the strict reader inverts the writer on EVERY dict AST, at any nesting depth: the dict the compiler returns
   (jstory_to_json js - the tie checks inside Coq that this IS the real dict, key for key) determines js *)
Theorem compiled_dict_reader_inverts_writer : forall js, jstory_of_json (jstory_to_json js) = Some js.
Proof. exact jstory_rt. Qed.
Print Assumptions compiled_dict_reader_inverts_writer.

Theorem story_json_roundtrip : forall st, story_of_json (story_to_json st) = Some st.
Proof. exact StoryJsonProofs.story_json_roundtrip. Qed.
Print Assumptions story_json_roundtrip.

(* a Python dict has pairwise distinct keys: jstory_kdb / story_kdb say so of the AST (passage keys, metadata keys,
   @input attribute names incl. "type", passage extras); all fixed member names are distinct by construction *)
Theorem compiled_dict_keys_distinct : forall js, jstory_kdb js = true -> keys_distinct (jstory_to_json js).
Proof. exact jstory_kd. Qed.
Print Assumptions compiled_dict_keys_distinct.

Theorem story_json_keys_distinct : forall st, story_kdb st = true -> keys_distinct (story_to_json st).
Proof. exact StoryJsonProofs.story_json_keys_distinct. Qed.
Print Assumptions story_json_keys_distinct.

(* json.loads(json.dumps(d, indent=2)) = d for the dict of every compiled story, and the reader gets the AST back *)
Theorem compiled_dict_survives_json_text : forall js, jstory_kdb js = true ->
  loads (dumps_indent2 (jstory_to_json js)) = Some (jstory_to_json js) /\
  jstory_of_json (jstory_to_json js) = Some js /\
  story_of_json (jstory_to_json js) = Some (forget js).
Proof. exact compiled_dict_file_reads_back. Qed.
Print Assumptions compiled_dict_survives_json_text.

(* what the tie evaluates on the real dict is sound for the hypothesis of the text theorems *)
Theorem json_kdb_sound : forall j, json_kdb j = true -> keys_distinct j.
Proof. exact StoryJsonProofs.json_kdb_sound. Qed.
Print Assumptions json_kdb_sound.

(* non-vacuity: a story with every token kind, nesting, a @join choice with a block, an @input *)
Definition sj_demo : story :=
  mkStory "Start"
    [("Start", mkPassage "Start" [] 
        [TText "Hi "; TExpr "hp:>3"; TInlineCond "hp > 0" [TText "alive"] [TExpr "name"; TText "\"];
         TCond [Branch "hp > 1" [TText "a"; TLoop "i" "xs" [TExpr "i"; TJump "End" "i"] [Choice [TText "in loop"] "End" "i" None true 0 [] []]] [];
                Branch "True" [] [Choice [TText "c"] "End" "1" (Some "hp") false 0 ["T"] []]];
         TRender "card" "x=1" None; TRender "card" "" (Some "react"); TInput [("name", "who"); ("label", "Who")];
         TJoinMarker 0; TText "after"]
        [Choice [TText "go "; TExpr "n"] "@join" "" None true 0 [] [TText "block"; TPyStmt "hp = 2"];
         Choice [TText "end"] "End" "hp, 2" (Some "hp > 0") false 1 ["BOLD"] []]
        [TPyStmt "hp = 5"; TPyBlock "xs = [1]
name = 'n'"; THook true "turn_end" "End"; THook false "turn_end" "End"]
        ["intro"] [[("name", "who"); ("label", "Who")]]);
     ("End", mkPassage "End" [mkParam "x" None; mkParam "y" (Some "2")] [TText "bye"] [] [] [] [])]
    ["import math"] [("title", "Demo"); ("version", "1")].

Example sj_demo_is_dict : story_kdb sj_demo = true.
Proof. vm_compute. reflexivity. Qed.
Example sj_demo_roundtrip : story_of_json (story_to_json sj_demo) = Some sj_demo.
Proof. vm_compute. reflexivity. Qed.
Example sj_demo_file : loads (dumps_indent2 (story_to_json sj_demo)) = Some (story_to_json sj_demo).
Proof. vm_compute. reflexivity. Qed.
(* what the dict looks like (compact json.dumps of a one-passage story) *)
Example sj_tiny_text :
  dumps (story_to_json (mkStory "S" [("S", mkPassage "S" [] [TText "x"] [Choice [TText "go"] "S" "" None true 0 [] []] [] [] [])] [] [])) =
  "{""version"": ""0.1.0"", ""initial_passage"": ""S"", ""metadata"": {}, ""imports"": [], ""passages"": {""S"": {""id"": ""S"", ""params"": [], ""content"": [{""type"": ""text"", ""value"": ""x""}], ""choices"": [{""text"": [{""type"": ""text"", ""value"": ""go""}], ""target"": ""S"", ""args"": """", ""condition"": null, ""sticky"": true, ""tags"": [], ""section"": 0}], ""execute"": [], ""tags"": []}}}".
Proof. vm_compute. reflexivity. Qed.
(* the members the engine view forgets are part of the dict AST: a tagged text token, a section-less choice, extras *)
Example sj_real_shape :
  let js := mkJStory "0.1.0" (Some "S") [] []
      [("S", mkJPassage "S" [] [JTText "x" (Some ["T"]); JTCond [JBranch "c" [] (Some [JChoice [] "S" "" None true [] None None (Some [JTPyStmt "a = 1"])])]] [] [] []
                        [PXInputs [[("name", "n")]]; PXSection 1; PXJoinCount 1])] in
  jstory_kdb js = true /\ jstory_of_json (jstory_to_json js) = Some js /\
  loads (dumps_indent2 (jstory_to_json js)) = Some (jstory_to_json js) /\
  story_to_json (forget js) <> jstory_to_json js.
Proof. vm_compute. repeat split. discriminate. Qed.
(* the hypothesis is needed: an AST with a repeated passage key is not a Python dict, and its text does not read back *)
Example sj_not_a_dict :
  let st := mkStory "S" [("S", mkPassage "S" [] [] [] [] [] []); ("S", mkPassage "S" [] [TText "2"] [] [] [] [])] [] [] in
  story_kdb st = false /\ loads (dumps_indent2 (story_to_json st)) <> Some (story_to_json st).
Proof. vm_compute. split; [reflexivity|discriminate]. Qed.
(* the strict reader is a schema check: another member order, an unknown kind, an extra member are rejected *)
Example sj_reader_strict :
  tok_of_json (JObj [("value", JStr "x"); ("type", JStr "text")]) = None /\
  tok_of_json (JObj [("type", JStr "texty"); ("value", JStr "x")]) = None /\
  tok_of_json (JObj [("type", JStr "text"); ("value", JStr "x"); ("more", JNull)]) = None /\
  tok_of_json (JObj [("type", JStr "text"); ("value", JStr "x")]) = Some (JTText "x" None).
Proof. vm_compute. repeat split. Qed.
End StoryAsJson.
