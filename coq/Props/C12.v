(* C12 - every compiled story is well-formed JSON data and is navigation-safe.

   Structural half (about Compiler/ParseMain.v `parse`, for ALL extractors, oracles and line lists):
   what holds of every story the compiler model returns - the initial passage exists and follows
   @start > "Start" > first, every passage is keyed by its own id, every key is a valid passage name,
   and every choice/jump target at any depth of conditionals and loops is a defined passage or "@join"
   (validate_walk_sound is the statement about the validator's walk over ARBITRARY token trees, so it
   covers whatever the block extractors build).  "Only documented token kinds" holds by typing
   (Story/Compiled.v `token`; the one way the real dict escaped that typing - an @input attribute
   named type - was fixed by 74386b3 and is watched by harness/c12.py).

   Navigation half (about Engine/Engine.v `goto_rec`): exceptions of the engine model carry a kind,
   not a message, and ValueError has three raise sites in goto_rec, so "never raises the
   unknown-passage ValueError" is stated through `goto_rec_g unknown` = goto_rec with an arbitrary
   computation `unknown` at that one site (goto_rec is the instance `raise ValueError`,
   StoryWfProofs.goto_rec_is_g): the result does not depend on `unknown`, at any hop of the chain.
   _partial: (1) it covers the goto chain (goto, jumps at any depth), not yet choose() - a choice target goes
   through the same goto, with the same proof, but the statement over `choose` is not made here; (2) argument
   binding (the other half of navigation safety) is the subject of Props/C07.v and of the play-through of
   harness/c12.py.  Two genuine defects found by harness/c12.py were fixed in /repo and the model follows them:
   `-> @join` as a JUMP was accepted (fix 3c6eb71: now a diagnostic, jump_to_join_rejected; the former proviso
   "no jump targets @join" of parse_ok_never_unknown_passage_partial is gone) and an initial passage with a
   required parameter was accepted (fix 15f0a5b: parse_ok_initial_startable).
   Carried by harness/c12.py only: JSON round trip of the real dict, argument shapes. *)
From Coq Require Import String Ascii List Bool Arith.
From Bardic Require Import PyStr Value Compiled Lex ParseBase ParseLine ParseMain ParseProofs.
From Bardic Require Import Engine StoryWfProofs ParseBlocks ParseBlocksInst ParseAllProofs.
Import ListNotations.
Local Open Scope string_scope.

(* ---- structural half ---- *)

(* the initial passage is a key of the story's passages and follows @start > "Start" > first *)
Theorem parse_ok_initial_exists : forall pp is_call xs lines0 story,
  parse pp is_call xs lines0 = POk story ->
  has_key (initial story) (passages story) = true /\
  exists fs,
    (let lines := strip_comments_outside_python lines0 None false 0 in
     parse_loop pp xs (S (List.length lines)) lines (List.length lines) 0 init_state = POk fs) /\
    follows_priority (passages story) (st_explicit_start fs) (initial story).
Proof. exact parse_ok_initial_lemma. Qed.
Print Assumptions parse_ok_initial_exists.

(* each passage is keyed by its own id *)
Theorem parse_ok_keys_are_ids : forall pp is_call xs lines0 story,
  parse pp is_call xs lines0 = POk story ->
  forall k p, In (k, p) (passages story) -> pid p = k.
Proof. exact parse_ok_keys_lemma. Qed.
Print Assumptions parse_ok_keys_are_ids.

(* each key is a valid passage name: [a-zA-Z_][a-zA-Z0-9_.]* *)
Theorem parse_ok_names_valid : forall pp is_call xs lines0 story,
  parse pp is_call xs lines0 = POk story ->
  forall k p, In (k, p) (passages story) -> valid_passage_pattern k = true.
Proof. exact parse_ok_names_lemma. Qed.
Print Assumptions parse_ok_names_valid.

(* the validator's walk is sound on arbitrary token trees: if it accepts a token, every jump and
   choice target in it, at any depth of conditionals and loops, is a defined passage or "@join" *)
Theorem validate_walk_sound : forall pp is_call ps t,
  check_token pp is_call ps t = POk tt -> targets_ok ps t.
Proof. exact check_token_targets. Qed.
Print Assumptions validate_walk_sound.

(* hence for every story parse returns: all targets of all passages are defined *)
Theorem validated_targets_defined : forall pp is_call xs lines0 story,
  parse pp is_call xs lines0 = POk story ->
  forall k p, In (k, p) (passages story) ->
    choices_targets_ok (passages story) (choices p) /\ tokens_targets_ok (passages story) (content p).
Proof. exact validated_targets_lemma. Qed.
Print Assumptions validated_targets_defined.

(* ---- navigation half ---- *)

(* in a story whose jump tokens (at any depth) target defined passages and whose passage names
   contain no "(", a goto on a spec naming a defined passage never reaches the unknown-passage site,
   at any hop, for every oracle, fuel, visited list and state *)
Theorem wf_never_unknown_passage_partial : forall orc ctxkeys st,
  story_jumps_defined st -> names_plain st ->
  forall unknown fuel spec visited s,
    name_defined st spec ->
    goto_rec_g orc ctxkeys st unknown fuel spec visited s = goto_rec orc ctxkeys st fuel spec visited s.
Proof. exact wf_never_unknown_passage_lemma. Qed.
Print Assumptions wf_never_unknown_passage_partial.

(* the same for every story the compiler model returns (no proviso: since fix 3c6eb71 the validator rejects a jump
   to "@join", so acceptance implies that every jump target is a defined passage) *)
Theorem parse_ok_never_unknown_passage_partial : forall pp is_call xs lines0 story,
  parse pp is_call xs lines0 = POk story ->
  forall orc ctxkeys unknown fuel spec visited s,
    name_defined story spec ->
    goto_rec_g orc ctxkeys story unknown fuel spec visited s = goto_rec orc ctxkeys story fuel spec visited s.
Proof. exact parse_ok_never_unknown_lemma. Qed.
Print Assumptions parse_ok_never_unknown_passage_partial.

(* `-> @join` as a jump is a compile-time diagnostic; what the engine would do with such a story if it were
   accepted is the ValueError of join_jump_unknown (the defect F12a, fixed) *)
Theorem jump_to_join_rejected :
  parse (mkPyparse (fun _ => true) (fun _ => Some (0, []))) (fun _ => true) no_extractors
        [":: Start"; "hi<>"; "-> @join"] = PDiag (DSyntax "call:jump-to-join" 0) /\
  snd (goto null_orc [] join_jump_story (initial join_jump_story) (mkNS (empty_core []) [] [])) = Exc ValueError.
Proof. split; [exact join_jump_rejected|exact join_jump_unknown]. Qed.
Print Assumptions jump_to_join_rejected.

(* the initial passage of every returned story can be entered without arguments (fix 15f0a5b) *)
Theorem parse_ok_initial_startable : forall pp is_call xs lines0 story,
  parse pp is_call xs lines0 = POk story ->
  exists p, lookup (initial story) (passages story) = Some p /\
            existsb (fun q => match pdefault q with None => true | Some _ => false end) (params p) = false.
Proof. exact parse_ok_initial_startable_lemma. Qed.
Print Assumptions parse_ok_initial_startable.

(* ---- non-vacuity ---- *)

(* a compiled story with a jump chain Start -> Hall -> End satisfies the hypotheses, and the goto
   runs through all three passages *)
Example chain_sample :
  match parse_real (mkPyparse (fun _ => true) (fun _ => Some (0, []))) (fun _ => true)
                   [":: Start"; "a<>"; "@if x:"; "  -> Hall"; "@endif"; "-> Hall"; ":: Hall"; "b<>"; "-> End"; ":: End"; "c<>"] with
  | POk st =>
      match goto null_orc [] st "Start" (mkNS (empty_core []) [] []) with
      | (_, Ok o) => o_pid o = "End" /\ o_content o = "a" ++ nl ++ nl ++ "b" ++ nl ++ nl ++ "c"
      | _ => False
      end
  | _ => False
  end.
Proof. vm_compute. split; reflexivity. Qed.
