(* C13 — @include is textual substitution with exact line provenance; cycles are rejected.
   Property theorems only; proofs are in Proofs/IncludeProofs.v.  Every theorem is for an arbitrary file
   system `fs : path -> option lines` and an arbitrary path resolution `rel`.
   The "whichever entry point (compile, play, bundle)" clause is about CLI glue code and is carried by the
   correspondence check (harness/c13.py), not by a theorem. *)
From Coq Require Import String Ascii List Bool Arith Lia.
From Bardic Require Import PyStr.
From Bardic Require Import Include IncludeCheck IncludeProofs.
Import ListNotations.
Local Open Scope string_scope.

(* ---- substitution ---- *)

(* When resolution succeeds, the output is the unfolding of the include tree given by the specification
   `Subst` (no seen set, no fuel, no errors) ... *)
Theorem resolve_is_substitution : forall fs rel fuel seen path lines out map,
  resolve fs rel fuel seen path lines = Ok out map -> Subst fs rel path lines out.
Proof. exact resolve_subst. Qed.
Print Assumptions resolve_is_substitution.

(* ... which determines the text uniquely. *)
Theorem substitution_unique : forall fs rel path lines o1 o2,
  Subst fs rel path lines o1 -> Subst fs rel path lines o2 -> o1 = o2.
Proof. intros fs rel path lines o1 o2 H1 H2. exact (Subst_functional fs rel path lines o1 H1 o2 H2). Qed.
Print Assumptions substitution_unique.

(* The same for parse_file's read-then-resolve: the text is the one and only unfolding of the entry file. *)
Theorem resolve_file_is_substitution : forall fs rel fuel entry out map,
  resolve_file fs rel fuel entry = Ok out map ->
  exists lines, fs entry = Some lines /\ Subst fs rel entry lines out /\
                forall out', Subst fs rel entry lines out' -> out' = out.
Proof. exact resolve_file_subst. Qed.
Print Assumptions resolve_file_is_substitution.

(* ---- provenance ---- *)

(* The line map has one entry per output line; entry i names a file of the file system and a 0-based line
   index in it, that line of that file is output line i, and it is not an include directive. *)
Theorem line_map_provenance : forall fs rel fuel entry out map,
  resolve_file fs rel fuel entry = Ok out map ->
  length map = length out /\
  forall i, i < length out ->
    let line := nth i out "" in
    let file := fst (nth i map ("", 0)) in
    let idx := snd (nth i map ("", 0)) in
    is_include line = false /\
    exists file_lines, fs file = Some file_lines /\ nth_error file_lines idx = Some line.
Proof. exact resolve_file_prov_nth. Qed.
Print Assumptions line_map_provenance.

(* The general form (text of the file being resolved supplied by the caller, any seen set). *)
Theorem line_map_provenance_general : forall fs rel fuel seen path lines out map,
  resolve fs rel fuel seen path lines = Ok out map ->
  Forall2 (Origin fs path lines) out map.
Proof. exact resolve_prov. Qed.
Print Assumptions line_map_provenance_general.

(* ---- cycles ---- *)

(* If a file reachable from the entry file includes itself transitively, resolution never succeeds ... *)
Theorem cycle_rejected : forall fs rel entry p,
  reach fs rel entry p -> plus fs rel p p ->
  forall fuel out map, resolve_file fs rel fuel entry <> Ok out map.
Proof. exact cycle_never_ok. Qed.
Print Assumptions cycle_rejected.

(* ... and unless a missing file or a malformed directive is reachable too (either may come first in
   traversal order), the outcome is Cycle (ValueError), naming a file that is on a cycle. *)
Theorem cycle_reported_as_cycle : forall fs rel univ fuel entry p,
  closed fs rel univ -> In entry univ -> length univ <= fuel ->
  reach fs rel entry p -> plus fs rel p p ->
  (forall q, reach fs rel entry q -> ~ has_missing fs rel q) ->
  (forall q, reach fs rel entry q -> ~ has_bad fs q) ->
  exists q, resolve_file fs rel fuel entry = Cycle q /\ reach fs rel entry q /\ plus fs rel q q.
Proof. exact cycle_reported. Qed.
Print Assumptions cycle_reported_as_cycle.

(* A file that includes itself (after lines that resolve) is reported as a cycle. *)
Theorem self_include_is_cycle : forall fs rel f seen p pre l post a o1 m1,
  resolve fs rel (S f) seen p pre = Ok o1 m1 ->
  classify l = Inc a -> rel p a = p -> fs p <> None ->
  resolve fs rel (S f) seen p (pre ++ l :: post) = Cycle p.
Proof. exact self_include_cycle. Qed.
Print Assumptions self_include_is_cycle.

(* ---- diamonds ---- *)

(* Cycle is reported only for a real cycle: a file reached along two different branches is never mistaken
   for one. *)
Theorem diamond_accepted : forall fs rel fuel entry q,
  resolve_file fs rel fuel entry = Cycle q -> reach fs rel entry q /\ plus fs rel q q.
Proof. exact cycle_only_if_cycle. Qed.
Print Assumptions diamond_accepted.

(* Hence any include graph without cycles, missing files and malformed directives (a DAG: diamonds
   allowed) resolves. *)
Theorem dag_accepted : forall fs rel univ fuel entry,
  closed fs rel univ -> In entry univ -> fs entry <> None -> length univ <= fuel ->
  (forall q, reach fs rel entry q -> ~ plus fs rel q q) ->
  (forall q, reach fs rel entry q -> ~ has_missing fs rel q) ->
  (forall q, reach fs rel entry q -> ~ has_bad fs q) ->
  exists out map, resolve_file fs rel fuel entry = Ok out map.
Proof. exact dag_ok. Qed.
Print Assumptions dag_accepted.

(* The seen set is per branch: whatever the earlier lines `pre` of a file included, the file named by the
   next directive is resolved with exactly base_path :: seen. *)
Theorem sibling_seen_is_branch_local : forall fs rel f seen p pre l a ils o1 m1,
  resolve fs rel (S f) seen p pre = Ok o1 m1 ->
  classify l = Inc a -> fs (rel p a) = Some ils ->
  resolve fs rel (S f) seen p (pre ++ [l]) =
  match resolve fs rel f (p :: seen) (rel p a) ils with
  | Ok o2 m2 => Ok (o1 ++ o2) (m1 ++ m2)
  | Missing _ => Missing (rel p a)
  | e => e
  end.
Proof. exact sibling_seen_unchanged. Qed.
Print Assumptions sibling_seen_is_branch_local.

(* ---- missing files, malformed directives ---- *)

(* An include of a file that does not exist, after lines that resolve, is FileNotFoundError ... *)
Theorem missing_reported : forall fs rel f seen p pre l post a o1 m1,
  resolve fs rel (S f) seen p pre = Ok o1 m1 ->
  classify l = Inc a -> fs (rel p a) = None ->
  resolve fs rel (S f) seen p (pre ++ l :: post) = Missing (rel p a).
Proof. exact missing_direct. Qed.
Print Assumptions missing_reported.

(* ... also when it is discovered deeper down (each level re-raises FileNotFoundError naming its own
   directive's target) ... *)
Theorem missing_propagates : forall fs rel f seen p pre l post a ils x o1 m1,
  resolve fs rel (S f) seen p pre = Ok o1 m1 ->
  classify l = Inc a -> fs (rel p a) = Some ils ->
  resolve fs rel f (p :: seen) (rel p a) ils = Missing x ->
  resolve fs rel (S f) seen p (pre ++ l :: post) = Missing (rel p a).
Proof. exact missing_wrapped. Qed.
Print Assumptions missing_propagates.

(* ... and wherever in the reachable graph it is, resolution never succeeds. *)
Theorem missing_never_accepted : forall fs rel entry p,
  reach fs rel entry p -> has_missing fs rel p ->
  forall fuel out map, resolve_file fs rel fuel entry <> Ok out map.
Proof. exact missing_never_ok. Qed.
Print Assumptions missing_never_accepted.

Theorem malformed_directive_reported : forall fs rel f seen p pre l post k o1 m1,
  resolve fs rel (S f) seen p pre = Ok o1 m1 ->
  classify l = Bad k ->
  resolve fs rel (S f) seen p (pre ++ l :: post) = BadDirective k (length pre) p.
Proof. exact bad_direct. Qed.
Print Assumptions malformed_directive_reported.

(* Every reported error is real: Cycle names a file on a cycle, Missing implies a reachable include of a
   file that does not exist, BadDirective names a reachable file and the 0-based index of a malformed
   directive line in it. *)
Theorem errors_are_real : forall fs rel fuel entry,
  fs entry <> None -> Sound fs rel entry (resolve_file fs rel fuel entry).
Proof. exact resolve_file_sound. Qed.
Print Assumptions errors_are_real.

(* ---- termination ---- *)

(* With fuel >= the length of any list `univ` that contains the entry file and every existing file named
   by a directive of one of its files, the fuel never runs out ... *)
Theorem fuel_enough : forall fs rel univ fuel entry,
  closed fs rel univ -> (fs entry <> None -> In entry univ) -> length univ <= fuel ->
  resolve_file fs rel fuel entry <> OutOfFuel.
Proof. exact resolve_file_fuel. Qed.
Print Assumptions fuel_enough.

(* ... in particular with fuel > the number of distinct paths in univ. *)
Theorem fuel_enough_distinct : forall fs rel univ fuel entry,
  closed fs rel univ -> (fs entry <> None -> In entry univ) ->
  length (nodup string_dec univ) < fuel ->
  resolve_file fs rel fuel entry <> OutOfFuel.
Proof. exact resolve_file_fuel_distinct. Qed.
Print Assumptions fuel_enough_distinct.

(* For a finite file system no hypothesis is needed: the fuel the model uses, S (number of files), is
   enough, and any larger fuel gives the same outcome. *)
Theorem resolve_terminates : forall files rel entry,
  resolve_includes files rel entry <> OutOfFuel.
Proof. exact resolve_includes_terminates. Qed.
Print Assumptions resolve_terminates.

Theorem fuel_irrelevant : forall files rel entry fuel,
  S (length files) <= fuel ->
  resolve_file (fs_of files) rel fuel entry = resolve_includes files rel entry.
Proof. exact resolve_includes_fuel_irrelevant. Qed.
Print Assumptions fuel_irrelevant.

(* ---- non-vacuity: concrete file systems ---- *)

(* a diamond over nested directories: main -> a, b ; a -> ../w/sub/c ; b -> ./sub/c *)
Definition diamond_fs : list (string * list string) :=
  [ ("/w/main.bard", ["@include a.bard"; ":: Start"; "  @include ./b.bard"; "end"]);
    ("/w/a.bard",    [":: A"; "@include ../w/sub/c.bard"]);
    ("/w/b.bard",    ["@include sub/c.bard"; ":: B"; ""]);
    ("/w/sub/c.bard", ["shared"]) ].

Example diamond_ok :
  resolve_includes diamond_fs rel_posix "/w/main.bard" =
  Ok [":: A"; "shared"; ":: Start"; "shared"; ":: B"; ""; "end"]
     [("/w/a.bard", 0); ("/w/sub/c.bard", 0); ("/w/main.bard", 1); ("/w/sub/c.bard", 0);
      ("/w/b.bard", 1); ("/w/b.bard", 2); ("/w/main.bard", 3)].
Proof. vm_compute. reflexivity. Qed.

(* the hypotheses of dag_accepted / line_map_provenance are met by it: the graph really has a node
   reached along two branches *)
Example diamond_two_branches :
  plus (fs_of diamond_fs) rel_posix "/w/a.bard" "/w/sub/c.bard" /\
  plus (fs_of diamond_fs) rel_posix "/w/b.bard" "/w/sub/c.bard".
Proof.
  split; apply plus_one.
  - exists [":: A"; "@include ../w/sub/c.bard"], "@include ../w/sub/c.bard", "../w/sub/c.bard".
    repeat split; [right; left; reflexivity].
  - exists ["@include sub/c.bard"; ":: B"; ""], "@include sub/c.bard", "sub/c.bard".
    repeat split; [left; reflexivity].
Qed.

(* a two-file cycle below the entry file, a self-include, a missing leaf, malformed directives *)
Definition cycle_fs : list (string * list string) :=
  [ ("/w/main.bard", ["text"; "@include d/x.bard"]);
    ("/w/d/x.bard", ["@include y.bard"]);
    ("/w/d/y.bard", ["line"; "@include ../d/x.bard"]) ].

Example cycle_is_value_error :
  resolve_includes cycle_fs rel_posix "/w/main.bard" = Cycle "/w/d/x.bard".
Proof. vm_compute. reflexivity. Qed.

Example cycle_hypotheses_met :
  reach (fs_of cycle_fs) rel_posix "/w/main.bard" "/w/d/x.bard" /\
  plus (fs_of cycle_fs) rel_posix "/w/d/x.bard" "/w/d/x.bard".
Proof.
  assert (E1 : edge (fs_of cycle_fs) rel_posix "/w/main.bard" "/w/d/x.bard").
  { exists ["text"; "@include d/x.bard"], "@include d/x.bard", "d/x.bard".
    repeat split; [right; left; reflexivity]. }
  assert (E2 : edge (fs_of cycle_fs) rel_posix "/w/d/x.bard" "/w/d/y.bard").
  { exists ["@include y.bard"], "@include y.bard", "y.bard". repeat split; [left; reflexivity]. }
  assert (E3 : edge (fs_of cycle_fs) rel_posix "/w/d/y.bard" "/w/d/x.bard").
  { exists ["line"; "@include ../d/x.bard"], "@include ../d/x.bard", "../d/x.bard".
    repeat split; [right; left; reflexivity]. }
  split; [right; apply plus_one; exact E1 | eapply plus_step; [exact E2 | apply plus_one; exact E3]].
Qed.

Example self_include_example :
  resolve_includes [("/s.bard", ["a"; "  @include ./s.bard"])] rel_posix "/s.bard" = Cycle "/s.bard".
Proof. vm_compute. reflexivity. Qed.

Example missing_example :
  resolve_includes [("/m.bard", ["@include sub/a.bard"]); ("/sub/a.bard", ["x"; "@include ../gone.bard"])]
                   rel_posix "/m.bard" = Missing "/sub/a.bard".
Proof. vm_compute. reflexivity. Qed.

Example malformed_examples :
  resolve_includes [("/m.bard", ["x"; "@include"])] rel_posix "/m.bard" = BadDirective MissingPath 1 "/m.bard" /\
  resolve_includes [("/m.bard", ["@include a b"])] rel_posix "/m.bard" = BadDirective MultipleFiles 0 "/m.bard" /\
  resolve_includes [("/m.bard", ["@includes x"])] rel_posix "/m.bard" = BadDirective MultipleFiles 0 "/m.bard".
Proof. vm_compute. repeat split. Qed.

(* an empty included file contributes one (empty) line and one map entry, as "\n".join does *)
Example empty_file_example :
  resolve_includes [("/m.bard", ["a"; "@include e.bard"; "b"]); ("/e.bard", [""])] rel_posix "/m.bard" =
  Ok ["a"; ""; "b"] [("/m.bard", 0); ("/e.bard", 0); ("/m.bard", 2)].
Proof. vm_compute. reflexivity. Qed.
