(* C14 — A diagnostic names the file and line where the malformed construct stands.
   Property theorems only; proofs are in Proofs/DiagProofs.v.

   Two halves.  (a) What format_error displays as a function of the line_num it is given (Compiler/Diag.v,
   tied to errors.py by the correspondence run).  (b) What each raise site gives it: the site table is
   re-extracted from the parser sources on every run (harness/c14_sites.py) and the finite-domain obligation
   `forallb site_ok site_table = true` is discharged by vm_compute in the generated file; the theorem
   `every_site_of_an_ok_table_displays_the_true_location` below is what that obligation buys.
   That the index a site has in hand IS the index of the malformed construct (per construct kind and
   position) is carried by the behavioural oracle of harness/c14.py, not by these theorems. *)
From Coq Require Import ZArith List Bool String Lia.
From Bardic Require Import Diag DiagProofs.
Import ListNotations.
Local Open Scope Z_scope.
Local Open Scope string_scope.

(* A site that passes the 0-based index i of the offending line, with a line map whose entry i is (f, n):
   the header names file f and line n + 1 (the 1-based line in the originating file) and the pointer stands
   under the offending line, numbered n + 1. *)
Theorem display_correct_for_index_sites : forall i lines filename lm f n text,
  nth_error lines i = Some text ->
  nth_error (lm_list lm) i = Some (f, n) ->
  location (format_error (Z.of_nat i) lines filename lm) = Some (shown_file (Some f), n + 1) /\
  pointed (format_error (Z.of_nat i) lines filename lm) = Some (n + 1, text).
Proof. exact index_site_with_map. Qed.
Print Assumptions display_correct_for_index_sites.

(* ... and without a line map (None or empty): the given file name and line i + 1. *)
Theorem display_correct_for_index_sites_without_map : forall i lines filename lm text,
  nth_error lines i = Some text ->
  lm_list lm = [] ->
  location (format_error (Z.of_nat i) lines filename lm) = Some (shown_file filename, Z.of_nat i + 1) /\
  pointed (format_error (Z.of_nat i) lines filename lm) = Some (Z.of_nat i + 1, text).
Proof. exact index_site_without_map. Qed.
Print Assumptions display_correct_for_index_sites_without_map.

(* A site that passes i + 1 displays the location of the NEXT concatenated line ... *)
Theorem display_off_by_one_for_plus1_sites : forall i lines filename m f' n',
  nth_error m (S i) = Some (f', n') ->
  location (format_error (Z.of_nat i + 1) lines filename (Some m)) = Some (shown_file (Some f'), n' + 1).
Proof. exact plus1_with_map. Qed.
Print Assumptions display_off_by_one_for_plus1_sites.

(* ... which is not the true location exactly when the next entry of the map differs from this one (always,
   unless the same one-line file is included twice in a row) ... *)
Theorem plus1_differs_from_truth : forall i lines filename m f n f' n',
  nth_error m i = Some (f, n) -> nth_error m (S i) = Some (f', n') ->
  f <> "" -> f' <> "" -> (f', n') <> (f, n) ->
  location (format_error (Z.of_nat i + 1) lines filename (Some m)) <>
  location (format_error (Z.of_nat i) lines filename (Some m)).
Proof. exact plus1_differs. Qed.
Print Assumptions plus1_differs_from_truth.

(* ... on the last line of the source it leaves the map and shows the main file name with the concatenated
   number + 2 ... *)
Theorem plus1_past_end_of_map : forall i lines filename m,
  (List.length m <= S i)%nat ->
  location (format_error (Z.of_nat i + 1) lines filename (Some m)) = Some (shown_file filename, Z.of_nat i + 2).
Proof. exact plus1_past_end. Qed.
Print Assumptions plus1_past_end_of_map.

(* ... and without a map it is one line too far, always. *)
Theorem plus1_without_map_off_by_one : forall i lines filename,
  location (format_error (Z.of_nat i + 1) lines filename None) = Some (shown_file filename, Z.of_nat i + 2) /\
  location (format_error (Z.of_nat i + 1) lines filename None) <>
  location (format_error (Z.of_nat i) lines filename None).
Proof. exact plus1_without_map_both. Qed.
Print Assumptions plus1_without_map_off_by_one.

(* At an include boundary the i + 1 convention names the wrong FILE: main.bard is
   [":: Start"; "@include inc.bard"; "Tail."], inc.bard is [":: Inc"; "Hello {x"]; the unclosed brace stands
   on line 2 of inc.bard (concatenated index 2) and is reported on line 3 of main.bard. *)
Definition boundary_lines := [":: Start"; ":: Inc"; "Hello {x"; "Tail."].
Definition boundary_map : list source_location :=
  [("main.bard", 0); ("inc.bard", 0); ("inc.bard", 1); ("main.bard", 2)].
Theorem plus1_names_wrong_file_refuted :
  exists lines m i f n,
    nth_error m i = Some (f, n) /\
    location (format_error (Z.of_nat i) lines (Some "main.bard") (Some m)) = Some (Some "inc.bard", 2) /\
    location (format_error (Z.of_nat i + 1) lines (Some "main.bard") (Some m)) = Some (Some "main.bard", 3).
Proof.
  exists boundary_lines, boundary_map, 2%nat, "inc.bard", 1. vm_compute. repeat split.
Qed.
Print Assumptions plus1_names_wrong_file_refuted.

(* The table theorem: if every row of a site table satisfies site_ok then every row displays the true
   location (Diag.site_displays_right: a value is passed for every position, over the full list, with a file
   name; with a line map entry (f, n) at the offending index the header says f, n + 1 and the pointer is
   under the offending line; without a map it says the given file, i + 1). *)
Theorem every_site_of_an_ok_table_displays_the_true_location : forall t,
  forallb site_ok t = true -> forall s, In s t -> site_displays_right s.
Proof. exact all_sites_display_right. Qed.
Print Assumptions every_site_of_an_ok_table_displays_the_true_location.

(* site_ok is not too generous: a row of the i + 1 shape never displays the true location. *)
Theorem plus1_site_never_displays_right : forall s, s_class s = SIndexPlus1 -> ~ site_displays_right s.
Proof. exact plus1_site_displays_wrong. Qed.
Print Assumptions plus1_site_never_displays_right.

(* Composition with include provenance (C13's conclusion, here a hypothesis on the line map): the file
   and line named by an ok site are such that this line of this file, as the author wrote it, is the
   offending line. *)
Theorem diag_names_the_authors_file_and_line : forall t,
  forallb site_ok t = true -> forall s, In s t ->
  forall fs m lines i v text filename,
    provenance_map fs m lines ->
    s_map s = true ->
    passed (s_class s) i = Some v ->
    nth_error lines i = Some text ->
    exists f ln fl,
      location (format_error v lines (site_filename s filename) (site_map s (Some m))) = Some (Some f, ln) /\
      1 <= ln /\ fs f = Some fl /\ nth_error fl (Z.to_nat (ln - 1)) = Some text.
Proof. exact table_names_authors_line. Qed.
Print Assumptions diag_names_the_authors_file_and_line.

(* Sites that work on one file's own lines before any map exists (resolve_includes): file name as given,
   line i + 1 of that very list. *)
Theorem diag_names_own_file_line : forall t,
  forallb site_ok t = true -> forall s, In s t ->
  forall lines i v text filename,
    s_map s = false ->
    passed (s_class s) i = Some v ->
    nth_error lines i = Some text ->
    location (format_error v lines (site_filename s filename) (site_map s None)) =
      Some (shown_file filename, Z.of_nat i + 1) /\
    nth_error lines (Z.to_nat (Z.of_nat i + 1 - 1)) = Some text.
Proof. exact table_names_own_file_line. Qed.
Print Assumptions diag_names_own_file_line.

(* ---- non-vacuity ---- *)
Definition demo_fs (f : string) : option (list string) :=
  if String.eqb f "main.bard" then Some [":: Start"; "@include inc.bard"; "Tail."]
  else if String.eqb f "inc.bard" then Some [":: Inc"; "Hello {x"] else None.

Example demo_provenance : provenance_map demo_fs boundary_map boundary_lines.
Proof.
  split; [reflexivity|].
  intros [|[|[|[|i]]]] f n H; simpl in H; try (destruct i; discriminate);
    inversion H; subst; (split; [lia|]); (split; [discriminate|]); eexists; split; reflexivity.
Qed.

Definition demo_site := mkSite "validation.py" "validate_choice_syntax" 43 "missing-arrow" SIndex true true true.
Definition demo_plus1 := mkSite "core.py" "parse" 231 "hook-arity" SIndexPlus1 true true true.

Example demo_table_ok : forallb site_ok [demo_site] = true /\ forallb site_ok [demo_site; demo_plus1] = false.
Proof. split; reflexivity. Qed.

(* the whole context block for the index convention at the boundary: the boundary annotations and the
   pointer under "Hello {x", numbered 2 *)
Example demo_context :
  format_error 2 boundary_lines (Some "main.bard") (Some boundary_map) =
  Shown (mkShown (Some "inc.bard") 2
    [CLine 1 ":: Start" false; CBoundary "inc.bard"; CLine 1 ":: Inc" false; CLine 2 "Hello {x" true;
     CBoundary "main.bard"; CLine 3 "Tail." false]).
Proof. vm_compute. reflexivity. Qed.

(* =========================================================================================== *)
(* The index a site passes IS the construct's line (Proofs/DiagCulprit.v): statements about parse_real *)
(* =========================================================================================== *)
From Coq Require Import String List Bool Arith.
From Bardic Require Import PyStr Lex ParseBase ParseLine ParseMain ParseBlocks ParseBlocksInst ParseAllProofs DiagCulprit.
Import ListNotations.
Local Open Scope string_scope.
Local Close Scope Z_scope.
Local Open Scope nat_scope.
Local Open Scope list_scope.

(* ---- C14, second half: the index a raise site passes IS the line of the malformed construct (Proofs/DiagCulprit.v) ---- *)

(* The comment pre-pass keeps every line in place ... *)
Theorem prepass_length : forall ls, length (prepass ls) = length ls.
Proof. exact prepass_length_lemma. Qed.
Print Assumptions prepass_length.

(* ... and only removes a `// comment` / trailing blanks at the end of a line: an index into the pre-passed list is an
   index into the author's text. *)
Theorem prepass_line_is_prefix : forall ls i l,
  nth_error (prepass ls) i = Some l -> exists l0, nth_error ls i = Some l0 /\ startswith l0 l = true.
Proof. exact prepass_line_is_prefix_lemma. Qed.
Print Assumptions prepass_line_is_prefix.

(* Every SyntaxError of the compiler model but "stmt:python-syntax" carries an index inside the source, whatever the
   oracles for Python's parser answer. *)
Theorem diag_index_in_range_line_sites : forall pp is_call ls site i,
  parse_real pp is_call ls = PDiag (DSyntax site i) -> site <> stmt_site -> i < length ls.
Proof. exact diag_index_in_range_line_sites_lemma. Qed.
Print Assumptions diag_index_in_range_line_sites.

(* ... and every SyntaxError (`located` excludes no site), for every oracle and every line list.  core.py reports
   `i + min(max(e.lineno - 1, 0), lines_consumed - 1)` for a `~` statement (fix F14c); the model does the same (oracle
   py_stmt_errline, clamped to the lines the statement consumed). *)
Theorem diag_index_in_range : forall pp is_call ls site i,
  parse_real pp is_call ls = PDiag (DSyntax site i) -> located site = true -> i < length ls.
Proof. exact diag_index_in_range_lemma. Qed.
Print Assumptions diag_index_in_range.

(* source.split("\n") yields lines without line feeds (premise of clamp_is_identity) *)
Theorem split_lines_no_nl : forall source, Forall no_nl (split_char source LF).
Proof. exact split_lines_no_nl_lemma. Qed.
Print Assumptions split_lines_no_nl.

(* Regression examples of finding F14c (repaired): a bare carriage return inside a `~` statement is a line break for
   CPython, not for the compiler.  With the oracle answering as CPython does (offset 9 for both statements, more than
   their line feeds), the index used to lie outside the statement ("on line 11" of a 4-line story, "on line 12" of a
   7-line one); now it is the `~` line (index 1, "on line 2") resp. the statement's last line (index 4, "on line 5"). *)
Theorem stmt_index_clamped_regression :
  ~ errline_inside cr_pp /\ Forall no_nl L_stmt_cr /\
  parse_real cr_pp (fun _ => true) L_stmt_cr = PDiag (DSyntax stmt_site 1) /\
  inside_statement_b (prepass L_stmt_cr) 1 = true /\
  ~ errline_inside cr_pp2 /\ Forall no_nl L_stmt_cr2 /\
  parse_real cr_pp2 (fun _ => true) L_stmt_cr2 = PDiag (DSyntax stmt_site 4) /\
  inside_statement_b (prepass L_stmt_cr2) 4 = true /\ stmt_covers (prepass L_stmt_cr2) 4 2 = true.
Proof. exact stmt_index_clamped_regression_lemma. Qed.
Print Assumptions stmt_index_clamped_regression.

(* When Python blames a line of the text it was given and the lines are lines of source.split("\n"), the clamp changes
   nothing: the offset of kind (s) is the offset Python blames. *)
Theorem clamp_is_identity : forall pp lines k off n,
  errline_inside pp -> Forall no_nl lines -> stmt_rejected_at pp lines k off n ->
  exists cc, extract_multiline_expression lines k
               (fst (strip_inline_comment (strip (drop 2 (nth k lines EmptyString))))) = (cc, n) /\
             off = py_stmt_errline pp cc.
Proof. exact clamp_is_identity_lemma. Qed.
Print Assumptions clamp_is_identity.

(* What fix F14c (proposed_fixes/F14c-statement-error-line-outside-statement.diff) does: a clamped offset stays inside
   the statement for every answer of Python's parser. *)
Theorem clamped_stmt_index_inside : forall lines k l off,
  nth_error lines k = Some l -> startswith l "~ " = true ->
  inside_statement lines (k + Nat.min off (stmt_consumed lines k l - 1)).
Proof. exact clamped_stmt_index_inside_lemma. Qed.
Print Assumptions clamped_stmt_index_inside.

(* Every SyntaxError is the line Python blames inside a rejected `~` statement (kind (s)), or is located on the malformed
   line (culprit), or is of one of the three no-line / sub-list kinds (F14b): raised while a @for body was re-parsed; a
   content error inside an @if / @for block; post-parse validation. *)
Theorem diag_classified : forall pp is_call ls site i,
  parse_real pp is_call ls = PDiag (DSyntax site i) ->
  (i < length ls /\
   (culprit_at (prepass ls) site i \/
    (bsite site = true /\ raised_in_loop_body (prepass ls) site i) \/
    (csite site = true /\ i = 0 /\ raised_in_block (prepass ls) site) \/
    (callsite site = true /\ i = 0))) \/
  (site = stmt_site /\ stmt_blamed pp (prepass ls) i).
Proof. exact diag_classified_lemma. Qed.
Print Assumptions diag_classified.

(* "stmt:python-syntax": some `~` statement starts on a line k and consumes n lines, Python's parser rejects the
   assembled statement, and i = k + min (the offset of the line Python blames) (n - 1) (for every oracle) ... *)
Theorem stmt_site_blamed : forall pp is_call ls i,
  parse_real pp is_call ls = PDiag (DSyntax stmt_site i) -> stmt_blamed pp (prepass ls) i.
Proof. exact stmt_site_blamed_lemma. Qed.
Print Assumptions stmt_site_blamed.

(* ... and line i lies inside that statement: it starts at a `~` line k <= i, k + consumed > i, and the statement
   lies inside the source (k + consumed <= len(lines)) -- for every oracle and every line list. *)
Theorem culprit_stmt_site : forall pp is_call ls i,
  parse_real pp is_call ls = PDiag (DSyntax stmt_site i) -> inside_statement (prepass ls) i.
Proof. exact culprit_stmt_site_lemma. Qed.
Print Assumptions culprit_stmt_site.

(* Every site that can have a line (26 main-loop sites, 14 block sites, 2 content sites): the diagnostic's index is the
   line of the malformed construct (the opening line for unclosed blocks), unless a block site was raised while a @for
   body was re-parsed or a content site was raised inside an @if / @for block (F14b). *)
Theorem culprit_all_line_sites : forall pp is_call ls site i,
  parse_real pp is_call ls = PDiag (DSyntax site i) -> has_line_site site = true ->
  (exists l, nth_error (prepass ls) i = Some l /\ culprit site l = true) \/
  (site = stmt_site /\ stmt_blamed pp (prepass ls) i) \/
  (bsite site = true /\ raised_in_loop_body (prepass ls) site i) \/
  (csite site = true /\ i = 0 /\ raised_in_block (prepass ls) site).
Proof. exact culprit_all_line_sites_lemma. Qed.
Print Assumptions culprit_all_line_sites.

Theorem culprit_covered_sites : forall pp is_call ls site i,
  parse_real pp is_call ls = PDiag (DSyntax site i) -> covered site = true ->
  (exists l, nth_error (prepass ls) i = Some l /\ culprit site l = true) \/
  (site = stmt_site /\ stmt_blamed pp (prepass ls) i) \/
  (bsite site = true /\ raised_in_loop_body (prepass ls) site i).
Proof. exact culprit_covered_sites_lemma. Qed.
Print Assumptions culprit_covered_sites.

Theorem culprit_main_sites : forall pp is_call ls site i,
  parse_real pp is_call ls = PDiag (DSyntax site i) -> msite site = true ->
  (exists l, nth_error (prepass ls) i = Some l /\ culprit site l = true) \/
  (site = stmt_site /\ stmt_blamed pp (prepass ls) i).
Proof. exact culprit_main_sites_lemma. Qed.
Print Assumptions culprit_main_sites.

Theorem culprit_main_line_sites : forall pp is_call ls site i,
  parse_real pp is_call ls = PDiag (DSyntax site i) -> msite site = true -> site <> stmt_site ->
  exists l, nth_error (prepass ls) i = Some l /\ culprit site l = true.
Proof. exact culprit_main_line_sites_lemma. Qed.
Print Assumptions culprit_main_line_sites.

Theorem culprit_block_sites_outside_loops : forall pp is_call ls site i,
  parse_real pp is_call ls = PDiag (DSyntax site i) -> bsite site = true ->
  no_loop_opener (prepass ls) = true ->
  exists l, nth_error (prepass ls) i = Some l /\ culprit site l = true.
Proof. exact culprit_block_sites_outside_loops_lemma. Qed.
Print Assumptions culprit_block_sites_outside_loops.

(* content sites (brace errors, the nesting cap of inline conditionals): on a content line, in a `-> @join` block and in
   the text of a choice the index is the line (since /repo 53252c0, eecafed also for choice texts and the nesting cap);
   inside an @if / @for block there is no line *)
Theorem culprit_content_sites : forall pp is_call ls site i,
  parse_real pp is_call ls = PDiag (DSyntax site i) -> csite site = true ->
  (exists l, nth_error (prepass ls) i = Some l /\ culprit site l = true) \/
  (i = 0 /\ raised_in_block (prepass ls) site).
Proof. exact culprit_content_sites_lemma. Qed.
Print Assumptions culprit_content_sites.

Theorem culprit_content_sites_outside_blocks : forall pp is_call ls site i,
  parse_real pp is_call ls = PDiag (DSyntax site i) -> csite site = true ->
  no_block_opener (prepass ls) = true ->
  exists l, nth_error (prepass ls) i = Some l /\ culprit site l = true.
Proof. exact culprit_content_sites_outside_blocks_lemma. Qed.
Print Assumptions culprit_content_sites_outside_blocks.

(* the "call:*" sites never have a line; and no site name is missing from the four lists *)
Theorem call_sites_carry_no_line : forall pp is_call ls site i,
  parse_real pp is_call ls = PDiag (DSyntax site i) -> callsite site = true -> i = 0.
Proof. exact call_sites_carry_no_line_lemma. Qed.
Print Assumptions call_sites_carry_no_line.

Theorem every_site_is_known : forall pp is_call ls site i,
  parse_real pp is_call ls = PDiag (DSyntax site i) -> known_site site = true.
Proof. exact every_site_is_known_lemma. Qed.
Print Assumptions every_site_is_known.

(* F14b witnesses: the index is NOT the line (sub-list index of a loop body; dummy 0 inside a block; dummy 0 of the
   post pass) *)
Theorem loop_body_index_is_not_the_line_refuted :
  exists pp is_call ls site i l,
    parse_real pp is_call ls = PDiag (DSyntax site i) /\ bsite site = true /\
    nth_error (prepass ls) i = Some l /\ culprit site l = false /\
    nth_error (prepass ls) 7 = Some "  @endif:" /\ culprit site "  @endif:" = true.
Proof. exact loop_body_index_is_not_the_line_refuted_lemma. Qed.
Print Assumptions loop_body_index_is_not_the_line_refuted.

Theorem block_content_has_no_line_refuted :
  exists pp is_call ls site l,
    parse_real pp is_call ls = PDiag (DSyntax site 0) /\ csite site = true /\
    nth_error (prepass ls) 0 = Some l /\ culprit site l = false /\
    nth_error (prepass ls) 3 = Some "  bad {brace" /\ culprit site "  bad {brace" = true.
Proof. exact block_content_has_no_line_refuted_lemma. Qed.
Print Assumptions block_content_has_no_line_refuted.

Theorem call_target_has_no_line_refuted :
  exists pp is_call ls site l,
    parse_real pp is_call ls = PDiag (DSyntax site 0) /\ callsite site = true /\
    nth_error (prepass ls) 0 = Some l /\ culprit site l = false.
Proof. exact call_target_has_no_line_refuted_lemma. Qed.
Print Assumptions call_target_has_no_line_refuted.

(* ---- non-vacuity: the premise is satisfiable and the culprit is the line one expects ---- *)
Example culprit_demo_choice :
  parse_real ex_pp (fun _ => true) [":: Start // c"; "Hello.   // note"; "+ [Go] Start // oops"]
    = PDiag (DSyntax "choice:missing-arrow" 2) /\
  nth_error (prepass [":: Start // c"; "Hello.   // note"; "+ [Go] Start // oops"]) 2 = Some "+ [Go] Start" /\
  culprit "choice:missing-arrow" "+ [Go] Start" = true /\ culprit "choice:missing-arrow" "Hello." = false.
Proof. vm_compute. repeat split; reflexivity. Qed.

Example culprit_demo_unclosed_if_is_the_opening_line :
  parse_real ex_pp (fun _ => true) [":: Start"; "Hello."; "t"; "@if x:"; "a"; "b"] = PDiag (DSyntax "if-unclosed" 3) /\
  culprit "if-unclosed" "@if x:" = true /\ culprit "if-unclosed" "b" = false.
Proof. vm_compute. repeat split; reflexivity. Qed.

Example culprit_demo_nested_block :
  parse_real ex_pp (fun _ => true) [":: Start"; "Hello."; "@if x:"; "  a"; "  @for i in xs"; "  b"; "  @endfor"; "@endif"]
    = PDiag (DSyntax "for-missing-colon" 4) /\
  culprit "for-missing-colon" "  @for i in xs" = true.
Proof. vm_compute. repeat split; reflexivity. Qed.

(* a `~` statement over several lines with `//` comments around: the index is the continuation line Python blames
   (line 7 of the story, index 6), inside the statement that starts on index 4 and consumes 4 lines; the oracle of the
   examples satisfies the premise of culprit_stmt_site *)
Example culprit_demo_multiline_statement :
  parse_real ex_pp (fun _ => true) L_stmt_multi = PDiag (DSyntax "stmt:python-syntax" 6) /\
  nth_error (prepass L_stmt_multi) 4 = Some "~ xs = [" /\ stmt_consumed (prepass L_stmt_multi) 4 "~ xs = [" = 4 /\
  nth_error (prepass L_stmt_multi) 6 = Some "  2 !! 3," /\
  inside_statement_b (prepass L_stmt_multi) 6 = true /\ inside_statement_b (prepass L_stmt_multi) 8 = false /\
  errline_inside ex_pp.
Proof. repeat split; try (vm_compute; reflexivity). exact ex_pp_errline_inside. Qed.

(* a brace error in the TEXT of a choice stands on the choice's line (was: no line, until /repo 53252c0) *)
Example culprit_demo_choice_text :
  parse_real ex_pp (fun _ => true) [":: Start"; "Hello."; "+ [Go {x] -> Start"] = PDiag (DSyntax "content:braces" 2) /\
  choice_text_rejected "content:braces" "+ [Go {x] -> Start" = true /\
  culprit "content:braces" "+ [Go {x] -> Start" = true /\ culprit "content:braces" "Hello." = false.
Proof. vm_compute. repeat split; reflexivity. Qed.

(* the nesting cap of inline conditionals in a `-> @join` block stands on the block line (was: no line, until eecafed) *)
Example culprit_demo_nesting_cap_in_join_block :
  parse_real ex_pp (fun _ => true) L_depth_join = PDiag (DSyntax "content:nesting-depth" 2) /\
  located_example L_depth_join "content:nesting-depth" 2 = true /\   (* culprit holds of line 2, the block line *)
  culprit "content:nesting-depth" "+ [Go] -> @join" = false.
Proof. vm_compute. repeat split; reflexivity. Qed.
