(* C15 — Author-code failures during a choice are contained or surface cleanly, undoably.
   Property theorems only (proofs: Proofs/EngineFault.v, EngineReach.v, EngineUndo.v, EngineNav.v).
   Author code is the oracle record `orc`; "fails at an evaluation point" = the oracle returns Exc there.  All
   theorems are for EVERY oracle, so for a fault injected at every evaluation point of every story and history. *)
From Coq Require Import String Ascii List Bool ZArith Arith.
From Bardic Require Import PyStr Value Compiled Engine EngineBase EngineNav EngineParams EngineSem EngineJump
     EngineUndo EngineHooks EngineFault EngineReach PyMini EngineCheck.
Import ListNotations.

(* a display expression that fails becomes the inline {ERROR...} marker, and rendering it never raises *)
Theorem display_fault_is_marker : forall orc ctx code e,
  o_eval orc ctx (expr_part code) = Exc e -> render_expr orc ctx code = ERR.
Proof. exact display_fault_is_marker_lemma. Qed.
Print Assumptions display_fault_is_marker.

Theorem display_expression_never_raises : forall orc ctxkeys code s,
  render_tok orc ctxkeys (TExpr code) s =
  (s, Ok (render_expr orc (eval_context (vars (nc s)) (scopes s)) code, CNext, [])).
Proof. exact display_never_raises. Qed.
Print Assumptions display_expression_never_raises.

Theorem inline_condition_fault_is_marker : forall orc ctxkeys cond tr fa s e,
  o_eval orc (eval_context (vars (nc s)) (scopes s)) cond = Exc e ->
  render_tok orc ctxkeys (TInlineCond cond tr fa) s = (s, Ok (ERR, CNext, [])).
Proof. exact inline_cond_fault_is_marker. Qed.
Print Assumptions inline_condition_fault_is_marker.

(* a failing choice condition hides that choice (and changes nothing) *)
Theorem condition_fault_hides : forall orc ctxkeys c dt s cond e,
  ch_sticky c = true -> ch_cond c = Some cond -> String.eqb cond "" = false ->
  o_eval orc (eval_context (vars (nc s)) (scopes s)) cond = Exc e ->
  is_choice_available orc ctxkeys c dt s = (s, Ok false).
Proof. exact condition_fault_hides_lemma. Qed.
Print Assumptions condition_fault_hides.

(* a failing branch condition skips that branch and only that branch *)
Theorem branch_condition_fault_skips_only_that_branch : forall orc f ctx cond cont chs rest e,
  o_eval orc ctx cond = Exc e ->
  render_branches orc f ctx (Branch cond cont chs :: rest) = render_branches orc f ctx rest.
Proof. exact branch_fault_skips_lemma. Qed.
Print Assumptions branch_condition_fault_skips_only_that_branch.

(* a failing statement or Python block is never silently discarded: it raises RuntimeError where it stands
   (no variable is changed by it), and the exception propagates out of the token list it stands in *)
Theorem stmt_fault_raises : forall orc ctxkeys code s e,
  o_exec orc (eval_context (vars (nc s)) (scopes s)) code = Exc e ->
  exec_statement orc ctxkeys code s = (mkNS (nc s) (scopes s) (log s ++ [EvStmt code]), Exc RuntimeError).
Proof. exact stmt_fault_raises_lemma. Qed.
Print Assumptions stmt_fault_raises.
Theorem block_fault_raises : forall orc ctxkeys code s e,
  o_exec orc (eval_context (vars (nc s)) (scopes s)) code = Exc e ->
  exec_block orc ctxkeys code s = (mkNS (nc s) (scopes s) (log s ++ [EvBlock code]), Exc RuntimeError).
Proof. exact block_fault_raises_lemma. Qed.
Print Assumptions block_fault_raises.
Theorem fault_propagates : forall (f : token -> M tok_out) t r s s' e,
  f t s = (s', Exc e) -> seqr f (t :: r) s = (s', Exc e).
Proof. exact seqr_propagates. Qed.
Print Assumptions fault_propagates.

(* whatever fails, and wherever (a statement, block, argument, default, condition or display expression of any
   passage or hook involved), the only exceptions choose() can raise in a reachable state are IndexError (for a
   rejected index) and RuntimeError or ValueError *)
Theorem choose_raises_only_runtime_or_value_error : forall orc ctxkeys st e i e' x,
  reach orc ctxkeys st e ->
  choose orc ctxkeys st e i = (e', Exc x) -> x = IndexError \/ x = RuntimeError \/ x = ValueError.
Proof.
  intros orc ctxkeys st e i e' x Hr H.
  destruct (CInv_reach orc ctxkeys st e Hr) as [Hc _].
  exact (choose_exn orc ctxkeys st e i e' x Hc H).
Qed.
Print Assumptions choose_raises_only_runtime_or_value_error.

(* after such an error no parameter scope is left behind ... *)
Theorem no_scope_leak_after_fault : forall orc ctxkeys st e i,
  escopes (fst (choose orc ctxkeys st e i)) = escopes e.
Proof. exact choose_scopes. Qed.
Print Assumptions no_scope_leak_after_fault.

(* ... and a single undo() restores exactly the pre-choice situation, whether the choice failed or not *)
Theorem undo_after_fault : forall orc ctxkeys st e i,
  valid_index e i ->
  let e1 := fst (choose orc ctxkeys st e i) in
  snd (undo e1) = true /\ ec (fst (undo e1)) = ec e /\ escopes (fst (undo e1)) = escopes e /\
  undo_stack (fst (undo e1)) = firstn 49 (undo_stack e) /\ redo_stack (fst (undo e1)) = [ec e1].
Proof. exact undo_choose_lemma. Qed.
Print Assumptions undo_after_fault.

(* non-vacuity: a story whose target passage has a failing statement; the oracle fails on the text "boom" *)
Definition boom_story : story :=
  mkStory "A" [("A"%string, mkPassage "A" [] [TText "a"]
                  [Choice [TText "go"] "B" "" None true 0 [] []] [] [] []);
               ("B"%string, mkPassage "B" [] [TText "b"] [] [TPyStmt "boom"] [] [])] [] [].
Definition boom_orc : pyorc :=
  mkOrc (fun _ _ => Ok VNone) (fun c code => if String.eqb code "boom" then Exc ZeroDivisionError else Ok c)
        (fun _ _ => Ok ""%string) (fun _ _ => Ok ([], [])).
Example boom_example :
  let e0 := fst (init boom_orc [] boom_story []) in
  let r := choose boom_orc [] boom_story e0 0 in
  snd r = Exc RuntimeError /\ ec (fst (undo (fst r))) = ec e0.
Proof. vm_compute. split; reflexivity. Qed.
