(* C16 — Compile and play are deterministic; engines never modify or share mutable data.
   WHAT A THEOREM CAN SAY HERE.  "Compilation is a pure function of the source", "same inputs, same outputs" and "an
   engine never modifies the story it was given" are true of every Gallina function by construction: a theorem
   stating them about the model would have no content.  These clauses are decided on every run by the differential
   part of harness/c16.py alone (compile twice and under different hash seeds; play the same history under different
   hash seeds; two engines interleaved on ONE story object against solo runs; deep comparison of the story object
   before/after) and the evidence says so.
   The ALIASING clauses are expressible: Codec/Cells.v models values whose mutable containers carry a cell identity
   (two occurrences of one identity are one Python object; an in-place mutation `mutate i f` changes every
   occurrence).  save_state, load_state and the undo snapshot build their result in NEW cells (JSON round trip,
   comprehensions, deepcopy) - `fresh n`, with n above every identity the running game uses.  The theorems below say
   that such a copy shares no cell with the game, in both directions.  That the real functions do copy is the
   correspondence: harness/c16.py walks the real object graphs with id() and mutates them in place. *)
From Coq Require Import String Ascii List Bool ZArith Arith.
From Bardic Require Import Cells CellsProofs.
Import ListNotations.

(* a copy uses only new cells n .. n'-1 and denotes the same value *)
Theorem save_shares_no_cell : forall v n,
  n <= fst (fresh n v) /\ in_range n (fst (fresh n v)) (ids (snd (fresh n v))).
Proof. intros v n. apply fresh_range. Qed.
Print Assumptions save_shares_no_cell.

Theorem copy_denotes_same_value : forall v n, shape (snd (fresh n v)) = shape v.
Proof. intros v n. apply fresh_shape. Qed.
Print Assumptions copy_denotes_same_value.

(* later play (any in-place mutation of any cell of the running game) does not change a save already taken *)
Theorem later_play_keeps_save : forall v n i f,
  i < n -> mutate i f (snd (fresh n v)) = snd (fresh n v).
Proof. exact later_play_keeps_copy. Qed.
Print Assumptions later_play_keeps_save.

(* changing a save document (any cell of the copy) after it was taken or loaded does not change the game *)
Theorem editing_doc_keeps_game : forall v n j f,
  Forall (fun i => i < n) (ids v) -> n <= j -> mutate j f v = v.
Proof. exact editing_copy_keeps_game. Qed.
Print Assumptions editing_doc_keeps_game.

(* non-vacuity: a shared list inside a dict; the copy gets cells 10.. and an append to the game's cell 1 shows in
   the game but not in the copy *)
Definition game : cval := CDict 0 [("xs"%string, CList 1 [CAtom 1]); ("alias"%string, CList 1 [CAtom 1])].
Definition append2 (v : cval) : cval := match v with CList i l => CList i (l ++ [CAtom 2]) | _ => v end.
Example aliasing_example :
  mutate 1 append2 game = CDict 0 [("xs"%string, CList 1 [CAtom 1; CAtom 2]); ("alias"%string, CList 1 [CAtom 1; CAtom 2])]
  /\ mutate 1 append2 (snd (fresh 10 game)) = snd (fresh 10 game)
  /\ ids (snd (fresh 10 game)) = [10; 11; 12].
Proof. vm_compute. repeat split. Qed.

From Bardic Require Import DeepCopy DeepCopyProofs.
(* --- C16: on values without sharing the deepcopy model and Cells.fresh coincide ----------------------------- *)
Theorem deepcopy_without_sharing_is_fresh : forall v n,
  NoDup (ids v) ->
  snd (deepcopy_memo n [] v) = snd (fresh n v) /\ fst (fst (deepcopy_memo n [] v)) = fst (fresh n v).
Proof. exact deepcopy_unshared_is_fresh. Qed.
Print Assumptions deepcopy_without_sharing_is_fresh.
