(* C17 — Surface forms (legacy/@ syntax, comments, indentation) compile identically.

   What is and is not a theorem here.  The property is about the whole compiler:
       parse (print style s)  is independent of  style
   for every story s of the documented language and every surface style (legacy <<...>> forms vs
   @-forms, # comment lines, trailing // comments on every line kind, uniform indentation of block
   bodies).  That statement is NOT proved: the parser (core.py / blocks.py) is not modelled in
   Gallina yet.  It is decided on every run by the model-independent differential oracle of
   harness/c17.py (each generated story printed in every style, compiled by the real
   BardCompiler, compiled dicts compared with the baseline style).

   What IS proved, for all ASCII strings / line lists, is the helper-level half: the two pure
   functions every line classifier of the parser relies on for comments and indentation,
       strip_inline_comment          (preprocessing.py)   model: Compiler/Lex.v
       detect_and_strip_indentation  (indentation.py)     model: Compiler/Lex.v
   behave as the property needs.  The theorems that are the helper-level part of the larger claim
   carry the suffix _partial; what is missing in each of them is the composition through the line
   classifiers (which of them call the helper, and what they do with the blank it leaves).
   The model is tied to /repo by the correspondence run of harness/c17.py.

   Proofs are in Proofs/LexProofs.v. *)
From Coq Require Import String Ascii List Bool.
From Bardic Require Import PyStr Lex LexProofs.
Import ListNotations.
Local Open Scope string_scope.

(* ------------------------------------------------------------------------------------------- *)
(* the scanner over a concatenation (the lemma everything below comes from)                     *)
(* ------------------------------------------------------------------------------------------- *)

(* If no comment is found on a, and a does not end with `/` or `\` or b does not start with `/`
   (so that none of the patterns `\//`, `//=`, `//` can straddle the boundary), the scanner treats
   a and b independently. *)
Theorem strip_concat : forall a b,
  no_comment a -> clean_end a || negb (starts_slash b) = true ->
  strip_inline_comment (a ++ b) =
  (fst (strip_inline_comment a) ++ fst (strip_inline_comment b), snd (strip_inline_comment b)).
Proof. exact sic_app. Qed.
Print Assumptions strip_concat.

(* ------------------------------------------------------------------------------------------- *)
(* trailing comments                                                                           *)
(* ------------------------------------------------------------------------------------------- *)

(* A trailing comment in the documented form ` // text` is cut off exactly, on EVERY line on which
   the scanner has not already found a comment (no restriction on how the line ends, none on the
   comment text).  What is left of it in the content is the blank before `//`. *)
Theorem comment_invisible_partial : forall s c,
  no_comment s ->
  strip_inline_comment (s ++ " // " ++ c) = (fst (strip_inline_comment s) ++ " ", "// " ++ c).
Proof. exact comment_invisible_lemma. Qed.
Print Assumptions comment_invisible_partial.

(* On a line that already carries a comment, the appended text only extends that comment. *)
Theorem comment_absorbed_partial : forall s c,
  snd (strip_inline_comment s) <> "" ->
  strip_inline_comment (s ++ " // " ++ c) =
  (fst (strip_inline_comment s), snd (strip_inline_comment s) ++ " // " ++ c).
Proof. exact comment_absorbed_lemma. Qed.
Print Assumptions comment_absorbed_partial.

(* Hence for EVERY line s and EVERY comment text c: up to trailing whitespace the content is
   unchanged by a trailing comment.  (A caller that right-strips the content is therefore
   comment-insensitive; the callers that do not are the F17a/F17b defects found by the oracle.) *)
Theorem comment_invisible_content_partial : forall s c,
  rstrip (fst (strip_inline_comment (s ++ " // " ++ c))) = rstrip (fst (strip_inline_comment s)).
Proof. exact comment_invisible_content_lemma. Qed.
Print Assumptions comment_invisible_content_partial.

(* The form quoted in DESIGN.md: lines without any `/`. *)
Theorem comment_invisible_slash_free_partial : forall s c,
  slash_free s = true -> strip_inline_comment (s ++ " // " ++ c) = (s ++ " ", "// " ++ c).
Proof. exact comment_invisible_slash_free. Qed.
Print Assumptions comment_invisible_slash_free_partial.

(* The glued form `text//comment` (no blank before `//`, comment text directly after it) is cut off
   exactly under two exclusions, both necessary (counterexamples below): the text must not end
   with `/` or `\`, and the comment text must not start with `=`. *)
Theorem comment_invisible_glued_partial : forall s c,
  no_comment s -> clean_end s = true -> starts_equals c = false ->
  strip_inline_comment (s ++ "//" ++ c) = (fst (strip_inline_comment s), "//" ++ c).
Proof. exact comment_invisible_glued_lemma. Qed.
Print Assumptions comment_invisible_glued_partial.

(* what the exclusions exclude *)
Example glued_excluded_slash_end :      (* text ends with `/`: the comment starts one character early *)
  strip_inline_comment ("a/" ++ "//" ++ "c") = ("a", "///c") /\ fst (strip_inline_comment "a/") = "a/".
Proof. vm_compute. split; reflexivity. Qed.
Example glued_excluded_backslash_end :  (* text ends with `\`: the comment becomes an escaped `//` *)
  strip_inline_comment ("a\" ++ "//" ++ "c") = ("a//c", "").
Proof. vm_compute. reflexivity. Qed.
Example glued_excluded_equals :         (* comment text starts with `=`: it is the `//=` operator *)
  strip_inline_comment ("x " ++ "//" ++ "=1") = ("x //=1", "").
Proof. vm_compute. reflexivity. Qed.
(* the blank before `//` stays in the content: the helper-level face of F17b (text lines, ~ lines) *)
Example trailing_blank_kept :
  fst (strip_inline_comment ("Hello" ++ " // " ++ "c")) = "Hello " /\ fst (strip_inline_comment "Hello") = "Hello".
Proof. vm_compute. split; reflexivity. Qed.

(* ------------------------------------------------------------------------------------------- *)
(* `\//` and `//=` are left intact                                                             *)
(* ------------------------------------------------------------------------------------------- *)

(* `\//` yields a literal `//` in the content and does not start a comment, after any prefix on
   which no comment was found, whatever follows. *)
Theorem escaped_slashes_kept_partial : forall a b,
  no_comment a ->
  strip_inline_comment (a ++ "\//" ++ b) =
  (fst (strip_inline_comment a) ++ "//" ++ fst (strip_inline_comment b), snd (strip_inline_comment b)).
Proof. exact escaped_slashes_kept_lemma. Qed.
Print Assumptions escaped_slashes_kept_partial.

(* `//=` is kept and does not start a comment, after a prefix without comment that does not end
   with `/` or `\` (necessary: counterexamples below). *)
Theorem floordiv_assign_kept_partial : forall a b,
  no_comment a -> clean_end a = true ->
  strip_inline_comment (a ++ "//=" ++ b) =
  (fst (strip_inline_comment a) ++ "//=" ++ fst (strip_inline_comment b), snd (strip_inline_comment b)).
Proof. exact floordiv_assign_kept_lemma. Qed.
Print Assumptions floordiv_assign_kept_partial.

Example floordiv_excluded_slash_end : strip_inline_comment ("x/" ++ "//=" ++ " 2") = ("x", "///= 2").
Proof. vm_compute. reflexivity. Qed.
Example floordiv_excluded_backslash_end : strip_inline_comment ("x\" ++ "//=" ++ " 2") = ("x//= 2", "").
Proof. vm_compute. reflexivity. Qed.

(* both together with a trailing comment: the documented example and the augmented assignment *)
Example escaped_then_comment :
  strip_inline_comment ("URL: https:\//example.com // This is a comment") =
  ("URL: https://example.com ", "// This is a comment").
Proof. vm_compute. reflexivity. Qed.
Example floordiv_then_comment :
  strip_inline_comment ("n //= 2 // halve") = ("n //= 2 ", "// halve").
Proof. vm_compute. reflexivity. Qed.
(* the scanner is not idempotent on its own output (an escaped `//` becomes a comment start), so
   callers must not strip twice; stated so that nobody "simplifies" towards it *)
Example strip_not_idempotent :
  strip_inline_comment (fst (strip_inline_comment "a \// b")) = ("a ", "// b").
Proof. vm_compute. reflexivity. Qed.

(* non-vacuity of the hypotheses *)
Example no_comment_met : no_comment "x = 10 \// 3 //= 2".
Proof. vm_compute. reflexivity. Qed.
Example clean_end_met : clean_end "n " = true /\ clean_end "n/" = false /\ clean_end "n\" = false.
Proof. vm_compute. repeat split; reflexivity. Qed.
Example has_comment_met : snd (strip_inline_comment "a // b") <> "".
Proof. vm_compute. discriminate. Qed.

(* ------------------------------------------------------------------------------------------- *)
(* uniform indentation of block bodies                                                         *)
(* ------------------------------------------------------------------------------------------- *)

(* Prefixing every non-blank line of a block with the same whitespace string p (n spaces, a tab,
   any mixture) does not change the dedented block, provided no line of the block is indented
   less than its first non-blank line (necessary: counterexample below). *)
Theorem uniform_indent_invisible_partial : forall p ls,
  all_space p = true -> well_indented ls ->
  detect_and_strip_indentation (map (indent_line p) ls) = detect_and_strip_indentation ls.
Proof. exact uniform_indent_invisible_lemma. Qed.
Print Assumptions uniform_indent_invisible_partial.

(* The form of the task statement: a block whose first non-blank line starts at column 0 comes
   back exactly, whatever it was indented by. *)
Theorem uniform_indent_dedented_partial : forall p ls,
  all_space p = true -> base_indent ls = Some 0 ->
  detect_and_strip_indentation (map (indent_line p) ls) = ls.
Proof. exact uniform_indent_dedented_lemma. Qed.
Print Assumptions uniform_indent_dedented_partial.

(* When the blank lines are indented as well, the result is the same line by line except that
   blank lines stay blank lines with the prefix (x ~ y := x = y, or both are blank). *)
Theorem uniform_indent_blank_lines_partial : forall p ls,
  all_space p = true -> well_indented ls ->
  Forall2 line_equiv (detect_and_strip_indentation (map (indent_any p) ls))
                     (detect_and_strip_indentation ls).
Proof. exact uniform_indent_any_lemma. Qed.
Print Assumptions uniform_indent_blank_lines_partial.

(* Dedenting is idempotent, and its result starts at column 0 (or is all blank). *)
Theorem dedent_idempotent : forall ls,
  detect_and_strip_indentation (detect_and_strip_indentation ls) = detect_and_strip_indentation ls.
Proof. exact dedent_idempotent_lemma. Qed.
Print Assumptions dedent_idempotent.

Theorem dedent_starts_at_column_zero : forall ls,
  base_indent (detect_and_strip_indentation ls) = None \/
  base_indent (detect_and_strip_indentation ls) = Some 0.
Proof. exact dedent_base_zero. Qed.
Print Assumptions dedent_starts_at_column_zero.

(* the exclusion: a line indented less than the first one keeps the added prefix *)
Example under_indented_excluded :
  detect_and_strip_indentation (map (indent_line "  ") ["  a"; "b"]) = ["a"; "  b"] /\
  detect_and_strip_indentation ["  a"; "b"] = ["a"; "b"].
Proof. vm_compute. split; reflexivity. Qed.

(* non-vacuity: a block with relative indentation, a blank line and a whitespace-only line,
   indented by four spaces and by a tab *)
Definition sample_block : list string := ["if x:"; "    y = 1"; ""; "  "; "z = 2"].
Example sample_block_dedented : base_indent sample_block = Some 0.
Proof. vm_compute. reflexivity. Qed.
Example sample_block_spaces :
  map (indent_line "    ") sample_block = ["    if x:"; "        y = 1"; ""; "  "; "    z = 2"] /\
  detect_and_strip_indentation (map (indent_line "    ") sample_block) = sample_block.
Proof. vm_compute. split; reflexivity. Qed.
Example sample_block_tab :
  detect_and_strip_indentation (map (indent_line (String (ascii_of_nat 9) "")) sample_block) = sample_block.
Proof. vm_compute. reflexivity. Qed.
Example sample_block_any :
  detect_and_strip_indentation (map (indent_any "  ") sample_block) =
  ["if x:"; "    y = 1"; "  "; "    "; "z = 2"].
Proof. vm_compute. reflexivity. Qed.
Example well_indented_met :
  well_indented ["  a"; "    b"; ""; " "] /\
  detect_and_strip_indentation (map (indent_line "  ") ["  a"; "    b"; ""; " "]) = ["a"; "  b"; ""; " "].
Proof. split; [exact well_indented_sample | vm_compute; reflexivity]. Qed.
Example all_space_met : all_space (String (ascii_of_nat 9) "  ") = true.
Proof. vm_compute. reflexivity. Qed.
