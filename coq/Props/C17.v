(* C17 — Surface forms (legacy/@ syntax, comments, indentation) compile identically.

   What is and is not a theorem here.  The property is about the whole compiler:
       parse (print style s)  is independent of  style
   for every story s of the documented language and every surface style (legacy <<...>> forms vs
   @-forms, # comment lines, trailing // comments on every line kind, uniform indentation of block
   bodies).  The parser is modelled in Gallina (Compiler/ParseMain.v: the `parse` main loop with its
   comment pre-pass; Compiler/ParseBlocks.v: the block extractors), the printer is not, so the
   statements below are about line lists, not about source ASTs.

   WHOLE-INPUT THEOREMS (all line lists; Proofs/SurfaceProofs.v):
     trailing comments   trailing_comments_invisible: appending `<blanks>//<text>` to ANY subset of the
                         lines that the pre-pass treats as story lines leaves `parse` unchanged, for all
                         oracles and ALL block extractors.  This is the full "trailing // comments are
                         invisible" clause for the modelled compiler; its side conditions (which lines,
                         which texts) are exact: each has a counterexample below.  Since fix F17k (the
                         pre-pass stores every story line right-stripped) the line's own trailing
                         blanks are no condition any more (trailing_blanks_compile_identically); what
                         is left of the old `tidy` condition concerns only a decorated line that CLOSES
                         a Python block (`@endpy` / `>>`), which the pre-pass stores as `bare`, not
                         right-stripped: with arbitrary extractors that difference in the line list
                         cannot be ignored (closer_with_blanks_not_decorable; the real extractors read
                         that line through .strip() and give the same story).
                         trailing_comments_invisible_no_closer: no such condition when no decorated line
                         closes a Python block.
     # comment lines     hash_line_invisible_top_level_partial: inserting a # line in front of a line
                         where the pre-pass and the main loop are at top level leaves `parse`
                         unchanged (up to the line index inside a diagnostic), for all extractors that
                         are local in the sense of xs_local; hash_line_invisible_blockfree:
                         unconditionally for inputs in which every line is classified by the main loop
                         itself (no block construct).  Since fix F17l positions inside the @metadata
                         block are top level like any other (hash_inside_metadata_invisible).
                         NOT covered by a theorem: # lines inside a block that an extractor consumes
                         (@if/@for/@py bodies, join blocks; for join blocks the minimal pairs of F17m
                         are Examples below), after the last line; and xs_local is not proved of the
                         real extractors in general (it says that they read only their own block; it
                         is checked by evaluation for a concrete story with every block construct,
                         small_story_local, and it fails in one corner,
                         join_block_absorbs_indented_comment).
     legacy = @          for_block_forms_agree_partial: a loop block opened with `@for v in c:` or with
                         `<<for v in c>>` is extracted to the same token, whatever surrounds it (whole
                         block, extractor level); if/elif/else/endif_forms_agree_partial: both forms of
                         each header take the conditional extractor to the same state (header level).
                         Missing in both: composition through `parse` (the other extractor calls see
                         a line list that differs in that header), and <<py vs @py: (different dedent).
     indentation         py_block_in_indented_if_body_*: the minimal pairs of F17j (a Python block with
                         an under-indented line inside an indented @if body) compile identically
                         (Examples, by evaluation).
   HELPER-LEVEL THEOREMS (suffix _partial; Proofs/LexProofs.v): the strip_inline_comment laws and
   the dedent laws (uniform indentation invisible, idempotent).  What is missing in the indentation
   ones is the composition through the extractors that call the dedenter.
   DIFFERENTIAL ONLY (harness/c17.py, every run): parse (print style s) for every style and two-part
   style combination of generated stories against the real BardCompiler; the tie of the models to
   /repo. *)
From Coq Require Import String Ascii List Bool Arith Lia.
From Bardic Require Import PyStr Value Compiled Lex LexProofs.
From Bardic Require Import ParseBase ParseLine ParseMain ParseCheck ParseProofs SurfaceProofs.
From Bardic Require ParseBlocks ParseBlocksInst ParseAllProofs.
Import ListNotations.
Local Open Scope string_scope.

(* ------------------------------------------------------------------------------------------- *)
(* the scanner over a concatenation (the lemma everything below comes from)                     *)
(* ------------------------------------------------------------------------------------------- *)

(* If no comment is found on a, and a does not end with `/` or `\` or b does not start with `/`
   (so that none of the patterns `\//`, `//=`, `//` can straddle the boundary), the scanner treats
   a and b independently. *)
Theorem strip_concat : forall a b,
  no_comment a -> clean_end a || negb (starts_slash b) = true ->
  strip_inline_comment (a ++ b) =
  (fst (strip_inline_comment a) ++ fst (strip_inline_comment b), snd (strip_inline_comment b)).
Proof. exact sic_app. Qed.
Print Assumptions strip_concat.

(* ------------------------------------------------------------------------------------------- *)
(* trailing comments                                                                           *)
(* ------------------------------------------------------------------------------------------- *)

(* A trailing comment in the documented form ` // text` is cut off exactly, on EVERY line on which
   the scanner has not already found a comment (no restriction on how the line ends, none on the
   comment text).  What is left of it in the content is the blank before `//`. *)
Theorem comment_invisible_partial : forall s c,
  no_comment s ->
  strip_inline_comment (s ++ " // " ++ c) = (fst (strip_inline_comment s) ++ " ", "// " ++ c).
Proof. exact comment_invisible_lemma. Qed.
Print Assumptions comment_invisible_partial.

(* On a line that already carries a comment, the appended text only extends that comment. *)
Theorem comment_absorbed_partial : forall s c,
  snd (strip_inline_comment s) <> "" ->
  strip_inline_comment (s ++ " // " ++ c) =
  (fst (strip_inline_comment s), snd (strip_inline_comment s) ++ " // " ++ c).
Proof. exact comment_absorbed_lemma. Qed.
Print Assumptions comment_absorbed_partial.

(* Hence for EVERY line s and EVERY comment text c: up to trailing whitespace the content is
   unchanged by a trailing comment.  (A caller that right-strips the content is therefore
   comment-insensitive; the callers that do not are the F17a/F17b defects found by the oracle.) *)
Theorem comment_invisible_content_partial : forall s c,
  rstrip (fst (strip_inline_comment (s ++ " // " ++ c))) = rstrip (fst (strip_inline_comment s)).
Proof. exact comment_invisible_content_lemma. Qed.
Print Assumptions comment_invisible_content_partial.

(* The form quoted in DESIGN.md: lines without any `/`. *)
Theorem comment_invisible_slash_free_partial : forall s c,
  slash_free s = true -> strip_inline_comment (s ++ " // " ++ c) = (s ++ " ", "// " ++ c).
Proof. exact comment_invisible_slash_free. Qed.
Print Assumptions comment_invisible_slash_free_partial.

(* The glued form `text//comment` (no blank before `//`, comment text directly after it) is cut off
   exactly under two exclusions, both necessary (counterexamples below): the text must not end
   with `/` or `\`, and the comment text must not start with `=`. *)
Theorem comment_invisible_glued_partial : forall s c,
  no_comment s -> clean_end s = true -> starts_equals c = false ->
  strip_inline_comment (s ++ "//" ++ c) = (fst (strip_inline_comment s), "//" ++ c).
Proof. exact comment_invisible_glued_lemma. Qed.
Print Assumptions comment_invisible_glued_partial.

(* what the exclusions exclude *)
Example glued_excluded_slash_end :      (* text ends with `/`: the comment starts one character early *)
  strip_inline_comment ("a/" ++ "//" ++ "c") = ("a", "///c") /\ fst (strip_inline_comment "a/") = "a/".
Proof. vm_compute. split; reflexivity. Qed.
Example glued_excluded_backslash_end :  (* text ends with `\`: the comment becomes an escaped `//` *)
  strip_inline_comment ("a\" ++ "//" ++ "c") = ("a//c", "").
Proof. vm_compute. reflexivity. Qed.
Example glued_excluded_equals :         (* comment text starts with `=`: it is the `//=` operator *)
  strip_inline_comment ("x " ++ "//" ++ "=1") = ("x //=1", "").
Proof. vm_compute. reflexivity. Qed.
(* the blank before `//` stays in the content: the helper-level face of F17b (text lines, ~ lines) *)
Example trailing_blank_kept :
  fst (strip_inline_comment ("Hello" ++ " // " ++ "c")) = "Hello " /\ fst (strip_inline_comment "Hello") = "Hello".
Proof. vm_compute. split; reflexivity. Qed.

(* ------------------------------------------------------------------------------------------- *)
(* `\//` and `//=` are left intact                                                             *)
(* ------------------------------------------------------------------------------------------- *)

(* `\//` yields a literal `//` in the content and does not start a comment, after any prefix on
   which no comment was found, whatever follows. *)
Theorem escaped_slashes_kept_partial : forall a b,
  no_comment a ->
  strip_inline_comment (a ++ "\//" ++ b) =
  (fst (strip_inline_comment a) ++ "//" ++ fst (strip_inline_comment b), snd (strip_inline_comment b)).
Proof. exact escaped_slashes_kept_lemma. Qed.
Print Assumptions escaped_slashes_kept_partial.

(* `//=` is kept and does not start a comment, after a prefix without comment that does not end
   with `/` or `\` (necessary: counterexamples below). *)
Theorem floordiv_assign_kept_partial : forall a b,
  no_comment a -> clean_end a = true ->
  strip_inline_comment (a ++ "//=" ++ b) =
  (fst (strip_inline_comment a) ++ "//=" ++ fst (strip_inline_comment b), snd (strip_inline_comment b)).
Proof. exact floordiv_assign_kept_lemma. Qed.
Print Assumptions floordiv_assign_kept_partial.

Example floordiv_excluded_slash_end : strip_inline_comment ("x/" ++ "//=" ++ " 2") = ("x", "///= 2").
Proof. vm_compute. reflexivity. Qed.
Example floordiv_excluded_backslash_end : strip_inline_comment ("x\" ++ "//=" ++ " 2") = ("x//= 2", "").
Proof. vm_compute. reflexivity. Qed.

(* both together with a trailing comment: the documented example and the augmented assignment *)
Example escaped_then_comment :
  strip_inline_comment ("URL: https:\//example.com // This is a comment") =
  ("URL: https://example.com ", "// This is a comment").
Proof. vm_compute. reflexivity. Qed.
Example floordiv_then_comment :
  strip_inline_comment ("n //= 2 // halve") = ("n //= 2 ", "// halve").
Proof. vm_compute. reflexivity. Qed.
(* the scanner is not idempotent on its own output (an escaped `//` becomes a comment start), so
   callers must not strip twice; stated so that nobody "simplifies" towards it *)
Example strip_not_idempotent :
  strip_inline_comment (fst (strip_inline_comment "a \// b")) = ("a ", "// b").
Proof. vm_compute. reflexivity. Qed.

(* non-vacuity of the hypotheses *)
Example no_comment_met : no_comment "x = 10 \// 3 //= 2".
Proof. vm_compute. reflexivity. Qed.
Example clean_end_met : clean_end "n " = true /\ clean_end "n/" = false /\ clean_end "n\" = false.
Proof. vm_compute. repeat split; reflexivity. Qed.
Example has_comment_met : snd (strip_inline_comment "a // b") <> "".
Proof. vm_compute. discriminate. Qed.

(* ------------------------------------------------------------------------------------------- *)
(* uniform indentation of block bodies                                                         *)
(* ------------------------------------------------------------------------------------------- *)

(* Prefixing every non-blank line of a block with the same whitespace string p (n spaces, a tab,
   any mixture) does not change the dedented block, provided no line of the block is indented
   less than its first non-blank line (necessary: counterexample below). *)
Theorem uniform_indent_invisible_partial : forall p ls,
  all_space p = true -> well_indented ls ->
  detect_and_strip_indentation (map (indent_line p) ls) = detect_and_strip_indentation ls.
Proof. exact uniform_indent_invisible_lemma. Qed.
Print Assumptions uniform_indent_invisible_partial.

(* The form of the task statement: a block whose first non-blank line starts at column 0 comes
   back exactly, whatever it was indented by. *)
Theorem uniform_indent_dedented_partial : forall p ls,
  all_space p = true -> base_indent ls = Some 0 ->
  detect_and_strip_indentation (map (indent_line p) ls) = ls.
Proof. exact uniform_indent_dedented_lemma. Qed.
Print Assumptions uniform_indent_dedented_partial.

(* When the blank lines are indented as well, the result is the same line by line except that
   blank lines stay blank lines with the prefix (x ~ y := x = y, or both are blank). *)
Theorem uniform_indent_blank_lines_partial : forall p ls,
  all_space p = true -> well_indented ls ->
  Forall2 line_equiv (detect_and_strip_indentation (map (indent_any p) ls))
                     (detect_and_strip_indentation ls).
Proof. exact uniform_indent_any_lemma. Qed.
Print Assumptions uniform_indent_blank_lines_partial.

(* Dedenting is idempotent, and its result starts at column 0 (or is all blank). *)
Theorem dedent_idempotent : forall ls,
  detect_and_strip_indentation (detect_and_strip_indentation ls) = detect_and_strip_indentation ls.
Proof. exact dedent_idempotent_lemma. Qed.
Print Assumptions dedent_idempotent.

Theorem dedent_starts_at_column_zero : forall ls,
  base_indent (detect_and_strip_indentation ls) = None \/
  base_indent (detect_and_strip_indentation ls) = Some 0.
Proof. exact dedent_base_zero. Qed.
Print Assumptions dedent_starts_at_column_zero.

(* the exclusion: a line indented less than the first one keeps the added prefix *)
Example under_indented_excluded :
  detect_and_strip_indentation (map (indent_line "  ") ["  a"; "b"]) = ["a"; "  b"] /\
  detect_and_strip_indentation ["  a"; "b"] = ["a"; "b"].
Proof. vm_compute. split; reflexivity. Qed.

(* non-vacuity: a block with relative indentation, a blank line and a whitespace-only line,
   indented by four spaces and by a tab *)
Definition sample_block : list string := ["if x:"; "    y = 1"; ""; "  "; "z = 2"].
Example sample_block_dedented : base_indent sample_block = Some 0.
Proof. vm_compute. reflexivity. Qed.
Example sample_block_spaces :
  map (indent_line "    ") sample_block = ["    if x:"; "        y = 1"; ""; "  "; "    z = 2"] /\
  detect_and_strip_indentation (map (indent_line "    ") sample_block) = sample_block.
Proof. vm_compute. split; reflexivity. Qed.
Example sample_block_tab :
  detect_and_strip_indentation (map (indent_line (String (ascii_of_nat 9) "")) sample_block) = sample_block.
Proof. vm_compute. reflexivity. Qed.
Example sample_block_any :
  detect_and_strip_indentation (map (indent_any "  ") sample_block) =
  ["if x:"; "    y = 1"; "  "; "    "; "z = 2"].
Proof. vm_compute. reflexivity. Qed.
Example well_indented_met :
  well_indented ["  a"; "    b"; ""; " "] /\
  detect_and_strip_indentation (map (indent_line "  ") ["  a"; "    b"; ""; " "]) = ["a"; "  b"; ""; " "].
Proof. split; [exact well_indented_sample | vm_compute; reflexivity]. Qed.
Example all_space_met : all_space (String (ascii_of_nat 9) "  ") = true.
Proof. vm_compute. reflexivity. Qed.

(* =========================================================================================== *)
(* WHOLE-INPUT THEOREMS about the parser model                                                  *)
(* =========================================================================================== *)

(* ------------------------------------------------------------------------------------------- *)
(* (a) trailing comments                                                                        *)
(* ------------------------------------------------------------------------------------------- *)
(* Vocabulary (Proofs/SurfaceProofs.v):
     decorate dec ls     line i of ls gets  w ++ "//" ++ c  appended when dec[i] = Some (w, c)
     sep_ok (w, c)       w is non-empty whitespace, c does not begin with `=` (the documented form
                         ` // text` is w = " ", c = " text": admissible for every text)
     story_mask ls       the lines the pre-pass rewrites, computed as the pre-pass itself decides:
                         story lines (from the first `:: ` header on, plus `@start ` lines) outside
                         @py:/<<py bodies and outside the continuation lines of a multi-line ~
                         statement, plus the line that closes a Python block
     bare_of l           `bare` in the pre-pass: l without its comment, right-stripped when it had one
                         (`out[i][:len - len(comment)].rstrip() if comment else out[i]`); a story line is
                         stored as rstrip (bare_of l) (fix F17k), the closer of a Python block as bare_of l
     tidy l              rstrip (bare_of l) = bare_of l
     closer_mask ls      the lines that close a Python block (`stripped == closer`)
     decorable dec ls    every decoration sits on a line of the mask and is sep_ok; a decorated line that
                         closes a Python block is tidy *)

(* One line: the pre-pass sees a decorated line as the undecorated one right-stripped.  No condition
   on the line (it may already carry a comment, contain `\//` or `//=`, end in `/` or `\`). *)
Theorem trailing_comment_seen_rstripped : forall l w c, sep_ok (w, c) = true ->
  bare_of (l ++ w ++ "//" ++ c) = rstrip (bare_of l).
Proof. exact bare_deco. Qed.
Print Assumptions trailing_comment_seen_rstripped.

(* The pre-pass: what is equal, precisely, for ANY lines (tidy or not): the pre-pass of the decorated
   input is the pre-pass of the input with the decorated lines right-stripped (which, since F17k, they
   are already unless they close a Python block). *)
Theorem trailing_comments_prepass_rstrips : forall ls dec,
  within dec (story_mask ls None false 0) = true ->
  strip_comments_outside_python (decorate dec ls) None false 0 =
  rstrip_at dec (strip_comments_outside_python ls None false 0).
Proof. exact prepass_decorate_rstrips. Qed.
Print Assumptions trailing_comments_prepass_rstrips.

(* ... hence identical (a decorated closer of a Python block must have no trailing blank of its own). *)
Theorem trailing_comments_invisible_to_prepass : forall ls dec,
  decorable dec ls = true ->
  strip_comments_outside_python (decorate dec ls) None false 0 =
  strip_comments_outside_python ls None false 0.
Proof. exact prepass_decorate. Qed.
Print Assumptions trailing_comments_invisible_to_prepass.

(* The clause of C17 for the modelled compiler: every line list, every set of decorated story lines,
   every comment text, every oracle for Python's parser, EVERY block extractor. *)
Theorem trailing_comments_invisible : forall pp is_call xs ls dec,
  decorable dec ls = true ->
  parse pp is_call xs (decorate dec ls) = parse pp is_call xs ls.
Proof. exact parse_decorate. Qed.
Print Assumptions trailing_comments_invisible.

(* no condition beyond the mask when no decorated line closes a Python block *)
Theorem trailing_comments_invisible_no_closer : forall pp is_call xs ls dec,
  within dec (story_mask ls None false 0) = true ->
  no_closer_decorated dec (closer_mask ls None false 0) = true ->
  parse pp is_call xs (decorate dec ls) = parse pp is_call xs ls.
Proof. exact parse_decorate_no_closer. Qed.
Print Assumptions trailing_comments_invisible_no_closer.

Theorem documented_comment_form_admissible : forall text, sep_ok (" ", " " ++ text) = true.
Proof. exact documented_form_ok. Qed.
Print Assumptions documented_comment_form_admissible.

Theorem tidy_iff : forall l,
  tidy l = true <-> (snd (strip_inline_comment l) <> "" \/ rstrip l = l).
Proof. exact tidy_spec. Qed.
Print Assumptions tidy_iff.

(* non-vacuity: two passages, every block construct, every line kind; decorated on every line of the
   mask, with the documented form, with comment text containing `//` and `<>`, with two blanks and no
   blank after `//`, with a tab *)
Definition pp0 : pyparse := mkPyparse (fun _ => true) (fun _ => Some (0, [])) (fun _ => 0).
Definition doc (t : string) : option dcomment := Some (" ", " " ++ t).
Definition tab : string := String (ascii_of_nat 9) "".

Definition sample_story : list string :=
  ["import random"; "# preamble"; ":: Start ^intro"; "You have {hp} hp. \// not a comment";
   "~ hp = 7 // 2"; "~ items = ["; "    1 // 1,"; "    2"; "]"; "n //= 2"; "glued<>";
   "@py:"; "  z = 9 // 2"; "@endpy"; "<<py"; "  q = 1 // 1"; ">>";
   "@if hp > 1:"; "  You live."; "  -> End"; "@else:"; "  + [Again] -> Start"; "@endif";
   "@for i in items:"; "  {i}<>"; "@endfor";
   "* [Rest] -> @join"; "    You rest."; "@join"; "+ [Go] -> End"; "-> End";
   ":: End"; "Bye. // old comment"; ""].

Definition sample_dec : list (option dcomment) :=
  [None; None; doc "the first passage"; doc "c // d"; doc "x"; doc "list"; None; None; None;
   Some ("  ", "no blank after"); doc "<>"; doc "block"; None; doc "end"; doc "legacy"; None; doc "close";
   doc "cond"; doc "text"; doc "jump"; doc "else"; doc "choice"; doc "endif";
   doc "loop"; doc "body"; doc "endfor";
   doc "join choice"; doc "in block"; doc "marker"; doc "choice"; doc "jump";
   doc "header"; doc "more"; Some (tab, "tab")].

Example sample_decorated_looks_like :
  firstn 6 (skipn 2 (decorate sample_dec sample_story)) =
  [":: Start ^intro // the first passage";
   "You have {hp} hp. \// not a comment // c // d";
   "~ hp = 7 // 2 // x"; "~ items = [ // list"; "    1 // 1,"; "    2"].
Proof. vm_compute. reflexivity. Qed.

Example sample_meets_hypothesis : decorable sample_dec sample_story = true.
Proof. vm_compute. reflexivity. Qed.

(* which lines may be decorated: not the preamble, not the continuation lines of the ~ statement,
   not the bodies of the two Python blocks *)
Example sample_mask :
  story_mask sample_story None false 0 =
  [false; false; true; true; true; true; false; false; false; true; true;
   true; false; true; true; false; true;
   true; true; true; true; true; true; true; true; true;
   true; true; true; true; true; true; true; true].
Proof. vm_compute. reflexivity. Qed.

Example sample_compiles_identically :
  match ParseAllProofs.parse_real pp0 (fun _ => true) (decorate sample_dec sample_story),
        ParseAllProofs.parse_real pp0 (fun _ => true) sample_story with
  | POk a, POk b => story_eqb a b = true /\ List.length (passages a) = 2
  | _, _ => False
  end.
Proof. vm_compute. split; reflexivity. Qed.

(* the same by the theorem, for every oracle and every extractor *)
Example sample_by_theorem : forall pp is_call xs,
  parse pp is_call xs (decorate sample_dec sample_story) = parse pp is_call xs sample_story.
Proof. intros. apply trailing_comments_invisible. exact sample_meets_hypothesis. Qed.

(* the side conditions are exact.
   1. Python code keeps Python's syntax: `//` inside an @py: body is floor division; such a line is
      not in the mask, and decorating it does change the input of the main loop. *)
Example python_body_not_decorable :
  decorable [None; None; doc "c"; None] [":: S"; "@py:"; "x = 7 // 2"; "@endpy"] = false /\
  strip_comments_outside_python [":: S"; "@py:"; "x = 7 // 2 // c"; "@endpy"] None false 0 =
  [":: S"; "@py:"; "x = 7 // 2 // c"; "@endpy"].
Proof. vm_compute. split; reflexivity. Qed.
(*    the same for the continuation lines of a multi-line ~ statement *)
Example continuation_not_decorable :
  decorable [None; None; doc "c"; None; None] [":: S"; "~ x = ["; "  7 // 2"; "]"; "text"] = false /\
  decorable [None; None; None; doc "c"; None] [":: S"; "~ x = ["; "  7 // 2"; "]"; "text"] = false /\
  decorable [None; doc "c"; None; None; doc "d"] [":: S"; "~ x = ["; "  7 // 2"; "]"; "text"] = true.
Proof. vm_compute. repeat split; reflexivity. Qed.
(* 2. on the first line of a ~ statement `//` IS a comment, with or without the decoration (the model
      and the real compiler agree; spec: "Variables: ~ var = value // comment") *)
Example tilde_line_floor_division_is_a_comment :
  strip_comments_outside_python [":: S"; "~ hp = 7 // 2"] None false 0 = [":: S"; "~ hp = 7"].
Proof. vm_compute. reflexivity. Qed.
(* 3. a comment text beginning with `=` is the operator `//=` *)
Example equals_text_not_admissible :
  sep_ok (" ", "= 2") = false /\
  strip_comments_outside_python [":: S"; "n //= 2"] None false 0 = [":: S"; "n //= 2"].
Proof. vm_compute. split; reflexivity. Qed.
(* 4. without a blank before `//` the comment can fuse with the end of the line (`\` + `//`) *)
Example empty_separator_not_admissible :
  sep_ok ("", " c") = false /\
  strip_comments_outside_python [":: S"; "a\" ++ "// c"] None false 0 = [":: S"; "a\// c"].
Proof. vm_compute. split; reflexivity. Qed.
(* 5. (was the `tidy` side condition, defect F17k, fixed) a line with trailing blanks of its own is
      decorable: the pre-pass drops the blanks with or without the comment, and the minimal pair of
      proposed_fixes/F17k compiles identically, for every oracle and every extractor *)
Example trailing_blanks_compile_identically :
  tidy "Hello   " = false /\
  decorate [None; doc "c"] [":: S"; "Hello   "; "Bye"] = [":: S"; "Hello    // c"; "Bye"] /\
  decorable [None; doc "c"] [":: S"; "Hello   "; "Bye"] = true /\
  strip_comments_outside_python [":: S"; "Hello   "; "Bye"] None false 0 = [":: S"; "Hello"; "Bye"] /\
  strip_comments_outside_python [":: S"; "Hello    // c"; "Bye"] None false 0 = [":: S"; "Hello"; "Bye"] /\
  (forall pp is_call xs, parse pp is_call xs [":: S"; "Hello    // c"; "Bye"] =
                         parse pp is_call xs [":: S"; "Hello   "; "Bye"]) /\
  match ParseAllProofs.parse_real pp0 (fun _ => true) [":: S"; "Hello   "; "Bye"] with
  | POk a => option_map content (lookup "S" (passages a)) = Some [TText "Hello"; TText ParseMain.nl; TText "Bye"; TText ParseMain.nl]
  | _ => False
  end.
Proof.
  do 5 (split; [vm_compute; reflexivity|]). split; [|vm_compute; reflexivity].
  intros pp is_call xs.
  apply (trailing_comments_invisible pp is_call xs [":: S"; "Hello   "; "Bye"] [None; doc "c"]).
  vm_compute. reflexivity.
Qed.
(*    what is left of it: the line that closes a Python block is stored as `bare`, so with trailing
      blanks of its own it reaches the extractors differently once decorated (every extractor of
      /repo reads it through .strip(): the compiled story is the same, by evaluation) *)
Example closer_with_blanks_not_decorable :
  let ls := [":: S"; "@py:"; "x = 1"; "@endpy   "; "t"] in
  closer_mask ls None false 0 = [false; false; false; true; false] /\
  decorable [None; None; None; doc "c"] ls = false /\
  decorable [None; doc "a"; None; None; doc "b"] ls = true /\
  decorable [None; None; None; doc "c"] [":: S"; "@py:"; "x = 1"; "@endpy"; "t"] = true /\
  strip_comments_outside_python ls None false 0 = ls /\
  strip_comments_outside_python (decorate [None; None; None; doc "c"] ls) None false 0 =
    [":: S"; "@py:"; "x = 1"; "@endpy"; "t"] /\
  match ParseAllProofs.parse_real pp0 (fun _ => true) (decorate [None; None; None; doc "c"] ls),
        ParseAllProofs.parse_real pp0 (fun _ => true) ls with
  | POk a, POk b => story_eqb a b = true
  | _, _ => False
  end.
Proof. vm_compute. repeat split; reflexivity. Qed.
(* 6. lines before the first passage header are not story lines for the pre-pass *)
Example preamble_not_decorable :
  decorable [doc "c"] ["import x"; ":: S"] = false /\ decorable [None; doc "c"] ["import x"; ":: S"] = true.
Proof. vm_compute. split; reflexivity. Qed.

(* ------------------------------------------------------------------------------------------- *)
(* (b) # comment lines at top level                                                             *)
(* ------------------------------------------------------------------------------------------- *)
(* Vocabulary:
     insert_at k c ls     ls with the line c inserted in front of line k
     is_hash c            the stripped line begins with `#`
     top_level_at pp xs ls k   in front of line k the pre-pass is outside Python code (no open
                          @py:/<<py block, no pending continuation line) and the main loop arrives at
                          index k (k is not inside a block that an extractor consumes); since fix F17l
                          the @metadata block is no exception
     xs_local xs L k c    the extractors read only their own block: a block that ended before line k
                          is extracted unchanged from the input with c inserted, a block that starts
                          at or after line k is extracted from the shifted input as from the original
                          (asked only at lines where the main loop calls an extractor)
     seen_comment ls k c  the inserted line as the main loop sees it (rstrip (bare_of c) in the story, c
                          in the preamble)
     erase                a diagnostic without the line index it carries (the inserted line shifts the
                          indices after it); erase (POk s) = POk s *)

(* the pre-pass passes a comment line through (without its own trailing // comment and trailing blanks
   when it stands in the story) and is otherwise undisturbed *)
Theorem hash_line_through_prepass : forall k ls ins c,
  prepass_at ls None false 0 k = Some (None, ins, 0) -> k < List.length ls -> is_hash c = true ->
  strip_comments_outside_python (insert_at k c ls) None false 0 =
  insert_at k (if ins then rstrip (bare_of c) else c) (strip_comments_outside_python ls None false 0).
Proof. exact prepass_insert. Qed.
Print Assumptions hash_line_through_prepass.

Theorem hash_line_invisible_top_level_partial : forall pp is_call xs ls k c,
  extractors_ok xs ->
  k < List.length ls -> is_hash c = true -> top_level_at pp xs ls k = true ->
  xs_local xs (strip_comments_outside_python ls None false 0) k (seen_comment ls k c) ->
  erase (parse pp is_call xs (insert_at k c ls)) = erase (parse pp is_call xs ls).
Proof. exact hash_line_invisible_lemma. Qed.
Print Assumptions hash_line_invisible_top_level_partial.

(* inputs in which every line is classified by the main loop itself: no condition on the extractors
   beyond extractors_ok (which real_extractors and no_extractors satisfy) *)
Theorem hash_line_invisible_blockfree : forall pp is_call xs ls k c,
  extractors_ok xs ->
  blockfree (strip_comments_outside_python ls None false 0) = true ->
  k < List.length ls -> is_hash c = true -> top_level_at pp xs ls k = true ->
  erase (parse pp is_call xs (insert_at k c ls)) = erase (parse pp is_call xs ls).
Proof. exact hash_line_invisible_blockfree_lemma. Qed.
Print Assumptions hash_line_invisible_blockfree.

(* a story that compiles compiles to the very same story *)
Theorem hash_line_same_story_blockfree : forall pp is_call xs ls k c s,
  extractors_ok xs ->
  blockfree (strip_comments_outside_python ls None false 0) = true ->
  k < List.length ls -> is_hash c = true -> top_level_at pp xs ls k = true ->
  parse pp is_call xs ls = POk s -> parse pp is_call xs (insert_at k c ls) = POk s.
Proof. exact hash_line_same_story_blockfree_lemma. Qed.
Print Assumptions hash_line_same_story_blockfree.

(* non-vacuity: a block-free story with imports, two passages, a multi-line ~ statement, choices, a
   jump, @hook, @render, @input, glue *)
Definition plain_story : list string :=
  ["import random"; ""; ":: Start(who=1) ^intro"; "Hello {who}.<>"; "~ items = ["; "    1,"; "    2]";
   "@hook turn_end Tick"; "@render card(x)"; "@input name=""n"""; "+ [Go] -> End"; "* {who} [Stay] -> Start(2)";
   ":: End"; "Bye."; "-> Tick"; ":: Tick"; "tick"].

Example plain_story_blockfree : blockfree (strip_comments_outside_python plain_story None false 0) = true.
Proof. vm_compute. reflexivity. Qed.

Example plain_story_top_level_positions :
  map (top_level_at pp0 ParseAllProofs.real_extractors plain_story) (seq 0 17) =
  [true; true; true; true; true; false; false; true; true; true; true; true; true; true; true; true; true].
Proof. vm_compute. reflexivity. Qed.

Example plain_story_with_comments_compiles_identically :
  forallb (fun k =>
    match ParseAllProofs.parse_real pp0 (fun _ => true) (insert_at k "  # note // with a comment" plain_story),
          ParseAllProofs.parse_real pp0 (fun _ => true) plain_story with
    | POk a, POk b => story_eqb a b
    | _, _ => false
    end) [0; 1; 2; 3; 4; 7; 8; 9; 10; 11; 12; 13; 14; 15; 16] = true.
Proof. vm_compute. reflexivity. Qed.

Example plain_story_by_theorem : forall is_call k, In k [0; 1; 2; 3; 4; 7; 8; 9; 10; 11; 12; 13; 14; 15; 16] ->
  erase (parse pp0 is_call ParseAllProofs.real_extractors (insert_at k "  # note // with a comment" plain_story)) =
  erase (parse pp0 is_call ParseAllProofs.real_extractors plain_story).
Proof.
  intros is_call k Hk. apply hash_line_invisible_blockfree.
  - exact ParseAllProofs.real_extractors_ok.
  - exact plain_story_blockfree.
  - simpl in Hk. repeat (destruct Hk as [<-|Hk]; [vm_compute; repeat constructor|]). destruct Hk.
  - reflexivity.
  - simpl in Hk. repeat (destruct Hk as [<-|Hk]; [vm_compute; reflexivity|]). destruct Hk.
Qed.

(* the positions that are excluded are excluded for a reason (model = real compiler on each):
   inside a multi-line ~ statement the line is Python code; *)
Example hash_inside_statement_is_code :
  top_level_at pp0 ParseAllProofs.real_extractors plain_story 5 = false /\
  strip_comments_outside_python (insert_at 5 "# c" plain_story) None false 0 =
  insert_at 5 "# c" (strip_comments_outside_python plain_story None false 0).
Proof. vm_compute. split; reflexivity. Qed.
(* inside the @metadata block a # line is skipped like a blank line (was defect F17l: it ended the block,
   or became a key when indented with a colon): the positions are top level, the theorem applies, and the
   three inputs of proposed_fixes/F17l give the same story *)
Definition meta_story : list string := ["@metadata"; "  title: X"; "  author: Y"; ":: Start"; "hi"].
Example hash_inside_metadata_invisible :
  map (top_level_at pp0 no_extractors meta_story) [1; 2; 3] = [true; true; true] /\
  (match parse pp0 (fun _ => true) no_extractors meta_story,
         parse pp0 (fun _ => true) no_extractors (insert_at 2 "# note" meta_story),
         parse pp0 (fun _ => true) no_extractors (insert_at 2 "  # note: this" meta_story) with
   | POk a, POk b, POk c => metadata a = [("title", "X"); ("author", "Y")] /\ story_eqb a b = true /\ story_eqb a c = true
   | _, _, _ => False
   end).
Proof. vm_compute. repeat split; reflexivity. Qed.
Example hash_inside_metadata_by_theorem : forall is_call xs c, extractors_ok xs -> is_hash c = true ->
  forall s, parse pp0 is_call xs meta_story = POk s -> parse pp0 is_call xs (insert_at 2 c meta_story) = POk s.
Proof.
  intros is_call xs c Hx Hc s Hs. apply hash_line_same_story_blockfree; try assumption.
  - vm_compute. reflexivity.
  - simpl. lia.
  - vm_compute. reflexivity.
Qed.
(* a block in the input, concretely: same story, positions inside the blocks are not top level *)
Example sample_story_hash_lines :
  map (top_level_at pp0 ParseAllProofs.real_extractors sample_story) [2; 3; 6; 12; 18; 24; 27; 28; 31] =
  [true; true; false; false; false; false; false; true; true] /\
  forallb (fun k =>
    match ParseAllProofs.parse_real pp0 (fun _ => true) (insert_at k "# note" sample_story),
          ParseAllProofs.parse_real pp0 (fun _ => true) sample_story with
    | POk a, POk b => story_eqb a b
    | _, _ => false
    end) [2; 3; 28; 31] = true.
Proof. vm_compute. split; reflexivity. Qed.

(* non-vacuity of the general theorem with blocks and the REAL extractors: for a concrete input and a
   concrete position xs_local is a finite statement (one instance per line at which the main loop
   calls an extractor), checked by evaluating the extractors on both inputs *)
Definition small_story : list string :=
  [":: Start"; "@py:"; "  z = 9 // 2"; "@endpy"; "@if hp > 1:"; "  You live."; "@else:";
   "  + [Again] -> Start"; "@endif"; "@for i in items:"; "  {i}<>"; "@endfor";
   "* [Rest] -> @join"; "    You rest."; "@join"; "+ [Go] -> End"; ":: End"; "Bye."].

Ltac vm_hyp H :=
  match type of H with
  | ?l = ?r => let v := eval vm_compute in l in
               let E := fresh "E" in
               assert (E : l = v) by (vm_compute; reflexivity); rewrite E in H; clear E
  end.
Ltac before_case :=
  match goal with
  | Hn : nth_error _ _ = Some _, Ht : _ = true, Hx : _ = POk _ |- _ =>
      simpl in Hn; injection Hn as <-; vm_hyp Ht; try discriminate Ht;
      vm_hyp Hx; try discriminate Hx; inversion Hx; subst; try lia; vm_compute; reflexivity
  end.
Ltac after_case :=
  match goal with
  | Hn : nth_error _ _ = Some _, Ht : _ = true |- _ =>
      simpl in Hn; try discriminate Hn; injection Hn as <-; vm_hyp Ht; try discriminate Ht;
      try lia; vm_compute; reflexivity
  end.

Example small_story_local :
  xs_local ParseAllProofs.real_extractors (strip_comments_outside_python small_story None false 0) 9
           (seen_comment small_story 9 "  # the loop // c").
Proof.
  replace (strip_comments_outside_python small_story None false 0) with small_story by (vm_compute; reflexivity).
  replace (seen_comment small_story 9 "  # the loop // c") with "  # the loop" by (vm_compute; reflexivity).
  unfold small_story, xs_local. cbv zeta.
  repeat split.
  - intros i line Hi Hn Ht t n Hx Hle. do 9 (destruct i as [|i]; [before_case|]). lia.
  - intros i line Hi Hn Ht t n Hx Hle. do 9 (destruct i as [|i]; [before_case|]). lia.
  - intros i line Hi Hn Ht t n Hx Hle. do 9 (destruct i as [|i]; [before_case|]). lia.
  - intros i line Hi Hn Ht t n Hx Hle. do 9 (destruct i as [|i]; [before_case|]). lia.
  - intros i line Hi Hn Ht. do 18 (destruct i as [|i]; [try lia; after_case|]). simpl in Hn; destruct i; discriminate Hn.
  - intros i line Hi Hn Ht. do 18 (destruct i as [|i]; [try lia; after_case|]). simpl in Hn; destruct i; discriminate Hn.
  - intros i line Hi Hn Ht. do 18 (destruct i as [|i]; [try lia; after_case|]). simpl in Hn; destruct i; discriminate Hn.
  - intros i line Hi Hn Ht. do 18 (destruct i as [|i]; [try lia; after_case|]). simpl in Hn; destruct i; discriminate Hn.
Qed.

Example small_story_by_theorem : forall is_call,
  erase (parse pp0 is_call ParseAllProofs.real_extractors (insert_at 9 "  # the loop // c" small_story)) =
  erase (parse pp0 is_call ParseAllProofs.real_extractors small_story).
Proof.
  intros is_call. apply hash_line_invisible_top_level_partial.
  - exact ParseAllProofs.real_extractors_ok.
  - simpl. lia.
  - reflexivity.
  - vm_compute. reflexivity.
  - exact small_story_local.
Qed.

Example small_story_compiles :
  match ParseAllProofs.parse_real pp0 (fun _ => true) (insert_at 9 "  # the loop // c" small_story),
        ParseAllProofs.parse_real pp0 (fun _ => true) small_story with
  | POk a, POk b => story_eqb a b = true /\ List.length (passages a) = 2
  | _, _ => False
  end.
Proof. vm_compute. split; reflexivity. Qed.

(* why xs_local is a hypothesis and not a lemma about the real extractors: it is finite-checkable for a
   given input (above), it is not true of them in one corner: the join-block extractor reads one line
   beyond its block to see where it ends, and a comment indented more than the choice, inserted right
   after the block, is taken into the block (one more line consumed, same tokens).  The compiled story
   is still the same, by a different run of the main loop. *)
Example join_block_absorbs_indented_comment :
  let js := [":: S"; "* [R] -> @join"; "    You rest."; "@join"; "after"] in
  top_level_at pp0 ParseAllProofs.real_extractors js 3 = true /\
  x_join ParseAllProofs.real_extractors js 2 0 = POk ([TText "You rest."; TText ParseMain.nl], [], 1) /\
  x_join ParseAllProofs.real_extractors (insert_at 3 "      # note" js) 2 0 =
    POk ([TText "You rest."; TText ParseMain.nl], [], 2) /\
  match ParseAllProofs.parse_real pp0 (fun _ => true) (insert_at 3 "      # note" js),
        ParseAllProofs.parse_real pp0 (fun _ => true) js with
  | POk a, POk b => story_eqb a b = true
  | _, _ => False
  end.
Proof. vm_compute. repeat split; reflexivity. Qed.

(* # lines inside the block of a `-> @join` choice (was defect F17m: a comment line decided where the
   block ends and what its base indentation is): the three inputs of proposed_fixes/F17m, and a comment
   as last line of the block, compile identically; the extractor consumes the comment line with the block *)
Definition join_story : list string := [":: Start"; "* [J] -> @join"; "   inner"; "@join"; "after"].
Example hash_in_join_block_invisible :
  x_join ParseAllProofs.real_extractors join_story 2 0 = POk ([TText "inner"; TText ParseMain.nl], [], 1) /\
  x_join ParseAllProofs.real_extractors (insert_at 2 "  # c" join_story) 2 0 =
    POk ([TText "inner"; TText ParseMain.nl], [], 2) /\
  x_join ParseAllProofs.real_extractors (insert_at 2 "# c" join_story) 2 0 =
    POk ([TText "inner"; TText ParseMain.nl], [], 2) /\
  forallb (fun ls =>
    match ParseAllProofs.parse_real pp0 (fun _ => true) ls,
          ParseAllProofs.parse_real pp0 (fun _ => true) join_story with
    | POk a, POk b => story_eqb a b
    | _, _ => false
    end) [insert_at 2 "  # c" join_story; insert_at 2 "# c" join_story; insert_at 3 "# c" join_story;
          insert_at 3 "        # c" join_story] = true.
Proof. vm_compute. repeat split; reflexivity. Qed.

(* ------------------------------------------------------------------------------------------- *)
(* (b') indentation of an @if body around a Python block                                        *)
(* ------------------------------------------------------------------------------------------- *)
(* was defect F17j: a line of a Python block indented less than the block's first line kept the
   indentation of the enclosing @if body.  The minimal pairs of proposed_fixes/F17j: the block is
   extracted to the same code whether the @if body is indented or not, in both block syntaxes. *)
Definition py_flush : list string :=
  [":: S"; "@if flag:"; "@py:"; "    s = '''"; "  a"; "    '''"; "@endpy"; "@endif"].
Definition py_indented : list string :=
  [":: S"; "@if flag:"; "  @py:"; "      s = '''"; "    a"; "      '''"; "  @endpy"; "@endif"].
Definition py_code : string := "s = '''" ++ ParseMain.nl ++ "  a" ++ ParseMain.nl ++ "'''".
Example py_block_in_indented_if_body_extracted :
  ParseBlocks.extract_python_block py_flush 2 = POk (py_code, 5) /\
  ParseBlocks.extract_python_block py_indented 2 = POk (py_code, 5).
Proof. vm_compute. split; reflexivity. Qed.
Example py_block_in_indented_if_body_compiles_identically :
  match ParseAllProofs.parse_real pp0 (fun _ => true) py_flush,
        ParseAllProofs.parse_real pp0 (fun _ => true) py_indented with
  | POk a, POk b => story_eqb a b = true /\
      option_map content (lookup "S" (passages a)) = Some [TCond [Branch "flag" [TPyBlock py_code] []]]
  | _, _ => False
  end.
Proof. vm_compute. split; reflexivity. Qed.
Definition legacy_py (q : string) : list string :=
  [":: S"; "@if flag:"; q ++ "<<py"; q ++ "    s = '''"; q ++ "  a"; q ++ "    '''"; q ++ ">>"; "@endif"].
Example legacy_py_block_in_indented_if_body_compiles_identically :
  ParseBlocks.extract_python_block (legacy_py "") 2 = POk (py_code, 5) /\
  ParseBlocks.extract_python_block (legacy_py "  ") 2 = POk (py_code, 5) /\
  match ParseAllProofs.parse_real pp0 (fun _ => true) (legacy_py ""),
        ParseAllProofs.parse_real pp0 (fun _ => true) (legacy_py "  ") with
  | POk a, POk b => story_eqb a b = true
  | _, _ => False
  end.
Proof. vm_compute. repeat split; reflexivity. Qed.

(* ------------------------------------------------------------------------------------------- *)
(* (c) legacy `<<...>>` and `@...:` headers                                                      *)
(* ------------------------------------------------------------------------------------------- *)
(* cond_ok c : c is non-empty, has no blank at either end, no `/`, and no `>>` before its end
   var_ok v  : v is non-empty, has no whitespace and no `/` *)

(* whole block, extractor level: for every prefix, every body and rest of the input, every version of
   the extractor (fixed/cap) and every line-level function record *)
Theorem for_block_forms_agree_partial : forall fixed cap lf pre rest ind1 ind2 v coll,
  var_ok v = true -> cond_ok coll = true -> all_space ind1 = true -> all_space ind2 = true ->
  ParseBlocks.extract_loop_block_v fixed cap lf
    (pre ++ (ind1 ++ "@for " ++ v ++ " in " ++ coll ++ ":") :: rest) (List.length pre) =
  ParseBlocks.extract_loop_block_v fixed cap lf
    (pre ++ (ind2 ++ "<<for " ++ v ++ " in " ++ coll ++ ">>") :: rest) (List.length pre).
Proof. exact for_forms_agree_lemma. Qed.
Print Assumptions for_block_forms_agree_partial.

Theorem for_header_forms_read_back_partial : forall v coll, var_ok v = true -> cond_ok coll = true ->
  ParseBlocks.match_for_colon ("@for " ++ v ++ " in " ++ coll ++ ":") = Some (v, coll) /\
  ParseBlocks.match_for_legacy ("<<for " ++ v ++ " in " ++ coll ++ ">>") = Some (v, coll).
Proof. exact for_header_forms_read_back. Qed.
Print Assumptions for_header_forms_read_back_partial.

(* header level: the opening line of a conditional block, in either form and at any indentation, puts
   the extractor into the same state: one open branch with condition c *)
Theorem if_forms_agree_partial : forall fixed lf rc rl lines start ind1 ind2 c st,
  cond_ok c = true -> all_space ind1 = true -> all_space ind2 = true ->
  ParseBlocks.cond_step fixed lf rc rl lines start start (ind1 ++ "@if " ++ c ++ ":") st =
  ParseBlocks.cond_step fixed lf rc rl lines start start (ind2 ++ "<<if " ++ c ++ ">>") st.
Proof. exact if_forms_agree_lemma. Qed.
Print Assumptions if_forms_agree_partial.

Theorem if_header_branch_condition_partial : forall fixed lf rc rl lines start ind c st,
  cond_ok c = true -> all_space ind = true ->
  ParseBlocks.cond_step fixed lf rc rl lines start start (ind ++ "@if " ++ c ++ ":") st =
  POk (ParseBlocks.CNext (ParseBlocks.mkCstate (ParseBlocks.cs_branches st) (Some (c, [], [])) [] (Some c)) 1).
Proof. exact if_header_at. Qed.
Print Assumptions if_header_branch_condition_partial.

Theorem elif_forms_agree_partial : forall fixed lf rc rl lines start i ind1 ind2 c st,
  cond_ok c = true -> all_space ind1 = true -> all_space ind2 = true ->
  ParseBlocks.cond_step fixed lf rc rl lines start i (ind1 ++ "@elif " ++ c ++ ":") st =
  ParseBlocks.cond_step fixed lf rc rl lines start i (ind2 ++ "<<elif " ++ c ++ ">>") st.
Proof. exact elif_forms_agree_lemma. Qed.
Print Assumptions elif_forms_agree_partial.

Theorem else_forms_agree_partial : forall fixed lf rc rl lines start i ind1 ind2 st,
  all_space ind1 = true -> all_space ind2 = true ->
  ParseBlocks.cond_step fixed lf rc rl lines start i (ind1 ++ "@else:") st =
  ParseBlocks.cond_step fixed lf rc rl lines start i (ind2 ++ "<<else>>") st.
Proof. exact else_forms_agree_lemma. Qed.
Print Assumptions else_forms_agree_partial.

Theorem endif_forms_agree_partial : forall fixed lf rc rl lines start i ind1 ind2 st,
  all_space ind1 = true -> all_space ind2 = true ->
  ParseBlocks.cond_step fixed lf rc rl lines start i (ind1 ++ "@endif") st =
  ParseBlocks.cond_step fixed lf rc rl lines start i (ind2 ++ "<<endif>>") st.
Proof. exact endif_forms_agree_lemma. Qed.
Print Assumptions endif_forms_agree_partial.

(* non-vacuity of the side conditions, and what they exclude *)
Example cond_ok_met : cond_ok "hp > 1 and name == 'a:b'" = true /\ cond_ok "x[1:2]" = true /\ var_ok "item" = true.
Proof. vm_compute. repeat split; reflexivity. Qed.
Example cond_ok_excludes :
  cond_ok "a >> 1" = false /\ cond_ok "x >" = false /\ cond_ok "n // 2" = false /\ cond_ok " x" = false /\ cond_ok "" = false.
Proof. vm_compute. repeat split; reflexivity. Qed.
Example shift_condition_differs :      (* `>>` inside the condition closes the legacy header early *)
  ParseBlocks.match_legacy "<<if" "<<if a >> 1>>" = Some "a" /\
  option_map strip (ParseBlocks.match_colon_tail "@if" "@if a >> 1:") = Some "a >> 1".
Proof. vm_compute. split; reflexivity. Qed.

(* a whole story in both header styles (and different indentation of the headers) *)
Definition at_style : list string :=
  [":: Start"; "@if hp > 1:"; "  strong"; "@elif hp == 1:"; "  weak"; "@else:"; "  dead"; "@endif";
   "@for i in items:"; "  {i}<>"; "@endfor"; ":: End"; "Bye."].
Definition legacy_style : list string :=
  [":: Start"; "<<if hp > 1>>"; "  strong"; "  <<elif hp == 1>>"; "  weak"; "<<else>>"; "  dead"; " <<endif>>";
   "  <<for i in items>>"; "  {i}<>"; "<<endfor>>"; ":: End"; "Bye."].
Example header_styles_compile_identically :
  match ParseAllProofs.parse_real pp0 (fun _ => true) at_style,
        ParseAllProofs.parse_real pp0 (fun _ => true) legacy_style with
  | POk a, POk b => story_eqb a b = true
  | _, _ => False
  end.
Proof. vm_compute. reflexivity. Qed.

(* =========================================================================================== *)
(* WHOLE INPUT: legacy <<..>> forms and @ forms compile identically (Proofs/SurfaceForms*.v)         *)
(* =========================================================================================== *)
From Coq Require Import String Ascii List Bool Arith Lia.
From Bardic Require Import PyStr Value Compiled Lex LexProofs.
From Bardic Require Import ParseBase ParseLine ParseMain ParseCheck ParseProofs SurfaceProofs.
From Bardic Require ParseBlocks ParseBlocksInst ParseAllProofs.
From Bardic Require Import SurfaceFormsBase SurfaceForms.
From Bardic Require Import SurfaceFormsPy.
Module WholeInput.
(* C17 (continued) -- legacy `<<...>>` forms versus `@...:` forms, WHOLE INPUT.

   Props/C17.v part (c) says that one step of an extractor reads a legacy header and its @ form the same way.
   This file carries the composition through the whole parser model (pre-pass, main loop, the extractors with
   arbitrary nesting, dedented loop bodies):

     legacy_and_at_forms_compile_identically
         parse_real pp is_call (map to_at_form ls) = parse_real pp is_call ls      for ALL line lists ls with
         admissible ls = true, all oracles: every legacy block header <<if C>> <<elif C>> <<else>> <<endif>>
         <<for M>> <<endfor>> rewritten to its @ form.
     legacy_and_at_forms_any_subset
         the same for any subset of the headers rewritten (mixed styles).
     legacy_and_at_forms_with_py_compile_identically
         the same with the delimiters of Python blocks rewritten as well (`<<py` ... `>>` to `@py:` ... `@endpy`),
         side condition admissible_full.

   The side conditions are executable (bool), are met by ordinary stories (legacy_story below; 600 generated
   nested legacy stories, all admissible_full, all compiled identically by the real compiler), and each part is
   needed: the `..._needed` examples, every one of which was also compiled in both forms by the real compiler with
   the outcome the model shows.  Proving this file found two defects of the compiler, both repaired since (the model
   follows the repaired code, and the two parts of the side condition that excluded them are gone):
     F17n  an indented legacy header inside the block of a `-> @join` choice was text, its @ form ended the block;
           now both end the block (legacy_header_in_join_block_fixed)
     F17o  an unclosed `<<py` block was accepted and swallowed the rest of the source, an unclosed `@py:` was
           rejected; now both are rejected (unclosed_legacy_python_block_rejected)
   (proposed_fixes/F17n-legacy-headers-in-join-block.diff, proposed_fixes/F17o-unclosed-legacy-python-block.diff).

   What the side condition is (Proofs/SurfaceFormsBase.v, SurfaceForms.v, SurfaceFormsPy.v):
     hdr_ok l      (per line) if l is a legacy header, the compiler's own readers of the two header forms
                   (match_legacy / match_colon_tail, match_for_legacy / match_for_colon) return the same condition or
                   (variable, collection), and the comment scanner finds no `//` in either form.  This is exact for
                   the header itself; legacy_if_header_ok / legacy_for_header_ok show that the conditions of part (c)
                   (cond_ok, var_ok) meet it, hdr_ok_met that blanks around the condition, a single `/` and tuple
                   targets do too.
     headers_in_header_position pp ls
                   the compiler's own control flow run on ls (pre-pass, main loop, extractors, with the real
                   sub-extractors computing how many lines each construct consumes), with a test wherever a line
                   is read verbatim: no legacy header is (1) a body line of an @py: / <<py block, (2) a continuation
                   line of a multi-line ~ statement, (3) an indented line of the @metadata block, (4) a text line
                   (a closer or <<elif>>/<<else>> outside its block).  (The block of a `-> @join` choice is no such
                   place any more: since fix F17n a legacy header ends it like its @ form.)
                   It is evaluated with the oracle that accepts every ~ statement (pp_yes); that this suffices for
                   every oracle is part of the theorem. *)
Import ListNotations.
Local Open Scope string_scope.

Definition pp0 : pyparse := mkPyparse (fun _ => true) (fun _ => Some (0, [])) (fun _ => 0).


(* ------------------------------------------------------------------------------------------- *)
(* (d) legacy `<<...>>` and `@...:` block headers: the whole input                               *)
(* ------------------------------------------------------------------------------------------- *)
(* Vocabulary (Proofs/SurfaceFormsBase.v, Proofs/SurfaceForms.v):
     to_at_form l        a line whose stripped text is  <<if C>> | <<elif C>> | <<else>> | <<endif>> | <<for M>> |
                         <<endfor>>  becomes  indentation ++  @if C: | @elif C: | @else: | @endif | @for M: | @endfor
                         (trailing blanks dropped); every other line is returned unchanged
     R l l'              l' = l  or  l' = to_at_form l
     hdr_ok l            if l is such a legacy header: the compiler's own header readers give the same condition /
                         (variable, collection) for both forms (match_legacy vs match_colon_tail, match_for_legacy vs
                         match_for_colon), and the scanner finds no `//` in either form
     headers_in_header_position pp ls
                         the compiler's own control flow (pre-pass, main loop, the extractors, on ls), with one
                         extra test wherever a line is taken verbatim: no legacy header is read as Python code
                         (body of an @py:/<<py block, continuation line of a multi-line ~ statement), as text (a stray
                         <<elif>>/<<else>>/<<endif>>/<<endfor>> outside its block), or as a key of the @metadata block
     admissible ls       forallb hdr_ok ls && headers_in_header_position pp_yes ls *)

Theorem legacy_and_at_forms_compile_identically : forall pp is_call ls,
  admissible ls = true ->
  ParseAllProofs.parse_real pp is_call (map to_at_form ls) = ParseAllProofs.parse_real pp is_call ls.
Proof. exact legacy_and_at_forms_compile_identically_lemma. Qed.
Print Assumptions legacy_and_at_forms_compile_identically.

(* any subset of the legacy headers rewritten (mixed styles) *)
Theorem legacy_and_at_forms_any_subset : forall pp is_call ls ls',
  Forall2 R ls ls' -> admissible ls = true ->
  ParseAllProofs.parse_real pp is_call ls' = ParseAllProofs.parse_real pp is_call ls.
Proof. exact legacy_and_at_forms_mixed. Qed.
Print Assumptions legacy_and_at_forms_any_subset.

(* hdr_ok is met by the conditions of cond_ok / var_ok (part (c)), at any indentation, with trailing blanks *)
Theorem legacy_if_header_ok : forall ind c t, all_space ind = true -> all_space t = true -> cond_ok c = true ->
  hdr_ok (ind ++ ("<<if " ++ c ++ ">>") ++ t) = true /\ hdr_ok (ind ++ ("<<elif " ++ c ++ ">>") ++ t) = true.
Proof. exact hdr_ok_if_line. Qed.
Print Assumptions legacy_if_header_ok.

Theorem legacy_for_header_ok : forall ind v coll t, all_space ind = true -> all_space t = true ->
  var_ok v = true -> cond_ok coll = true ->
  hdr_ok (ind ++ ("<<for " ++ (v ++ " in " ++ coll) ++ ">>") ++ t) = true.
Proof. exact hdr_ok_for_line. Qed.
Print Assumptions legacy_for_header_ok.

(* ... and by more than that: blanks around the condition, a single `/`, tuple targets *)
Example hdr_ok_met :
  map hdr_ok ["<<if hp > 1>>"; "  <<if  x >>  "; "<<if n / 2 > 1>>"; "<<elif d['a:b'] > 2>>";
              "<<for k, v in d.items()>>"; "<<else>>"; "plain text"; "@if a >> 1:"] =
  [true; true; true; true; true; true; true; true].
Proof. vm_compute. reflexivity. Qed.

Example to_at_form_examples :
  map to_at_form ["  <<if hp > 1>>  "; "<<elif x>>"; " <<else>>"; "<<endif>>"; "<<for k, v in d.items()>>"; "<<endfor>>";
                  "text <<if x>>"; "@if x:"; "<<py"; ">>"; "<<if x>> // c"] =
  ["  @if hp > 1:"; "@elif x:"; " @else:"; "@endif"; "@for k, v in d.items():"; "@endfor";
   "text <<if x>>"; "@if x:"; "<<py"; ">>"; "<<if x>> // c"].
Proof. vm_compute. reflexivity. Qed.

(* non-vacuity: a story in the legacy style with nested blocks (a loop in a conditional, a conditional with three
   branches in that loop, a multi-line ~ statement in a branch), both Python block forms, a `-> @join` choice, a
   multi-line ~ statement, comments, trailing blanks after a header *)
Definition legacy_story : list string :=
  ["import random"; "# preamble"; ":: Start ^intro"; "You have {hp} hp.";
   "~ items = ["; "    1,"; "    2"; "]";
   "@py:"; "  z = 9 // 2"; "@endpy"; "<<py"; "  q = 1 >> 1"; ">>";
   "<<if hp > 1>>   "; "  You live."; "  <<for i in items>>"; "    <<if i == 1>>"; "      one<>"; "    <<elif i == 2>>";
   "      ~ t = ["; "        i]"; "    <<else>>"; "      many"; "    <<endif>>"; "  <<endfor>>"; "  -> End"; "<<else>>";
   "  + [Again] -> Start"; "<<endif>>";
   "<<for k, v in pairs>>"; "  {k}<>"; "  <<py"; "  w = 1"; "  >>"; "<<endfor>>";
   "* [Rest] -> @join"; "    You rest."; "@join"; "+ [Go] -> End"; "-> End";
   ":: End"; "Bye. // old comment"; ""].

Example legacy_story_admissible : admissible legacy_story = true.
Proof. vm_compute. reflexivity. Qed.

Example legacy_story_in_at_form :
  firstn 12 (skipn 14 (map to_at_form legacy_story)) =
  ["@if hp > 1:"; "  You live."; "  @for i in items:"; "    @if i == 1:"; "      one<>"; "    @elif i == 2:";
   "      ~ t = ["; "        i]"; "    @else:"; "      many"; "    @endif"; "  @endfor"].
Proof. vm_compute. reflexivity. Qed.

Example legacy_story_by_theorem : forall pp is_call,
  ParseAllProofs.parse_real pp is_call (map to_at_form legacy_story) = ParseAllProofs.parse_real pp is_call legacy_story.
Proof. intros. apply legacy_and_at_forms_compile_identically. exact legacy_story_admissible. Qed.

Example legacy_story_compiles :
  match ParseAllProofs.parse_real pp0 (fun _ => true) legacy_story with
  | POk a => List.length (passages a) = 2 /\
      option_map (fun p => List.length (content p)) (lookup "Start" (passages a)) = Some 8
  | _ => False
  end.
Proof. vm_compute. split; reflexivity. Qed.

(* mixed styles: only the outer conditional rewritten *)
Example legacy_story_mixed : forall pp is_call,
  let sel := fun l => String.eqb l "<<if hp > 1>>   " || String.eqb l "<<else>>" || String.eqb l "<<endif>>" in
  ParseAllProofs.parse_real pp is_call (map (fun l => if sel l then to_at_form l else l) legacy_story) =
  ParseAllProofs.parse_real pp is_call legacy_story.
Proof.
  intros pp is_call sel. apply legacy_and_at_forms_any_subset; [apply Forall2_R_map_sel|exact legacy_story_admissible].
Qed.
Example legacy_story_mixed_looks_like :
  let sel := fun l => String.eqb l "<<if hp > 1>>   " || String.eqb l "<<else>>" || String.eqb l "<<endif>>" in
  firstn 4 (skipn 14 (map (fun l => if sel l then to_at_form l else l) legacy_story)) =
  ["@if hp > 1:"; "  You live."; "  <<for i in items>>"; "    <<if i == 1>>"].
Proof. vm_compute. reflexivity. Qed.

(* ---- each part of the side condition is needed (every pair below was also compiled by the real compiler, with
        the same outcome as the model's) ---- *)
Definition differ (ls : list string) : Prop :=
  match ParseAllProofs.parse_real pp0 (fun _ => true) ls,
        ParseAllProofs.parse_real pp0 (fun _ => true) (map to_at_form ls) with
  | POk a, POk b => story_eqb a b = false
  | _, _ => False
  end.

(* hdr_ok, readers agree: `>>` inside the condition closes the legacy header early (condition `a`, not `a >> 1`) *)
Example shift_in_condition_needed :
  let ls := [":: S"; "<<if a >> 1>>"; "x"; "<<endif>>"] in
  hdr_ok "<<if a >> 1>>" = false /\ admissible ls = false /\ differ ls.
Proof. vm_compute. repeat split; reflexivity. Qed.
(* hdr_ok, no `//`: the pre-pass cuts the header at `//`; both forms are rejected, with different diagnostics *)
Example comment_in_condition_needed :
  let ls := [":: S"; "<<if n // 2>>"; "x"; "<<endif>>"] in
  hdr_ok "<<if n // 2>>" = false /\ admissible ls = false /\
  ParseAllProofs.parse_real pp0 (fun _ => true) ls = PDiag (DSyntax "if-missing-close" 1) /\
  ParseAllProofs.parse_real pp0 (fun _ => true) (map to_at_form ls) = PDiag (DSyntax "if-missing-colon" 1).
Proof. vm_compute. repeat split; reflexivity. Qed.
(* position: inside a Python block the line is Python code *)
Example legacy_header_in_python_block_needed :
  let ls := [":: S"; "@py:"; "<<endif>>"; "@endpy"] in
  forallb hdr_ok ls = true /\ admissible ls = false /\ differ ls.
Proof. vm_compute. repeat split; reflexivity. Qed.
(* position: a continuation line of a multi-line ~ statement is Python code *)
Example legacy_header_in_statement_needed :
  let ls := [":: S"; "~ x = ["; "'''"; "<<endif>>"; "''']"] in
  forallb hdr_ok ls = true /\ admissible ls = false /\ differ ls.
Proof. vm_compute. repeat split; reflexivity. Qed.
(* WAS a position to exclude, defect F17n (fixed): in the block of a `-> @join` choice an indented legacy header was
   TEXT of the block while its @ form ended the block and opened a conditional.  Now the legacy header ends the
   block too: the input is admissible, the choice's block is empty and the conditional is compiled by the main loop,
   in either form (regression witness of proposed_fixes/F17n-legacy-headers-in-join-block.diff) *)
Example legacy_header_in_join_block_fixed :
  let ls := [":: S"; "* [R] -> @join"; "    <<if x>>"; "    a"; "    <<endif>>"; "@join"; "after"] in
  admissible ls = true /\
  match ParseAllProofs.parse_real pp0 (fun _ => true) ls,
        ParseAllProofs.parse_real pp0 (fun _ => true) (map to_at_form ls) with
  | POk a, POk b => story_eqb a b = true /\
      option_map (fun p => map ch_block (choices p)) (lookup "S" (passages a)) = Some [[]] /\
      option_map content (lookup "S" (passages a)) =
        Some [TCond [Branch "x" [TText "a"; TText ParseMain.nl] []]; TJoinMarker 0; TText "after"; TText ParseMain.nl]
  | _, _ => False
  end.
Proof. vm_compute. repeat split; reflexivity. Qed.
(*   a header indented no more than the choice ended the block in either form before the fix already *)
Example legacy_header_after_join_block_fine :
  admissible [":: S"; "* [R] -> @join"; "    a"; "<<if x>>"; "b"; "<<endif>>"; "@join"; "after"] = true.
Proof. vm_compute. reflexivity. Qed.
(* position: inside the @metadata block an indented `@if x:` is a key, `<<if x>>` is not *)
Example legacy_header_in_metadata_needed :
  let ls := ["@metadata"; "  <<if x>>"; ":: S"; "t"] in
  forallb hdr_ok ls = true /\ admissible ls = false /\ differ ls.
Proof. vm_compute. repeat split; reflexivity. Qed.
(* position: a closer without its block is a text line, and the two texts differ *)
Example stray_endif_needed :
  let ls := [":: S"; "<<endif>>"] in forallb hdr_ok ls = true /\ admissible ls = false /\ differ ls.
Proof. vm_compute. repeat split; reflexivity. Qed.
Example stray_endfor_in_conditional_needed :
  let ls := [":: S"; "<<if x>>"; "<<endfor>>"; "<<endif>>"] in forallb hdr_ok ls = true /\ admissible ls = false /\ differ ls.
Proof. vm_compute. repeat split; reflexivity. Qed.
Example stray_else_in_loop_needed :
  let ls := [":: S"; "<<for i in x>>"; "<<else>>"; "<<endfor>>"] in forallb hdr_ok ls = true /\ admissible ls = false /\ differ ls.
Proof. vm_compute. repeat split; reflexivity. Qed.
(* headers before the first passage are skipped in either form: admissible *)
Example legacy_header_in_preamble_fine : admissible ["<<if x>>"; ":: S"; "t"] = true.
Proof. vm_compute. reflexivity. Qed.

(* ------------------------------------------------------------------------------------------- *)
(* (e) ... and the delimiters of Python blocks: `<<py` ... `>>` versus `@py:` ... `@endpy`       *)
(* ------------------------------------------------------------------------------------------- *)
(* Vocabulary (Proofs/SurfaceFormsPy.v):
     to_at_full l        to_at_form l, and a line whose stripped text is `<<py` / `>>` becomes indentation ++ `@py:` /
                         `@endpy`
     py_plain_line l     a line that some pass of the compiler reads as a delimiter of a legacy Python block (its
                         stripped text, or its text without trailing comment, begins with `<<py` or is `>>`) is
                         written plainly: exactly `<<py` or `>>`
     pre_chk ls ...      the comment pre-pass, run on ls: inside a legacy block no line reads `@endpy`, inside an
                         @py: block no line reads `>>`
     rewritten_lines_in_position pp ls
                         as headers_in_header_position, for headers and delimiters; a legacy Python block that is
                         entered must contain no line reading `@endpy` (legacy_py_ok; since fix F17o it need not be
                         closed: unclosed, both forms are rejected alike)
     admissible_full ls  forallb hdr_ok ls && forallb py_plain_line ls && pre_chk ls None false 0 &&
                         rewritten_lines_in_position pp_yes ls *)

Theorem legacy_and_at_forms_with_py_compile_identically : forall pp is_call ls,
  admissible_full ls = true ->
  ParseAllProofs.parse_real pp is_call (map to_at_full ls) = ParseAllProofs.parse_real pp is_call ls.
Proof. exact legacy_and_at_forms_with_py_compile_identically_lemma. Qed.
Print Assumptions legacy_and_at_forms_with_py_compile_identically.

(* the two extractors compute the same code: the line-by-line dedent of _extract_py_old_syntax is the dedent
   of detect_and_strip_indentation followed by the blank-line rule of _extract_py_new_syntax *)
Theorem legacy_python_dedent_is_block_dedent : forall ls,
  old_adj None ls = map ParseBlocks.blank_to_empty (detect_and_strip_indentation ls).
Proof. exact old_adj_none. Qed.
Print Assumptions legacy_python_dedent_is_block_dedent.

Example to_at_full_examples :
  map to_at_full ["  <<py  "; "  >>"; "<<if x>>"; "<<python"; "<<py // c"; ">> 1"; "x >> 1"; "@py:"] =
  ["  @py:"; "  @endpy"; "@if x:"; "<<python"; "<<py // c"; ">> 1"; "x >> 1"; "@py:"].
Proof. vm_compute. reflexivity. Qed.

Example legacy_story_admissible_full : admissible_full legacy_story = true.
Proof. vm_compute. reflexivity. Qed.

Example legacy_story_in_full_at_form :
  firstn 6 (skipn 8 (map to_at_full legacy_story)) = ["@py:"; "  z = 9 // 2"; "@endpy"; "@py:"; "  q = 1 >> 1"; "@endpy"] /\
  firstn 6 (skipn 30 (map to_at_full legacy_story)) = ["@for k, v in pairs:"; "  {k}<>"; "  @py:"; "  w = 1"; "  @endpy"; "@endfor"].
Proof. vm_compute. split; reflexivity. Qed.

Example legacy_story_full_by_theorem : forall pp is_call,
  ParseAllProofs.parse_real pp is_call (map to_at_full legacy_story) = ParseAllProofs.parse_real pp is_call legacy_story.
Proof. intros. apply legacy_and_at_forms_with_py_compile_identically. exact legacy_story_admissible_full. Qed.

(* a Python block with relative indentation, a blank line, an under-indented line, inside an indented @if body *)
Definition py_in_if : list string :=
  [":: S"; "<<if flag>>"; "  <<py"; "      s = '''"; ""; "    a"; "      '''"; "      if s:"; "          t = 1"; "  >>"; "<<endif>>"].
Example py_in_if_admissible : admissible_full py_in_if = true /\
  match ParseAllProofs.parse_real pp0 (fun _ => true) py_in_if with
  | POk a => option_map content (lookup "S" (passages a)) =
      Some [TCond [Branch "flag" [TPyBlock ("s = '''" ++ ParseMain.nl ++ ParseMain.nl ++ "  a" ++ ParseMain.nl ++ "'''" ++ ParseMain.nl ++
                                            "if s:" ++ ParseMain.nl ++ "    t = 1")] []]]
  | _ => False
  end.
Proof. vm_compute. split; reflexivity. Qed.

Definition differ_full (ls : list string) : Prop :=
  match ParseAllProofs.parse_real pp0 (fun _ => true) ls,
        ParseAllProofs.parse_real pp0 (fun _ => true) (map to_at_full ls) with
  | POk a, POk b => story_eqb a b = false
  | _, _ => False
  end.

(* py_plain_line: `<<py // note` is an opener for the compiler (the pre-pass drops the comment) but is not rewritten,
   its `>>` is: the block is left without its closer (and, since fix F17o, rejected) *)
Example decorated_python_opener_needed :
  let ls := [":: S"; "<<py // note"; "x = 1"; ">>"; "t"] in
  forallb py_plain_line ls = false /\ admissible_full ls = false /\
  match ParseAllProofs.parse_real pp0 (fun _ => true) ls with
  | POk a => option_map execute (lookup "S" (passages a)) = Some [TPyBlock "x = 1"]
  | _ => False
  end /\
  ParseAllProofs.parse_real pp0 (fun _ => true) (map to_at_full ls) = PDiag (DSyntax "py-unclosed" 1).
Proof. vm_compute. repeat split; reflexivity. Qed.
(* pre_chk / legacy_py_ok: a line reading `@endpy` inside a legacy block closes the rewritten block early *)
Example endpy_in_legacy_block_needed :
  let ls := [":: S"; "<<py"; "s = '''"; "@endpy"; "'''"; ">>"] in
  forallb py_plain_line ls = true /\ pre_chk ls None false 0 = false /\ admissible_full ls = false /\ differ_full ls.
Proof. vm_compute. repeat split; reflexivity. Qed.
(* pre_chk: a line reading `>>` inside an @py: block is rewritten to `@endpy` and closes that block early *)
Example closer_in_at_block_needed :
  let ls := [":: S"; "@py:"; "s = '''"; ">>"; "'''"; "@endpy"] in
  forallb py_plain_line ls = true /\ pre_chk ls None false 0 = false /\ admissible_full ls = false /\ differ_full ls.
Proof. vm_compute. repeat split; reflexivity. Qed.
(* WAS a part of legacy_py_ok, defect F17o (fixed): an unclosed legacy block was ACCEPTED and swallowed the rest of
   the source (one passage S with the Python block "x = 1\n:: T\nt"), the @py: form was rejected.  Now both forms
   are rejected with the same diagnostic at the opener, and the input is admissible (regression witness of
   proposed_fixes/F17o-unclosed-legacy-python-block.diff) *)
Example unclosed_legacy_python_block_rejected :
  let ls := [":: S"; "<<py"; "x = 1"; ":: T"; "t"] in
  admissible_full ls = true /\
  ParseAllProofs.parse_real pp0 (fun _ => true) ls = PDiag (DSyntax "py-unclosed" 1) /\
  ParseAllProofs.parse_real pp0 (fun _ => true) (map to_at_full ls) = PDiag (DSyntax "py-unclosed" 1).
Proof. vm_compute. repeat split; reflexivity. Qed.
(* position: a `>>` that closes nothing is a text line *)
Example stray_python_closer_needed :
  let ls := [":: S"; ">>"] in forallb py_plain_line ls = true /\ admissible_full ls = false /\ differ_full ls.
Proof. vm_compute. repeat split; reflexivity. Qed.
(*   also inside the block of a `-> @join` choice, where `>>` is a text line of the block and `@endpy` ends the block
     (what is left of join_safe after fix F17n) *)
Example stray_python_closer_in_join_block_needed :
  let ls := [":: S"; "* [R] -> @join"; "    >>"; "@join"] in
  forallb py_plain_line ls = true /\ admissible_full ls = false /\ differ_full ls.
Proof. vm_compute. repeat split; reflexivity. Qed.
(* position: a legacy header inside a legacy Python block is Python code *)
Example legacy_header_in_legacy_python_block_needed :
  let ls := [":: S"; "<<py"; "<<endif>>"; ">>"] in admissible_full ls = false /\ differ_full ls.
Proof. vm_compute. repeat split; reflexivity. Qed.
End WholeInput.
