(* C17 — Surface forms (legacy/@ syntax, comments, indentation) compile identically.

   What is and is not a theorem here.  The property is about the whole compiler:
       parse (print style s)  is independent of  style
   for every story s of the documented language and every surface style (legacy <<...>> forms vs
   @-forms, # comment lines, trailing // comments on every line kind, uniform indentation of block
   bodies).  The parser is modelled in Gallina (Compiler/ParseMain.v: the `parse` main loop with its
   comment pre-pass; Compiler/ParseBlocks.v: the block extractors), the printer is not, so the
   statements below are about line lists, not about source ASTs.

   WHOLE-INPUT THEOREMS (all line lists; Proofs/SurfaceProofs.v):
     trailing comments   trailing_comments_invisible: appending `<blanks>//<text>` to ANY subset of the
                         lines that the pre-pass treats as story lines leaves `parse` unchanged, for all
                         oracles and ALL block extractors.  This is the full "trailing // comments are
                         invisible" clause for the modelled compiler; its side conditions (which lines,
                         which texts) are exact: each has a counterexample below.  Since fix F17k (the
                         pre-pass stores every story line right-stripped) the line's own trailing
                         blanks are no condition any more (trailing_blanks_compile_identically); what
                         is left of the old `tidy` condition concerns only a decorated line that CLOSES
                         a Python block (`@endpy` / `>>`), which the pre-pass stores as `bare`, not
                         right-stripped: with arbitrary extractors that difference in the line list
                         cannot be ignored (closer_with_blanks_not_decorable; the real extractors read
                         that line through .strip() and give the same story).
                         trailing_comments_invisible_no_closer: no such condition when no decorated line
                         closes a Python block.
     # comment lines     hash_line_invisible_top_level_partial: inserting a # line in front of a line
                         where the pre-pass and the main loop are at top level leaves `parse`
                         unchanged (up to the line index inside a diagnostic), for all extractors that
                         are local in the sense of xs_local; hash_line_invisible_blockfree:
                         unconditionally for inputs in which every line is classified by the main loop
                         itself (no block construct).  Since fix F17l positions inside the @metadata
                         block are top level like any other (hash_inside_metadata_invisible).
                         NOT covered by a theorem: # lines inside a block that an extractor consumes
                         (@if/@for/@py bodies, join blocks; for join blocks the minimal pairs of F17m
                         are Examples below), after the last line; and xs_local is not proved of the
                         real extractors in general (it says that they read only their own block; it
                         is checked by evaluation for a concrete story with every block construct,
                         small_story_local, and it fails in one corner,
                         join_block_absorbs_indented_comment).
     legacy = @          for_block_forms_agree_partial: a loop block opened with `@for v in c:` or with
                         `<<for v in c>>` is extracted to the same token, whatever surrounds it (whole
                         block, extractor level); if/elif/else/endif_forms_agree_partial: both forms of
                         each header take the conditional extractor to the same state (header level).
                         Missing in both: composition through `parse` (the other extractor calls see
                         a line list that differs in that header), and <<py vs @py: (different dedent).
     indentation         py_block_in_indented_if_body_*: the minimal pairs of F17j (a Python block with
                         an under-indented line inside an indented @if body) compile identically
                         (Examples, by evaluation).
   HELPER-LEVEL THEOREMS (suffix _partial; Proofs/LexProofs.v): the strip_inline_comment laws and
   the dedent laws (uniform indentation invisible, idempotent).  What is missing in the indentation
   ones is the composition through the extractors that call the dedenter.
   DIFFERENTIAL ONLY (harness/c17.py, every run): parse (print style s) for every style and two-part
   style combination of generated stories against the real BardCompiler; the tie of the models to
   /repo. *)
From Coq Require Import String Ascii List Bool Arith Lia.
From Bardic Require Import PyStr Value Compiled Lex LexProofs.
From Bardic Require Import ParseBase ParseLine ParseMain ParseCheck ParseProofs SurfaceProofs.
From Bardic Require ParseBlocks ParseBlocksInst ParseAllProofs.
Import ListNotations.
Local Open Scope string_scope.

(* ------------------------------------------------------------------------------------------- *)
(* the scanner over a concatenation (the lemma everything below comes from)                     *)
(* ------------------------------------------------------------------------------------------- *)

(* If no comment is found on a, and a does not end with `/` or `\` or b does not start with `/`
   (so that none of the patterns `\//`, `//=`, `//` can straddle the boundary), the scanner treats
   a and b independently. *)
Theorem strip_concat : forall a b,
  no_comment a -> clean_end a || negb (starts_slash b) = true ->
  strip_inline_comment (a ++ b) =
  (fst (strip_inline_comment a) ++ fst (strip_inline_comment b), snd (strip_inline_comment b)).
Proof. exact sic_app. Qed.
Print Assumptions strip_concat.

(* ------------------------------------------------------------------------------------------- *)
(* trailing comments                                                                           *)
(* ------------------------------------------------------------------------------------------- *)

(* A trailing comment in the documented form ` // text` is cut off exactly, on EVERY line on which
   the scanner has not already found a comment (no restriction on how the line ends, none on the
   comment text).  What is left of it in the content is the blank before `//`. *)
Theorem comment_invisible_partial : forall s c,
  no_comment s ->
  strip_inline_comment (s ++ " // " ++ c) = (fst (strip_inline_comment s) ++ " ", "// " ++ c).
Proof. exact comment_invisible_lemma. Qed.
Print Assumptions comment_invisible_partial.

(* On a line that already carries a comment, the appended text only extends that comment. *)
Theorem comment_absorbed_partial : forall s c,
  snd (strip_inline_comment s) <> "" ->
  strip_inline_comment (s ++ " // " ++ c) =
  (fst (strip_inline_comment s), snd (strip_inline_comment s) ++ " // " ++ c).
Proof. exact comment_absorbed_lemma. Qed.
Print Assumptions comment_absorbed_partial.

(* Hence for EVERY line s and EVERY comment text c: up to trailing whitespace the content is
   unchanged by a trailing comment.  (A caller that right-strips the content is therefore
   comment-insensitive; the callers that do not are the F17a/F17b defects found by the oracle.) *)
Theorem comment_invisible_content_partial : forall s c,
  rstrip (fst (strip_inline_comment (s ++ " // " ++ c))) = rstrip (fst (strip_inline_comment s)).
Proof. exact comment_invisible_content_lemma. Qed.
Print Assumptions comment_invisible_content_partial.

(* The form quoted in DESIGN.md: lines without any `/`. *)
Theorem comment_invisible_slash_free_partial : forall s c,
  slash_free s = true -> strip_inline_comment (s ++ " // " ++ c) = (s ++ " ", "// " ++ c).
Proof. exact comment_invisible_slash_free. Qed.
Print Assumptions comment_invisible_slash_free_partial.

(* The glued form `text//comment` (no blank before `//`, comment text directly after it) is cut off
   exactly under two exclusions, both necessary (counterexamples below): the text must not end
   with `/` or `\`, and the comment text must not start with `=`. *)
Theorem comment_invisible_glued_partial : forall s c,
  no_comment s -> clean_end s = true -> starts_equals c = false ->
  strip_inline_comment (s ++ "//" ++ c) = (fst (strip_inline_comment s), "//" ++ c).
Proof. exact comment_invisible_glued_lemma. Qed.
Print Assumptions comment_invisible_glued_partial.

(* what the exclusions exclude *)
Example glued_excluded_slash_end :      (* text ends with `/`: the comment starts one character early *)
  strip_inline_comment ("a/" ++ "//" ++ "c") = ("a", "///c") /\ fst (strip_inline_comment "a/") = "a/".
Proof. vm_compute. split; reflexivity. Qed.
Example glued_excluded_backslash_end :  (* text ends with `\`: the comment becomes an escaped `//` *)
  strip_inline_comment ("a\" ++ "//" ++ "c") = ("a//c", "").
Proof. vm_compute. reflexivity. Qed.
Example glued_excluded_equals :         (* comment text starts with `=`: it is the `//=` operator *)
  strip_inline_comment ("x " ++ "//" ++ "=1") = ("x //=1", "").
Proof. vm_compute. reflexivity. Qed.
(* the blank before `//` stays in the content: the helper-level face of F17b (text lines, ~ lines) *)
Example trailing_blank_kept :
  fst (strip_inline_comment ("Hello" ++ " // " ++ "c")) = "Hello " /\ fst (strip_inline_comment "Hello") = "Hello".
Proof. vm_compute. split; reflexivity. Qed.

(* ------------------------------------------------------------------------------------------- *)
(* `\//` and `//=` are left intact                                                             *)
(* ------------------------------------------------------------------------------------------- *)

(* `\//` yields a literal `//` in the content and does not start a comment, after any prefix on
   which no comment was found, whatever follows. *)
Theorem escaped_slashes_kept_partial : forall a b,
  no_comment a ->
  strip_inline_comment (a ++ "\//" ++ b) =
  (fst (strip_inline_comment a) ++ "//" ++ fst (strip_inline_comment b), snd (strip_inline_comment b)).
Proof. exact escaped_slashes_kept_lemma. Qed.
Print Assumptions escaped_slashes_kept_partial.

(* `//=` is kept and does not start a comment, after a prefix without comment that does not end
   with `/` or `\` (necessary: counterexamples below). *)
Theorem floordiv_assign_kept_partial : forall a b,
  no_comment a -> clean_end a = true ->
  strip_inline_comment (a ++ "//=" ++ b) =
  (fst (strip_inline_comment a) ++ "//=" ++ fst (strip_inline_comment b), snd (strip_inline_comment b)).
Proof. exact floordiv_assign_kept_lemma. Qed.
Print Assumptions floordiv_assign_kept_partial.

Example floordiv_excluded_slash_end : strip_inline_comment ("x/" ++ "//=" ++ " 2") = ("x", "///= 2").
Proof. vm_compute. reflexivity. Qed.
Example floordiv_excluded_backslash_end : strip_inline_comment ("x\" ++ "//=" ++ " 2") = ("x//= 2", "").
Proof. vm_compute. reflexivity. Qed.

(* both together with a trailing comment: the documented example and the augmented assignment *)
Example escaped_then_comment :
  strip_inline_comment ("URL: https:\//example.com // This is a comment") =
  ("URL: https://example.com ", "// This is a comment").
Proof. vm_compute. reflexivity. Qed.
Example floordiv_then_comment :
  strip_inline_comment ("n //= 2 // halve") = ("n //= 2 ", "// halve").
Proof. vm_compute. reflexivity. Qed.
(* the scanner is not idempotent on its own output (an escaped `//` becomes a comment start), so
   callers must not strip twice; stated so that nobody "simplifies" towards it *)
Example strip_not_idempotent :
  strip_inline_comment (fst (strip_inline_comment "a \// b")) = ("a ", "// b").
Proof. vm_compute. reflexivity. Qed.

(* non-vacuity of the hypotheses *)
Example no_comment_met : no_comment "x = 10 \// 3 //= 2".
Proof. vm_compute. reflexivity. Qed.
Example clean_end_met : clean_end "n " = true /\ clean_end "n/" = false /\ clean_end "n\" = false.
Proof. vm_compute. repeat split; reflexivity. Qed.
Example has_comment_met : snd (strip_inline_comment "a // b") <> "".
Proof. vm_compute. discriminate. Qed.

(* ------------------------------------------------------------------------------------------- *)
(* uniform indentation of block bodies                                                         *)
(* ------------------------------------------------------------------------------------------- *)

(* Prefixing every non-blank line of a block with the same whitespace string p (n spaces, a tab,
   any mixture) does not change the dedented block, provided no line of the block is indented
   less than its first non-blank line (necessary: counterexample below). *)
Theorem uniform_indent_invisible_partial : forall p ls,
  all_space p = true -> well_indented ls ->
  detect_and_strip_indentation (map (indent_line p) ls) = detect_and_strip_indentation ls.
Proof. exact uniform_indent_invisible_lemma. Qed.
Print Assumptions uniform_indent_invisible_partial.

(* The form of the task statement: a block whose first non-blank line starts at column 0 comes
   back exactly, whatever it was indented by. *)
Theorem uniform_indent_dedented_partial : forall p ls,
  all_space p = true -> base_indent ls = Some 0 ->
  detect_and_strip_indentation (map (indent_line p) ls) = ls.
Proof. exact uniform_indent_dedented_lemma. Qed.
Print Assumptions uniform_indent_dedented_partial.

(* When the blank lines are indented as well, the result is the same line by line except that
   blank lines stay blank lines with the prefix (x ~ y := x = y, or both are blank). *)
Theorem uniform_indent_blank_lines_partial : forall p ls,
  all_space p = true -> well_indented ls ->
  Forall2 line_equiv (detect_and_strip_indentation (map (indent_any p) ls))
                     (detect_and_strip_indentation ls).
Proof. exact uniform_indent_any_lemma. Qed.
Print Assumptions uniform_indent_blank_lines_partial.

(* Dedenting is idempotent, and its result starts at column 0 (or is all blank). *)
Theorem dedent_idempotent : forall ls,
  detect_and_strip_indentation (detect_and_strip_indentation ls) = detect_and_strip_indentation ls.
Proof. exact dedent_idempotent_lemma. Qed.
Print Assumptions dedent_idempotent.

Theorem dedent_starts_at_column_zero : forall ls,
  base_indent (detect_and_strip_indentation ls) = None \/
  base_indent (detect_and_strip_indentation ls) = Some 0.
Proof. exact dedent_base_zero. Qed.
Print Assumptions dedent_starts_at_column_zero.

(* the exclusion: a line indented less than the first one keeps the added prefix *)
Example under_indented_excluded :
  detect_and_strip_indentation (map (indent_line "  ") ["  a"; "b"]) = ["a"; "  b"] /\
  detect_and_strip_indentation ["  a"; "b"] = ["a"; "b"].
Proof. vm_compute. split; reflexivity. Qed.

(* non-vacuity: a block with relative indentation, a blank line and a whitespace-only line,
   indented by four spaces and by a tab *)
Definition sample_block : list string := ["if x:"; "    y = 1"; ""; "  "; "z = 2"].
Example sample_block_dedented : base_indent sample_block = Some 0.
Proof. vm_compute. reflexivity. Qed.
Example sample_block_spaces :
  map (indent_line "    ") sample_block = ["    if x:"; "        y = 1"; ""; "  "; "    z = 2"] /\
  detect_and_strip_indentation (map (indent_line "    ") sample_block) = sample_block.
Proof. vm_compute. split; reflexivity. Qed.
Example sample_block_tab :
  detect_and_strip_indentation (map (indent_line (String (ascii_of_nat 9) "")) sample_block) = sample_block.
Proof. vm_compute. reflexivity. Qed.
Example sample_block_any :
  detect_and_strip_indentation (map (indent_any "  ") sample_block) =
  ["if x:"; "    y = 1"; "  "; "    "; "z = 2"].
Proof. vm_compute. reflexivity. Qed.
Example well_indented_met :
  well_indented ["  a"; "    b"; ""; " "] /\
  detect_and_strip_indentation (map (indent_line "  ") ["  a"; "    b"; ""; " "]) = ["a"; "  b"; ""; " "].
Proof. split; [exact well_indented_sample | vm_compute; reflexivity]. Qed.
Example all_space_met : all_space (String (ascii_of_nat 9) "  ") = true.
Proof. vm_compute. reflexivity. Qed.

(* =========================================================================================== *)
(* WHOLE-INPUT THEOREMS about the parser model                                                  *)
(* =========================================================================================== *)

(* ------------------------------------------------------------------------------------------- *)
(* (a) trailing comments                                                                        *)
(* ------------------------------------------------------------------------------------------- *)
(* Vocabulary (Proofs/SurfaceProofs.v):
     decorate dec ls     line i of ls gets  w ++ "//" ++ c  appended when dec[i] = Some (w, c)
     sep_ok (w, c)       w is non-empty whitespace, c does not begin with `=` (the documented form
                         ` // text` is w = " ", c = " text": admissible for every text)
     story_mask ls       the lines the pre-pass rewrites, computed as the pre-pass itself decides:
                         story lines (from the first `:: ` header on, plus `@start ` lines) outside
                         @py:/<<py bodies and outside the continuation lines of a multi-line ~
                         statement, plus the line that closes a Python block
     bare_of l           `bare` in the pre-pass: l without its comment, right-stripped when it had one
                         (`out[i][:len - len(comment)].rstrip() if comment else out[i]`); a story line is
                         stored as rstrip (bare_of l) (fix F17k), the closer of a Python block as bare_of l
     tidy l              rstrip (bare_of l) = bare_of l
     closer_mask ls      the lines that close a Python block (`stripped == closer`)
     decorable dec ls    every decoration sits on a line of the mask and is sep_ok; a decorated line that
                         closes a Python block is tidy *)

(* One line: the pre-pass sees a decorated line as the undecorated one right-stripped.  No condition
   on the line (it may already carry a comment, contain `\//` or `//=`, end in `/` or `\`). *)
Theorem trailing_comment_seen_rstripped : forall l w c, sep_ok (w, c) = true ->
  bare_of (l ++ w ++ "//" ++ c) = rstrip (bare_of l).
Proof. exact bare_deco. Qed.
Print Assumptions trailing_comment_seen_rstripped.

(* The pre-pass: what is equal, precisely, for ANY lines (tidy or not): the pre-pass of the decorated
   input is the pre-pass of the input with the decorated lines right-stripped (which, since F17k, they
   are already unless they close a Python block). *)
Theorem trailing_comments_prepass_rstrips : forall ls dec,
  within dec (story_mask ls None false 0) = true ->
  strip_comments_outside_python (decorate dec ls) None false 0 =
  rstrip_at dec (strip_comments_outside_python ls None false 0).
Proof. exact prepass_decorate_rstrips. Qed.
Print Assumptions trailing_comments_prepass_rstrips.

(* ... hence identical (a decorated closer of a Python block must have no trailing blank of its own). *)
Theorem trailing_comments_invisible_to_prepass : forall ls dec,
  decorable dec ls = true ->
  strip_comments_outside_python (decorate dec ls) None false 0 =
  strip_comments_outside_python ls None false 0.
Proof. exact prepass_decorate. Qed.
Print Assumptions trailing_comments_invisible_to_prepass.

(* The clause of C17 for the modelled compiler: every line list, every set of decorated story lines,
   every comment text, every oracle for Python's parser, EVERY block extractor. *)
Theorem trailing_comments_invisible : forall pp is_call xs ls dec,
  decorable dec ls = true ->
  parse pp is_call xs (decorate dec ls) = parse pp is_call xs ls.
Proof. exact parse_decorate. Qed.
Print Assumptions trailing_comments_invisible.

(* no condition beyond the mask when no decorated line closes a Python block *)
Theorem trailing_comments_invisible_no_closer : forall pp is_call xs ls dec,
  within dec (story_mask ls None false 0) = true ->
  no_closer_decorated dec (closer_mask ls None false 0) = true ->
  parse pp is_call xs (decorate dec ls) = parse pp is_call xs ls.
Proof. exact parse_decorate_no_closer. Qed.
Print Assumptions trailing_comments_invisible_no_closer.

Theorem documented_comment_form_admissible : forall text, sep_ok (" ", " " ++ text) = true.
Proof. exact documented_form_ok. Qed.
Print Assumptions documented_comment_form_admissible.

Theorem tidy_iff : forall l,
  tidy l = true <-> (snd (strip_inline_comment l) <> "" \/ rstrip l = l).
Proof. exact tidy_spec. Qed.
Print Assumptions tidy_iff.

(* non-vacuity: two passages, every block construct, every line kind; decorated on every line of the
   mask, with the documented form, with comment text containing `//` and `<>`, with two blanks and no
   blank after `//`, with a tab *)
Definition pp0 : pyparse := mkPyparse (fun _ => true) (fun _ => Some (0, [])).
Definition doc (t : string) : option dcomment := Some (" ", " " ++ t).
Definition tab : string := String (ascii_of_nat 9) "".

Definition sample_story : list string :=
  ["import random"; "# preamble"; ":: Start ^intro"; "You have {hp} hp. \// not a comment";
   "~ hp = 7 // 2"; "~ items = ["; "    1 // 1,"; "    2"; "]"; "n //= 2"; "glued<>";
   "@py:"; "  z = 9 // 2"; "@endpy"; "<<py"; "  q = 1 // 1"; ">>";
   "@if hp > 1:"; "  You live."; "  -> End"; "@else:"; "  + [Again] -> Start"; "@endif";
   "@for i in items:"; "  {i}<>"; "@endfor";
   "* [Rest] -> @join"; "    You rest."; "@join"; "+ [Go] -> End"; "-> End";
   ":: End"; "Bye. // old comment"; ""].

Definition sample_dec : list (option dcomment) :=
  [None; None; doc "the first passage"; doc "c // d"; doc "x"; doc "list"; None; None; None;
   Some ("  ", "no blank after"); doc "<>"; doc "block"; None; doc "end"; doc "legacy"; None; doc "close";
   doc "cond"; doc "text"; doc "jump"; doc "else"; doc "choice"; doc "endif";
   doc "loop"; doc "body"; doc "endfor";
   doc "join choice"; doc "in block"; doc "marker"; doc "choice"; doc "jump";
   doc "header"; doc "more"; Some (tab, "tab")].

Example sample_decorated_looks_like :
  firstn 6 (skipn 2 (decorate sample_dec sample_story)) =
  [":: Start ^intro // the first passage";
   "You have {hp} hp. \// not a comment // c // d";
   "~ hp = 7 // 2 // x"; "~ items = [ // list"; "    1 // 1,"; "    2"].
Proof. vm_compute. reflexivity. Qed.

Example sample_meets_hypothesis : decorable sample_dec sample_story = true.
Proof. vm_compute. reflexivity. Qed.

(* which lines may be decorated: not the preamble, not the continuation lines of the ~ statement,
   not the bodies of the two Python blocks *)
Example sample_mask :
  story_mask sample_story None false 0 =
  [false; false; true; true; true; true; false; false; false; true; true;
   true; false; true; true; false; true;
   true; true; true; true; true; true; true; true; true;
   true; true; true; true; true; true; true; true].
Proof. vm_compute. reflexivity. Qed.

Example sample_compiles_identically :
  match ParseAllProofs.parse_real pp0 (fun _ => true) (decorate sample_dec sample_story),
        ParseAllProofs.parse_real pp0 (fun _ => true) sample_story with
  | POk a, POk b => story_eqb a b = true /\ List.length (passages a) = 2
  | _, _ => False
  end.
Proof. vm_compute. split; reflexivity. Qed.

(* the same by the theorem, for every oracle and every extractor *)
Example sample_by_theorem : forall pp is_call xs,
  parse pp is_call xs (decorate sample_dec sample_story) = parse pp is_call xs sample_story.
Proof. intros. apply trailing_comments_invisible. exact sample_meets_hypothesis. Qed.

(* the side conditions are exact.
   1. Python code keeps Python's syntax: `//` inside an @py: body is floor division; such a line is
      not in the mask, and decorating it does change the input of the main loop. *)
Example python_body_not_decorable :
  decorable [None; None; doc "c"; None] [":: S"; "@py:"; "x = 7 // 2"; "@endpy"] = false /\
  strip_comments_outside_python [":: S"; "@py:"; "x = 7 // 2 // c"; "@endpy"] None false 0 =
  [":: S"; "@py:"; "x = 7 // 2 // c"; "@endpy"].
Proof. vm_compute. split; reflexivity. Qed.
(*    the same for the continuation lines of a multi-line ~ statement *)
Example continuation_not_decorable :
  decorable [None; None; doc "c"; None; None] [":: S"; "~ x = ["; "  7 // 2"; "]"; "text"] = false /\
  decorable [None; None; None; doc "c"; None] [":: S"; "~ x = ["; "  7 // 2"; "]"; "text"] = false /\
  decorable [None; doc "c"; None; None; doc "d"] [":: S"; "~ x = ["; "  7 // 2"; "]"; "text"] = true.
Proof. vm_compute. repeat split; reflexivity. Qed.
(* 2. on the first line of a ~ statement `//` IS a comment, with or without the decoration (the model
      and the real compiler agree; spec: "Variables: ~ var = value // comment") *)
Example tilde_line_floor_division_is_a_comment :
  strip_comments_outside_python [":: S"; "~ hp = 7 // 2"] None false 0 = [":: S"; "~ hp = 7"].
Proof. vm_compute. reflexivity. Qed.
(* 3. a comment text beginning with `=` is the operator `//=` *)
Example equals_text_not_admissible :
  sep_ok (" ", "= 2") = false /\
  strip_comments_outside_python [":: S"; "n //= 2"] None false 0 = [":: S"; "n //= 2"].
Proof. vm_compute. split; reflexivity. Qed.
(* 4. without a blank before `//` the comment can fuse with the end of the line (`\` + `//`) *)
Example empty_separator_not_admissible :
  sep_ok ("", " c") = false /\
  strip_comments_outside_python [":: S"; "a\" ++ "// c"] None false 0 = [":: S"; "a\// c"].
Proof. vm_compute. split; reflexivity. Qed.
(* 5. (was the `tidy` side condition, defect F17k, fixed) a line with trailing blanks of its own is
      decorable: the pre-pass drops the blanks with or without the comment, and the minimal pair of
      proposed_fixes/F17k compiles identically, for every oracle and every extractor *)
Example trailing_blanks_compile_identically :
  tidy "Hello   " = false /\
  decorate [None; doc "c"] [":: S"; "Hello   "; "Bye"] = [":: S"; "Hello    // c"; "Bye"] /\
  decorable [None; doc "c"] [":: S"; "Hello   "; "Bye"] = true /\
  strip_comments_outside_python [":: S"; "Hello   "; "Bye"] None false 0 = [":: S"; "Hello"; "Bye"] /\
  strip_comments_outside_python [":: S"; "Hello    // c"; "Bye"] None false 0 = [":: S"; "Hello"; "Bye"] /\
  (forall pp is_call xs, parse pp is_call xs [":: S"; "Hello    // c"; "Bye"] =
                         parse pp is_call xs [":: S"; "Hello   "; "Bye"]) /\
  match ParseAllProofs.parse_real pp0 (fun _ => true) [":: S"; "Hello   "; "Bye"] with
  | POk a => option_map content (lookup "S" (passages a)) = Some [TText "Hello"; TText ParseMain.nl; TText "Bye"; TText ParseMain.nl]
  | _ => False
  end.
Proof.
  do 5 (split; [vm_compute; reflexivity|]). split; [|vm_compute; reflexivity].
  intros pp is_call xs.
  apply (trailing_comments_invisible pp is_call xs [":: S"; "Hello   "; "Bye"] [None; doc "c"]).
  vm_compute. reflexivity.
Qed.
(*    what is left of it: the line that closes a Python block is stored as `bare`, so with trailing
      blanks of its own it reaches the extractors differently once decorated (every extractor of
      /repo reads it through .strip(): the compiled story is the same, by evaluation) *)
Example closer_with_blanks_not_decorable :
  let ls := [":: S"; "@py:"; "x = 1"; "@endpy   "; "t"] in
  closer_mask ls None false 0 = [false; false; false; true; false] /\
  decorable [None; None; None; doc "c"] ls = false /\
  decorable [None; doc "a"; None; None; doc "b"] ls = true /\
  decorable [None; None; None; doc "c"] [":: S"; "@py:"; "x = 1"; "@endpy"; "t"] = true /\
  strip_comments_outside_python ls None false 0 = ls /\
  strip_comments_outside_python (decorate [None; None; None; doc "c"] ls) None false 0 =
    [":: S"; "@py:"; "x = 1"; "@endpy"; "t"] /\
  match ParseAllProofs.parse_real pp0 (fun _ => true) (decorate [None; None; None; doc "c"] ls),
        ParseAllProofs.parse_real pp0 (fun _ => true) ls with
  | POk a, POk b => story_eqb a b = true
  | _, _ => False
  end.
Proof. vm_compute. repeat split; reflexivity. Qed.
(* 6. lines before the first passage header are not story lines for the pre-pass *)
Example preamble_not_decorable :
  decorable [doc "c"] ["import x"; ":: S"] = false /\ decorable [None; doc "c"] ["import x"; ":: S"] = true.
Proof. vm_compute. split; reflexivity. Qed.

(* ------------------------------------------------------------------------------------------- *)
(* (b) # comment lines at top level                                                             *)
(* ------------------------------------------------------------------------------------------- *)
(* Vocabulary:
     insert_at k c ls     ls with the line c inserted in front of line k
     is_hash c            the stripped line begins with `#`
     top_level_at pp xs ls k   in front of line k the pre-pass is outside Python code (no open
                          @py:/<<py block, no pending continuation line) and the main loop arrives at
                          index k (k is not inside a block that an extractor consumes); since fix F17l
                          the @metadata block is no exception
     xs_local xs L k c    the extractors read only their own block: a block that ended before line k
                          is extracted unchanged from the input with c inserted, a block that starts
                          at or after line k is extracted from the shifted input as from the original
                          (asked only at lines where the main loop calls an extractor)
     seen_comment ls k c  the inserted line as the main loop sees it (rstrip (bare_of c) in the story, c
                          in the preamble)
     erase                a diagnostic without the line index it carries (the inserted line shifts the
                          indices after it); erase (POk s) = POk s *)

(* the pre-pass passes a comment line through (without its own trailing // comment and trailing blanks
   when it stands in the story) and is otherwise undisturbed *)
Theorem hash_line_through_prepass : forall k ls ins c,
  prepass_at ls None false 0 k = Some (None, ins, 0) -> k < List.length ls -> is_hash c = true ->
  strip_comments_outside_python (insert_at k c ls) None false 0 =
  insert_at k (if ins then rstrip (bare_of c) else c) (strip_comments_outside_python ls None false 0).
Proof. exact prepass_insert. Qed.
Print Assumptions hash_line_through_prepass.

Theorem hash_line_invisible_top_level_partial : forall pp is_call xs ls k c,
  extractors_ok xs ->
  k < List.length ls -> is_hash c = true -> top_level_at pp xs ls k = true ->
  xs_local xs (strip_comments_outside_python ls None false 0) k (seen_comment ls k c) ->
  erase (parse pp is_call xs (insert_at k c ls)) = erase (parse pp is_call xs ls).
Proof. exact hash_line_invisible_lemma. Qed.
Print Assumptions hash_line_invisible_top_level_partial.

(* inputs in which every line is classified by the main loop itself: no condition on the extractors
   beyond extractors_ok (which real_extractors and no_extractors satisfy) *)
Theorem hash_line_invisible_blockfree : forall pp is_call xs ls k c,
  extractors_ok xs ->
  blockfree (strip_comments_outside_python ls None false 0) = true ->
  k < List.length ls -> is_hash c = true -> top_level_at pp xs ls k = true ->
  erase (parse pp is_call xs (insert_at k c ls)) = erase (parse pp is_call xs ls).
Proof. exact hash_line_invisible_blockfree_lemma. Qed.
Print Assumptions hash_line_invisible_blockfree.

(* a story that compiles compiles to the very same story *)
Theorem hash_line_same_story_blockfree : forall pp is_call xs ls k c s,
  extractors_ok xs ->
  blockfree (strip_comments_outside_python ls None false 0) = true ->
  k < List.length ls -> is_hash c = true -> top_level_at pp xs ls k = true ->
  parse pp is_call xs ls = POk s -> parse pp is_call xs (insert_at k c ls) = POk s.
Proof. exact hash_line_same_story_blockfree_lemma. Qed.
Print Assumptions hash_line_same_story_blockfree.

(* non-vacuity: a block-free story with imports, two passages, a multi-line ~ statement, choices, a
   jump, @hook, @render, @input, glue *)
Definition plain_story : list string :=
  ["import random"; ""; ":: Start(who=1) ^intro"; "Hello {who}.<>"; "~ items = ["; "    1,"; "    2]";
   "@hook turn_end Tick"; "@render card(x)"; "@input name=""n"""; "+ [Go] -> End"; "* {who} [Stay] -> Start(2)";
   ":: End"; "Bye."; "-> Tick"; ":: Tick"; "tick"].

Example plain_story_blockfree : blockfree (strip_comments_outside_python plain_story None false 0) = true.
Proof. vm_compute. reflexivity. Qed.

Example plain_story_top_level_positions :
  map (top_level_at pp0 ParseAllProofs.real_extractors plain_story) (seq 0 17) =
  [true; true; true; true; true; false; false; true; true; true; true; true; true; true; true; true; true].
Proof. vm_compute. reflexivity. Qed.

Example plain_story_with_comments_compiles_identically :
  forallb (fun k =>
    match ParseAllProofs.parse_real pp0 (fun _ => true) (insert_at k "  # note // with a comment" plain_story),
          ParseAllProofs.parse_real pp0 (fun _ => true) plain_story with
    | POk a, POk b => story_eqb a b
    | _, _ => false
    end) [0; 1; 2; 3; 4; 7; 8; 9; 10; 11; 12; 13; 14; 15; 16] = true.
Proof. vm_compute. reflexivity. Qed.

Example plain_story_by_theorem : forall is_call k, In k [0; 1; 2; 3; 4; 7; 8; 9; 10; 11; 12; 13; 14; 15; 16] ->
  erase (parse pp0 is_call ParseAllProofs.real_extractors (insert_at k "  # note // with a comment" plain_story)) =
  erase (parse pp0 is_call ParseAllProofs.real_extractors plain_story).
Proof.
  intros is_call k Hk. apply hash_line_invisible_blockfree.
  - exact ParseAllProofs.real_extractors_ok.
  - exact plain_story_blockfree.
  - simpl in Hk. repeat (destruct Hk as [<-|Hk]; [vm_compute; repeat constructor|]). destruct Hk.
  - reflexivity.
  - simpl in Hk. repeat (destruct Hk as [<-|Hk]; [vm_compute; reflexivity|]). destruct Hk.
Qed.

(* the positions that are excluded are excluded for a reason (model = real compiler on each):
   inside a multi-line ~ statement the line is Python code; *)
Example hash_inside_statement_is_code :
  top_level_at pp0 ParseAllProofs.real_extractors plain_story 5 = false /\
  strip_comments_outside_python (insert_at 5 "# c" plain_story) None false 0 =
  insert_at 5 "# c" (strip_comments_outside_python plain_story None false 0).
Proof. vm_compute. split; reflexivity. Qed.
(* inside the @metadata block a # line is skipped like a blank line (was defect F17l: it ended the block,
   or became a key when indented with a colon): the positions are top level, the theorem applies, and the
   three inputs of proposed_fixes/F17l give the same story *)
Definition meta_story : list string := ["@metadata"; "  title: X"; "  author: Y"; ":: Start"; "hi"].
Example hash_inside_metadata_invisible :
  map (top_level_at pp0 no_extractors meta_story) [1; 2; 3] = [true; true; true] /\
  (match parse pp0 (fun _ => true) no_extractors meta_story,
         parse pp0 (fun _ => true) no_extractors (insert_at 2 "# note" meta_story),
         parse pp0 (fun _ => true) no_extractors (insert_at 2 "  # note: this" meta_story) with
   | POk a, POk b, POk c => metadata a = [("title", "X"); ("author", "Y")] /\ story_eqb a b = true /\ story_eqb a c = true
   | _, _, _ => False
   end).
Proof. vm_compute. repeat split; reflexivity. Qed.
Example hash_inside_metadata_by_theorem : forall is_call xs c, extractors_ok xs -> is_hash c = true ->
  forall s, parse pp0 is_call xs meta_story = POk s -> parse pp0 is_call xs (insert_at 2 c meta_story) = POk s.
Proof.
  intros is_call xs c Hx Hc s Hs. apply hash_line_same_story_blockfree; try assumption.
  - vm_compute. reflexivity.
  - simpl. lia.
  - vm_compute. reflexivity.
Qed.
(* a block in the input, concretely: same story, positions inside the blocks are not top level *)
Example sample_story_hash_lines :
  map (top_level_at pp0 ParseAllProofs.real_extractors sample_story) [2; 3; 6; 12; 18; 24; 27; 28; 31] =
  [true; true; false; false; false; false; false; true; true] /\
  forallb (fun k =>
    match ParseAllProofs.parse_real pp0 (fun _ => true) (insert_at k "# note" sample_story),
          ParseAllProofs.parse_real pp0 (fun _ => true) sample_story with
    | POk a, POk b => story_eqb a b
    | _, _ => false
    end) [2; 3; 28; 31] = true.
Proof. vm_compute. split; reflexivity. Qed.

(* non-vacuity of the general theorem with blocks and the REAL extractors: for a concrete input and a
   concrete position xs_local is a finite statement (one instance per line at which the main loop
   calls an extractor), checked by evaluating the extractors on both inputs *)
Definition small_story : list string :=
  [":: Start"; "@py:"; "  z = 9 // 2"; "@endpy"; "@if hp > 1:"; "  You live."; "@else:";
   "  + [Again] -> Start"; "@endif"; "@for i in items:"; "  {i}<>"; "@endfor";
   "* [Rest] -> @join"; "    You rest."; "@join"; "+ [Go] -> End"; ":: End"; "Bye."].

Ltac vm_hyp H :=
  match type of H with
  | ?l = ?r => let v := eval vm_compute in l in
               let E := fresh "E" in
               assert (E : l = v) by (vm_compute; reflexivity); rewrite E in H; clear E
  end.
Ltac before_case :=
  match goal with
  | Hn : nth_error _ _ = Some _, Ht : _ = true, Hx : _ = POk _ |- _ =>
      simpl in Hn; injection Hn as <-; vm_hyp Ht; try discriminate Ht;
      vm_hyp Hx; try discriminate Hx; inversion Hx; subst; try lia; vm_compute; reflexivity
  end.
Ltac after_case :=
  match goal with
  | Hn : nth_error _ _ = Some _, Ht : _ = true |- _ =>
      simpl in Hn; try discriminate Hn; injection Hn as <-; vm_hyp Ht; try discriminate Ht;
      try lia; vm_compute; reflexivity
  end.

Example small_story_local :
  xs_local ParseAllProofs.real_extractors (strip_comments_outside_python small_story None false 0) 9
           (seen_comment small_story 9 "  # the loop // c").
Proof.
  replace (strip_comments_outside_python small_story None false 0) with small_story by (vm_compute; reflexivity).
  replace (seen_comment small_story 9 "  # the loop // c") with "  # the loop" by (vm_compute; reflexivity).
  unfold small_story, xs_local. cbv zeta.
  repeat split.
  - intros i line Hi Hn Ht t n Hx Hle. do 9 (destruct i as [|i]; [before_case|]). lia.
  - intros i line Hi Hn Ht t n Hx Hle. do 9 (destruct i as [|i]; [before_case|]). lia.
  - intros i line Hi Hn Ht t n Hx Hle. do 9 (destruct i as [|i]; [before_case|]). lia.
  - intros i line Hi Hn Ht t n Hx Hle. do 9 (destruct i as [|i]; [before_case|]). lia.
  - intros i line Hi Hn Ht. do 18 (destruct i as [|i]; [try lia; after_case|]). simpl in Hn; destruct i; discriminate Hn.
  - intros i line Hi Hn Ht. do 18 (destruct i as [|i]; [try lia; after_case|]). simpl in Hn; destruct i; discriminate Hn.
  - intros i line Hi Hn Ht. do 18 (destruct i as [|i]; [try lia; after_case|]). simpl in Hn; destruct i; discriminate Hn.
  - intros i line Hi Hn Ht. do 18 (destruct i as [|i]; [try lia; after_case|]). simpl in Hn; destruct i; discriminate Hn.
Qed.

Example small_story_by_theorem : forall is_call,
  erase (parse pp0 is_call ParseAllProofs.real_extractors (insert_at 9 "  # the loop // c" small_story)) =
  erase (parse pp0 is_call ParseAllProofs.real_extractors small_story).
Proof.
  intros is_call. apply hash_line_invisible_top_level_partial.
  - exact ParseAllProofs.real_extractors_ok.
  - simpl. lia.
  - reflexivity.
  - vm_compute. reflexivity.
  - exact small_story_local.
Qed.

Example small_story_compiles :
  match ParseAllProofs.parse_real pp0 (fun _ => true) (insert_at 9 "  # the loop // c" small_story),
        ParseAllProofs.parse_real pp0 (fun _ => true) small_story with
  | POk a, POk b => story_eqb a b = true /\ List.length (passages a) = 2
  | _, _ => False
  end.
Proof. vm_compute. split; reflexivity. Qed.

(* why xs_local is a hypothesis and not a lemma about the real extractors: it is finite-checkable for a
   given input (above), it is not true of them in one corner: the join-block extractor reads one line
   beyond its block to see where it ends, and a comment indented more than the choice, inserted right
   after the block, is taken into the block (one more line consumed, same tokens).  The compiled story
   is still the same, by a different run of the main loop. *)
Example join_block_absorbs_indented_comment :
  let js := [":: S"; "* [R] -> @join"; "    You rest."; "@join"; "after"] in
  top_level_at pp0 ParseAllProofs.real_extractors js 3 = true /\
  x_join ParseAllProofs.real_extractors js 2 0 = POk ([TText "You rest."; TText ParseMain.nl], [], 1) /\
  x_join ParseAllProofs.real_extractors (insert_at 3 "      # note" js) 2 0 =
    POk ([TText "You rest."; TText ParseMain.nl], [], 2) /\
  match ParseAllProofs.parse_real pp0 (fun _ => true) (insert_at 3 "      # note" js),
        ParseAllProofs.parse_real pp0 (fun _ => true) js with
  | POk a, POk b => story_eqb a b = true
  | _, _ => False
  end.
Proof. vm_compute. repeat split; reflexivity. Qed.

(* # lines inside the block of a `-> @join` choice (was defect F17m: a comment line decided where the
   block ends and what its base indentation is): the three inputs of proposed_fixes/F17m, and a comment
   as last line of the block, compile identically; the extractor consumes the comment line with the block *)
Definition join_story : list string := [":: Start"; "* [J] -> @join"; "   inner"; "@join"; "after"].
Example hash_in_join_block_invisible :
  x_join ParseAllProofs.real_extractors join_story 2 0 = POk ([TText "inner"; TText ParseMain.nl], [], 1) /\
  x_join ParseAllProofs.real_extractors (insert_at 2 "  # c" join_story) 2 0 =
    POk ([TText "inner"; TText ParseMain.nl], [], 2) /\
  x_join ParseAllProofs.real_extractors (insert_at 2 "# c" join_story) 2 0 =
    POk ([TText "inner"; TText ParseMain.nl], [], 2) /\
  forallb (fun ls =>
    match ParseAllProofs.parse_real pp0 (fun _ => true) ls,
          ParseAllProofs.parse_real pp0 (fun _ => true) join_story with
    | POk a, POk b => story_eqb a b
    | _, _ => false
    end) [insert_at 2 "  # c" join_story; insert_at 2 "# c" join_story; insert_at 3 "# c" join_story;
          insert_at 3 "        # c" join_story] = true.
Proof. vm_compute. repeat split; reflexivity. Qed.

(* ------------------------------------------------------------------------------------------- *)
(* (b') indentation of an @if body around a Python block                                        *)
(* ------------------------------------------------------------------------------------------- *)
(* was defect F17j: a line of a Python block indented less than the block's first line kept the
   indentation of the enclosing @if body.  The minimal pairs of proposed_fixes/F17j: the block is
   extracted to the same code whether the @if body is indented or not, in both block syntaxes. *)
Definition py_flush : list string :=
  [":: S"; "@if flag:"; "@py:"; "    s = '''"; "  a"; "    '''"; "@endpy"; "@endif"].
Definition py_indented : list string :=
  [":: S"; "@if flag:"; "  @py:"; "      s = '''"; "    a"; "      '''"; "  @endpy"; "@endif"].
Definition py_code : string := "s = '''" ++ ParseMain.nl ++ "  a" ++ ParseMain.nl ++ "'''".
Example py_block_in_indented_if_body_extracted :
  ParseBlocks.extract_python_block py_flush 2 = POk (py_code, 5) /\
  ParseBlocks.extract_python_block py_indented 2 = POk (py_code, 5).
Proof. vm_compute. split; reflexivity. Qed.
Example py_block_in_indented_if_body_compiles_identically :
  match ParseAllProofs.parse_real pp0 (fun _ => true) py_flush,
        ParseAllProofs.parse_real pp0 (fun _ => true) py_indented with
  | POk a, POk b => story_eqb a b = true /\
      option_map content (lookup "S" (passages a)) = Some [TCond [Branch "flag" [TPyBlock py_code] []]]
  | _, _ => False
  end.
Proof. vm_compute. split; reflexivity. Qed.
Definition legacy_py (q : string) : list string :=
  [":: S"; "@if flag:"; q ++ "<<py"; q ++ "    s = '''"; q ++ "  a"; q ++ "    '''"; q ++ ">>"; "@endif"].
Example legacy_py_block_in_indented_if_body_compiles_identically :
  ParseBlocks.extract_python_block (legacy_py "") 2 = POk (py_code, 5) /\
  ParseBlocks.extract_python_block (legacy_py "  ") 2 = POk (py_code, 5) /\
  match ParseAllProofs.parse_real pp0 (fun _ => true) (legacy_py ""),
        ParseAllProofs.parse_real pp0 (fun _ => true) (legacy_py "  ") with
  | POk a, POk b => story_eqb a b = true
  | _, _ => False
  end.
Proof. vm_compute. repeat split; reflexivity. Qed.

(* ------------------------------------------------------------------------------------------- *)
(* (c) legacy `<<...>>` and `@...:` headers                                                      *)
(* ------------------------------------------------------------------------------------------- *)
(* cond_ok c : c is non-empty, has no blank at either end, no `/`, and no `>>` before its end
   var_ok v  : v is non-empty, has no whitespace and no `/` *)

(* whole block, extractor level: for every prefix, every body and rest of the input, every version of
   the extractor (fixed/cap) and every line-level function record *)
Theorem for_block_forms_agree_partial : forall fixed cap lf pre rest ind1 ind2 v coll,
  var_ok v = true -> cond_ok coll = true -> all_space ind1 = true -> all_space ind2 = true ->
  ParseBlocks.extract_loop_block_v fixed cap lf
    (pre ++ (ind1 ++ "@for " ++ v ++ " in " ++ coll ++ ":") :: rest) (List.length pre) =
  ParseBlocks.extract_loop_block_v fixed cap lf
    (pre ++ (ind2 ++ "<<for " ++ v ++ " in " ++ coll ++ ">>") :: rest) (List.length pre).
Proof. exact for_forms_agree_lemma. Qed.
Print Assumptions for_block_forms_agree_partial.

Theorem for_header_forms_read_back_partial : forall v coll, var_ok v = true -> cond_ok coll = true ->
  ParseBlocks.match_for_colon ("@for " ++ v ++ " in " ++ coll ++ ":") = Some (v, coll) /\
  ParseBlocks.match_for_legacy ("<<for " ++ v ++ " in " ++ coll ++ ">>") = Some (v, coll).
Proof. exact for_header_forms_read_back. Qed.
Print Assumptions for_header_forms_read_back_partial.

(* header level: the opening line of a conditional block, in either form and at any indentation, puts
   the extractor into the same state: one open branch with condition c *)
Theorem if_forms_agree_partial : forall fixed lf rc rl lines start ind1 ind2 c st,
  cond_ok c = true -> all_space ind1 = true -> all_space ind2 = true ->
  ParseBlocks.cond_step fixed lf rc rl lines start start (ind1 ++ "@if " ++ c ++ ":") st =
  ParseBlocks.cond_step fixed lf rc rl lines start start (ind2 ++ "<<if " ++ c ++ ">>") st.
Proof. exact if_forms_agree_lemma. Qed.
Print Assumptions if_forms_agree_partial.

Theorem if_header_branch_condition_partial : forall fixed lf rc rl lines start ind c st,
  cond_ok c = true -> all_space ind = true ->
  ParseBlocks.cond_step fixed lf rc rl lines start start (ind ++ "@if " ++ c ++ ":") st =
  POk (ParseBlocks.CNext (ParseBlocks.mkCstate (ParseBlocks.cs_branches st) (Some (c, [], [])) [] (Some c)) 1).
Proof. exact if_header_at. Qed.
Print Assumptions if_header_branch_condition_partial.

Theorem elif_forms_agree_partial : forall fixed lf rc rl lines start i ind1 ind2 c st,
  cond_ok c = true -> all_space ind1 = true -> all_space ind2 = true ->
  ParseBlocks.cond_step fixed lf rc rl lines start i (ind1 ++ "@elif " ++ c ++ ":") st =
  ParseBlocks.cond_step fixed lf rc rl lines start i (ind2 ++ "<<elif " ++ c ++ ">>") st.
Proof. exact elif_forms_agree_lemma. Qed.
Print Assumptions elif_forms_agree_partial.

Theorem else_forms_agree_partial : forall fixed lf rc rl lines start i ind1 ind2 st,
  all_space ind1 = true -> all_space ind2 = true ->
  ParseBlocks.cond_step fixed lf rc rl lines start i (ind1 ++ "@else:") st =
  ParseBlocks.cond_step fixed lf rc rl lines start i (ind2 ++ "<<else>>") st.
Proof. exact else_forms_agree_lemma. Qed.
Print Assumptions else_forms_agree_partial.

Theorem endif_forms_agree_partial : forall fixed lf rc rl lines start i ind1 ind2 st,
  all_space ind1 = true -> all_space ind2 = true ->
  ParseBlocks.cond_step fixed lf rc rl lines start i (ind1 ++ "@endif") st =
  ParseBlocks.cond_step fixed lf rc rl lines start i (ind2 ++ "<<endif>>") st.
Proof. exact endif_forms_agree_lemma. Qed.
Print Assumptions endif_forms_agree_partial.

(* non-vacuity of the side conditions, and what they exclude *)
Example cond_ok_met : cond_ok "hp > 1 and name == 'a:b'" = true /\ cond_ok "x[1:2]" = true /\ var_ok "item" = true.
Proof. vm_compute. repeat split; reflexivity. Qed.
Example cond_ok_excludes :
  cond_ok "a >> 1" = false /\ cond_ok "x >" = false /\ cond_ok "n // 2" = false /\ cond_ok " x" = false /\ cond_ok "" = false.
Proof. vm_compute. repeat split; reflexivity. Qed.
Example shift_condition_differs :      (* `>>` inside the condition closes the legacy header early *)
  ParseBlocks.match_legacy "<<if" "<<if a >> 1>>" = Some "a" /\
  option_map strip (ParseBlocks.match_colon_tail "@if" "@if a >> 1:") = Some "a >> 1".
Proof. vm_compute. split; reflexivity. Qed.

(* a whole story in both header styles (and different indentation of the headers) *)
Definition at_style : list string :=
  [":: Start"; "@if hp > 1:"; "  strong"; "@elif hp == 1:"; "  weak"; "@else:"; "  dead"; "@endif";
   "@for i in items:"; "  {i}<>"; "@endfor"; ":: End"; "Bye."].
Definition legacy_style : list string :=
  [":: Start"; "<<if hp > 1>>"; "  strong"; "  <<elif hp == 1>>"; "  weak"; "<<else>>"; "  dead"; " <<endif>>";
   "  <<for i in items>>"; "  {i}<>"; "<<endfor>>"; ":: End"; "Bye."].
Example header_styles_compile_identically :
  match ParseAllProofs.parse_real pp0 (fun _ => true) at_style,
        ParseAllProofs.parse_real pp0 (fun _ => true) legacy_style with
  | POk a, POk b => story_eqb a b = true
  | _, _ => False
  end.
Proof. vm_compute. reflexivity. Qed.
