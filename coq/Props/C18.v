(* C18 — The story graph covers every engine transition and flags exactly missing targets.

   Model of the graph walk: Graph/Graph.v (bardic/cli/graph.py, AFTER the candidate fix F18a: the reserved
   choice target "@join" is not a passage reference).  Model of the engine: Engine/Engine.v, author code
   an arbitrary oracle record.  Proofs: Proofs/GraphProofs.v.  Every theorem is for all stories, all
   oracles (including code that fails at any evaluation point) and all states.

   wf_graphb st (decidable, re-checked on every generated story by the correspondence run) = what the
   compiler guarantees about names: no referenced target contains "(" (arguments are kept apart from the
   target), no passage is called "" or "@join".

   Vocabulary.  passage_jump p tg a: a jump token `-> tg(a)` in the content of p, at any depth of
   conditional branches and loops.  passage_choice p c k: c is one of p's own choices (k = KChoice) or a
   choice of a conditional branch (KCond) / a loop (KLoop) at any depth of p's content.  spec_name spec:
   the text of a spec "Name(args)" before the first "(".  entered l / nav_entered l: the passages whose
   commands ran (EvEnter events of the ghost log), all of them / those before the first hook run. *)
From Coq Require Import String Ascii List Bool ZArith Arith.
From Bardic Require Import PyStr Value Compiled Engine EngineBase EngineNav Graph GraphProofs.
Import ListNotations.
Local Open Scope string_scope.
Local Open Scope list_scope.

(* ---- the renderer returns only what sits at positions the walk visits (induction on token trees) ---- *)
Theorem render_reports_walk_positions : forall orc ctxkeys st pid s s' o,
  render_passage orc ctxkeys st pid s = (s', Ok o) ->
  exists p, get_passage st pid = Some p /\ o_pid o = pid /\
    (forall spec, o_jump o = Some spec -> exists tg a, passage_jump p tg a /\ spec = jump_spec tg a) /\
    (forall rc, In rc (o_choices o) -> exists k, passage_choice p (rc_choice rc) k).
Proof. exact render_passage_positions. Qed.
Print Assumptions render_reports_walk_positions.

(* ---- the walk reports exactly those positions whose target is a passage reference ---- *)
Theorem walk_visits_positions : forall p e,
  In e (passage_edges is_ref p) <->
  is_ref (fst e) = true /\
  ((snd e = KJump /\ exists a, passage_jump p (fst e) a) \/
   (exists c, passage_choice p c (snd e) /\ ch_target c = fst e)).
Proof. exact GraphProofs.walk_visits_positions. Qed.
Print Assumptions walk_visits_positions.

(* ---- passage level: the jump a rendering ends in and every choice it offers are edges ---- *)
Theorem graph_covers_render : forall orc ctxkeys st pid s s' o,
  render_passage orc ctxkeys st pid s = (s', Ok o) ->
  (forall spec, o_jump o = Some spec ->
     exists tg a, spec = jump_spec tg a /\ (is_ref tg = true -> In (pid, tg, KJump) (edges st))) /\
  (forall rc, In rc (o_choices o) -> is_ref (ch_target (rc_choice rc)) = true ->
     exists k, is_jump k = false /\ In (pid, ch_target (rc_choice rc), k) (edges st)).
Proof. exact render_passage_covered. Qed.
Print Assumptions graph_covers_render.

(* ---- navigation level: every hop of a goto chain is a jump edge, also when the chain fails later ---- *)
Theorem graph_covers_goto_chain : forall orc ctxkeys st,
  wf_graphb st = true ->
  forall fuel spec visited s s' r,
  goto_rec orc ctxkeys st fuel spec visited s = (s', r) -> OutOK st s ->
  exists l, log s' = log s ++ l /\ Forall not_hookrun l /\ path_from st (spec_name spec) (entered l).
Proof. exact goto_chain_edges. Qed.
Print Assumptions graph_covers_goto_chain.

(* ---- the property: in every reachable engine state, whatever index is chosen, the passages entered
        by that choice (before the turn_end hooks run) are the choice's target, reached by a choice edge
        from the shown passage, followed by a chain of jump edges; a "-> @join" choice, a rejected index
        and a navigation that fails before entering anything enter no passage ---- *)
Theorem graph_covers_transitions : forall orc ctxkeys st,
  wf_graphb st = true ->
  forall e i, reachable orc ctxkeys st e ->
  exists lg, elog (fst (choose orc ctxkeys st e i)) = elog e ++ lg /\
    match nth_error (o_choices (current_out e)) (Z.to_nat i) with
    | Some ch => choose_path st (o_pid (current_out e)) (ch_target (rc_choice ch)) (nav_entered lg)
    | None => lg = []
    end.
Proof. exact reach_choose_path. Qed.
Print Assumptions graph_covers_transitions.

(* ... every choice offered in a reachable state is an edge from the shown passage (unless "-> @join") *)
Theorem offered_choices_are_edges : forall orc ctxkeys st,
  wf_graphb st = true ->
  forall e rc, reachable orc ctxkeys st e ->
  In rc (o_choices (current_out e)) -> is_ref (ch_target (rc_choice rc)) = true ->
  exists k, is_jump k = false /\ In (o_pid (current_out e), ch_target (rc_choice rc), k) (edges st).
Proof. exact reach_offered_edges. Qed.
Print Assumptions offered_choices_are_edges.

(* ... and a goto() call of the host application enters the named passage and then follows jump edges *)
Theorem graph_covers_goto_api : forall orc ctxkeys st,
  wf_graphb st = true ->
  forall e spec, reachable orc ctxkeys st e ->
  exists lg, elog (fst (goto_op orc ctxkeys st e spec)) = elog e ++ lg /\
             path_from st (spec_name spec) (nav_entered lg).
Proof. exact reach_goto_path. Qed.
Print Assumptions graph_covers_goto_api.

(* ---- missing: exactly the referenced targets that are not defined passages ---- *)
Theorem missing_exact : forall st t,
  In t (missing st) <-> raw_target st t /\ t <> "" /\ t <> "@join" /\ ~ In t (defined st).
Proof. exact missing_exact_lemma. Qed.
Print Assumptions missing_exact.

Theorem missing_is_referenced_minus_defined : forall st t,
  In t (missing st) <-> In t (referenced st) /\ ~ In t (defined st).
Proof. exact missing_is_referenced_not_defined. Qed.
Print Assumptions missing_is_referenced_minus_defined.

(* the reserved "@join" target is not a passage reference: never an edge target, never missing *)
Theorem join_not_a_reference : forall st src k,
  ~ In (src, "@join", k) (edges st) /\ ~ In "@join" (referenced st) /\ ~ In "@join" (missing st).
Proof. exact join_not_a_reference_lemma. Qed.
Print Assumptions join_not_a_reference.

(* ---------------------------------------------------------------------------------------- *)
(* non-vacuity and the witness of F18a *)

Definition ch (t tg : string) : choice := Choice [TText t] tg "" None true 0 [] [].

(* choices in a conditional, in a loop inside it, in a conditional inside that loop; a jump with arguments
   at depth 3; a "-> @join" choice whose block holds a jump token; a two-hop jump chain; an undefined target *)
Definition ex_story : story :=
  mkStory "Start"
    [("Start", mkPassage "Start" []
        [TText "hi";
         TCond [Branch "c"
                  [TLoop "i" "xs" [TCond [Branch "d" [TJump "Deep" "1, 2"] [ch "z" "InCondInLoop"]]]
                         [ch "y" "InLoop"]]
                  [ch "x" "InCond"]];
         TJoinMarker 0]
        [ch "go" "Mid"; Choice [TText "j"] "@join" "" None true 0 [] [TJump "Nowhere" ""]] [] [] []);
     ("Mid", mkPassage "Mid" [] [TText "m"; TJump "End" ""] [] [] [] []);
     ("End", mkPassage "End" [] [TText "e"] [ch "back" "Start"; ch "lost" "Ghost"] [] [] [])]
    [] [].

Example ex_edges :
  edges ex_story =
  [("Start", "Mid", KChoice); ("Start", "InCond", KCond); ("Start", "InLoop", KLoop);
   ("Start", "InCondInLoop", KCond); ("Start", "Deep", KJump);
   ("Mid", "End", KJump); ("End", "Start", KChoice); ("End", "Ghost", KChoice)].
Proof. vm_compute. reflexivity. Qed.

Example ex_missing : missing ex_story = ["InCond"; "InLoop"; "InCondInLoop"; "Deep"; "Ghost"].
Proof. vm_compute. reflexivity. Qed.

Example ex_wf : wf_graphb ex_story = true.
Proof. vm_compute. reflexivity. Qed.

(* F18a, the tree before the fix: "@join" is reported as a missing passage *)
Example join_flagged_missing_refuted :
  exists st, In "@join" (missing_unpatched st) /\ ~ In "@join" (missing st).
Proof.
  exists ex_story. split; [vm_compute; tauto|apply join_never_missing_lemma].
Qed.

(* an oracle under which every condition holds and every collection is [1]: rendering Start ends in the
   jump at depth 3 (hypothesis of graph_covers_render met with a non-trivial spec) *)
Definition orc_all : pyorc :=
  mkOrc (fun _ _ => Ok (VList [VInt 1])) (fun e _ => Ok e) (fun _ _ => Ok "") (fun _ _ => Ok ([], [])).
Definition s_empty : nstate := mkNS (empty_core []) [] [].

Example ex_render_jump :
  match render_passage orc_all [] ex_story "Start" s_empty with
  | (_, Ok o) => o_jump o = Some "Deep(1, 2)" /\ spec_name "Deep(1, 2)" = "Deep"
  | _ => False
  end.
Proof. vm_compute. split; reflexivity. Qed.

(* an oracle under which "d" is false: Start offers its own choices and the block choices, the first
   choice leads through Mid to End (two hops), the "-> @join" choice enters nothing *)
Definition orc_d : pyorc :=
  mkOrc (fun _ code => if String.eqb code "d" then Ok (VBool false) else Ok (VList [VInt 1]))
        (fun e _ => Ok e) (fun _ _ => Ok "") (fun _ _ => Ok ([], [])).
Definition e_start : estate := fst (init orc_d [] ex_story []).

Example ex_reach : reachable orc_d [] ex_story e_start.
Proof. apply R_init. Qed.

Example ex_offered :
  map (fun rc => ch_target (rc_choice rc)) (o_choices (current_out e_start)) = ["Mid"; "@join"; "InLoop"; "InCond"].
Proof. vm_compute. reflexivity. Qed.

Example ex_choose_chain :
  let e1 := fst (choose orc_d [] ex_story e_start 0) in
  nav_entered (skipn (List.length (elog e_start)) (elog e1)) = ["Mid"; "End"] /\
  choose_path ex_story "Start" "Mid" ["Mid"; "End"].
Proof.
  split; [vm_compute; reflexivity|].
  right. exists ["End"], KChoice. split; [reflexivity|]. split; [reflexivity|].
  split; [vm_compute; tauto|]. simpl. split; [vm_compute; tauto|exact I].
Qed.

Example ex_choose_join :
  let e1 := fst (choose orc_d [] ex_story e_start 1) in
  nav_entered (skipn (List.length (elog e_start)) (elog e1)) = [] /\ o_pid (current_out e1) = "Start".
Proof. vm_compute. split; reflexivity. Qed.
