(* C19 — The engine shipped in browser bundles plays stories like the main engine.
   The browser engine is a FORK of the main engine's source without hooks and @join.  It is not modelled
   separately: the one model Engine/Engine.v is compared, on every run, with BOTH real engines on generated stories
   of the common feature subset (Browser.common_story: no hook command, no join marker, no '-> @join' choice, all
   sections 0), and the two real engines with each other (outputs, variables, save documents, undo/redo/save-load
   histories).  What is PROVED here (partial, named so) is that on the common subset the model never exercises any
   of the three things the fork lacks - which is why one model serves both:
     (1) no '-> @join' choice is ever offered and every offered choice has section 0, so choose() always takes the
         ordinary-navigation path and the section filter of _render_passage hides nothing;
     (2) while no hook is registered the turn_end run is the identity; registrations change only through hook
         commands (frame lemmas, Proofs/EngineBase.v: HooksStep), which the subset excludes;
     (3) the section test is vacuous for section-0 choices.
   Not proved: a step-by-step simulation between two separate models (there is only one model); that the fork's
   source differs from the main engine only in functions this argument accounts for is the generated fork_diff
   obligation of the harness (ast comparison of the two files on every run); the bundle-content clause is
   differential only (create_browser_bundle vs compile_file, copied engine vs template). *)
From Coq Require Import String Ascii List Bool ZArith Arith.
From Bardic Require Import PyStr Value Compiled Engine EngineBase EngineNav EngineSem EngineHooks EngineChoice
     Browser Graph GraphProofs BrowserProofs.
Import ListNotations.

Theorem common_subset_offers_only_plain_choices_partial : forall orc ctxkeys st pid s s' o,
  common_story st = true -> render_passage orc ctxkeys st pid s = (s', Ok o) ->
  forall rc, List.In rc (o_choices o) -> plain_choice (rc_choice rc).
Proof. exact common_offers_plain. Qed.
Print Assumptions common_subset_offers_only_plain_choices_partial.

Theorem plain_choice_is_ordinary_navigation_partial : forall orc ctxkeys st ch o,
  plain_choice (rc_choice ch) ->
  forall s, choose_nav orc ctxkeys st ch o s =
            bind (if ch_sticky (rc_choice ch) then ret tt
                  else fun s0 => set_used (add_used (choice_id (o_pid o) (rc_text ch) (ch_target (rc_choice ch)))
                                                    (used (nc s0))) s0)
                 (fun _ => bind (goto orc ctxkeys st (jump_spec (ch_target (rc_choice ch)) (ch_args (rc_choice ch))))
                                (after_hooks orc ctxkeys st)) s.
Proof. intros orc ctxkeys st ch o [Hj _] s. unfold choose_nav. rewrite Hj. reflexivity. Qed.
Print Assumptions plain_choice_is_ordinary_navigation_partial.

Theorem hooks_inert_while_none_registered_partial : forall orc ctxkeys st o s,
  lookup "turn_end"%string (hooks (nc s)) = None -> after_hooks orc ctxkeys st o s = (s, Ok o).
Proof. exact after_hooks_inert. Qed.
Print Assumptions hooks_inert_while_none_registered_partial.

Theorem section_filter_vacuous_partial : forall c fd, ch_section c = 0 -> dir_section c fd = 0.
Proof. exact section_test_vacuous. Qed.
Print Assumptions section_filter_vacuous_partial.

(* non-vacuity: a story of the common subset, and one outside it *)
Definition plain_story : story :=
  mkStory "A" [("A"%string, mkPassage "A" [] [TText "a"; TCond [Branch "x" [TText "b"] [Choice [TText "c"] "A" "" None true 0 [] []]]]
                  [Choice [TText "go"] "A" "" None false 0 [] []] [TPyStmt "x = 1"] [] [])] [] [].
Definition hooked_story : story :=
  mkStory "A" [("A"%string, mkPassage "A" [] [TText "a"] [] [THook true "turn_end" "A"] [] [])] [] [].
Example common_examples : common_story plain_story = true /\ common_story hooked_story = false.
Proof. vm_compute. split; reflexivity. Qed.
