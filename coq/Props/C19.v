(* C19 — The engine shipped in browser bundles plays stories like the main engine.
   The browser engine (bardic/templates/browser/engine_browser.py) is a hand-maintained FORK of the main engine
   without hooks and without @join.  It has its OWN model, Engine/BrowserEngine.v, written function by function from
   the fork's source: no hook registry (hook tokens fall through the if/elif chains), no join markers / sections /
   '-> @join' path, choose() ends with goto().  Engine/BrowserCheck.v runs it on operation histories.

   PROVED here (Proofs/BrowserSim.v), for every oracle for author code (also code that fails anywhere), every list of
   context names, every story of the common subset (Browser.common_story: no hook command, no join marker, no
   '-> @join' choice, all sections 0 - at any nesting depth), all initial variables and EVERY list of operations
   (choose with any index, undo, redo, goto with any spec, reset, reads, submit_inputs, save / load / reload / rejected
   load):
     browser_model_refines_main_model      the two models produce the same observation (ok / exception kind / bool)
                                           and the same view (position, variables, used choices, content, offered
                                           choices, directives, inputs, can_undo / can_redo, scope depth) at every
                                           step; only the hook registry and the join index - which the fork does not
                                           have - are not compared;
     browser_run_is_main_run_erased        the same, read as an equation for the browser model's run;
     main_model_never_uses_hooks_or_join   on a common story no reachable state of the MAIN model has a hook
                                           registered or a non-zero join index (the invariant behind the refinement);
     common_tokens_render_alike            the two token renderers are in simulation on every token tree of the
                                           subset (induction over token trees), and the choices they hand up are
                                           common-subset choices.
   The four older lemmas (kept, still true; named _partial because each is one ingredient of the refinement): offered
   choices of a common story are plain, a plain choice takes the ordinary-navigation path, the turn_end run is the
   identity while nothing is registered, the section test is vacuous for section-0 choices.
   The hypothesis is needed: [outside_the_subset_the_models_differ] (a story with a turn_end hook).

   NOT proved, carried by the tie (harness/c19.py, every run): that BrowserEngine.v reads engine_browser.py correctly
   (real fork vs browser model inside Coq on generated histories) and Engine.v reads engine.py correctly (real main
   engine vs main model); that the fork differs from the main engine only in the functions BrowserEngine.v models
   separately (generated fork_diff obligation: ast comparison of the two files); save documents as JSON text (the
   models abstract save -> JSON -> load as in C05); stories with import lines (the fork's import step differs and is
   outside both models); the bundle-content clause (create_browser_bundle vs compile_file, copied engine vs template). *)
From Coq Require Import String Ascii List Bool ZArith Arith.
From Bardic Require Import PyStr Value Compiled Engine PyMini EngineCheck EngineBase EngineNav EngineSem EngineHooks
     EngineChoice Browser Graph GraphProofs BrowserProofs BrowserEngine BrowserCheck BrowserSim.
Import ListNotations.

(* ---------------------------------------------------------------------------------------- *)
(* the refinement *)
Theorem browser_model_refines_main_model : forall orc ctxkeys st,
  common_story st = true ->
  forall v0 ops,
    map forget_hj_step (run_all orc ctxkeys st v0 ops) = map forget_hj_step (run_all_b orc ctxkeys st v0 ops).
Proof. exact browser_sim. Qed.
Print Assumptions browser_model_refines_main_model.

Theorem browser_run_is_main_run_erased : forall orc ctxkeys st,
  common_story st = true ->
  forall v0 ops, run_all_b orc ctxkeys st v0 ops = map forget_hj_step (run_all orc ctxkeys st v0 ops).
Proof. exact browser_sim_erased. Qed.
Print Assumptions browser_run_is_main_run_erased.

Theorem main_model_never_uses_hooks_or_join : forall orc ctxkeys st,
  common_story st = true ->
  forall v0 ops,
    Forall (fun x => v_hooks (snd x) = [] /\ Forall (fun kv => snd kv = 0) (v_join (snd x)))
           (run_all orc ctxkeys st v0 ops).
Proof. exact main_hooks_join_idle. Qed.
Print Assumptions main_model_never_uses_hooks_or_join.

Theorem common_tokens_render_alike : forall orc ctxkeys t,
  nohj_tok t = true -> SimM Rtok (render_tok orc ctxkeys t) (render_tok_b orc ctxkeys t).
Proof. exact sim_render_tok. Qed.
Print Assumptions common_tokens_render_alike.

(* ---------------------------------------------------------------------------------------- *)
(* the ingredients proved earlier *)
Theorem common_subset_offers_only_plain_choices_partial : forall orc ctxkeys st pid s s' o,
  common_story st = true -> render_passage orc ctxkeys st pid s = (s', Ok o) ->
  forall rc, List.In rc (o_choices o) -> plain_choice (rc_choice rc).
Proof. exact common_offers_plain. Qed.
Print Assumptions common_subset_offers_only_plain_choices_partial.

Theorem plain_choice_is_ordinary_navigation_partial : forall orc ctxkeys st ch o,
  plain_choice (rc_choice ch) ->
  forall s, choose_nav orc ctxkeys st ch o s =
            bind (if ch_sticky (rc_choice ch) then ret tt
                  else fun s0 => set_used (add_used (choice_id (o_pid o) (rc_text ch) (ch_target (rc_choice ch)))
                                                    (used (nc s0))) s0)
                 (fun _ => bind (goto orc ctxkeys st (jump_spec (ch_target (rc_choice ch)) (ch_args (rc_choice ch))))
                                (after_hooks orc ctxkeys st)) s.
Proof. intros orc ctxkeys st ch o [Hj _] s. unfold choose_nav. rewrite Hj. reflexivity. Qed.
Print Assumptions plain_choice_is_ordinary_navigation_partial.

Theorem hooks_inert_while_none_registered_partial : forall orc ctxkeys st o s,
  lookup "turn_end"%string (hooks (nc s)) = None -> after_hooks orc ctxkeys st o s = (s, Ok o).
Proof. exact after_hooks_inert. Qed.
Print Assumptions hooks_inert_while_none_registered_partial.

Theorem section_filter_vacuous_partial : forall c fd, ch_section c = 0 -> dir_section c fd = 0.
Proof. exact section_test_vacuous. Qed.
Print Assumptions section_filter_vacuous_partial.

(* ---------------------------------------------------------------------------------------- *)
(* non-vacuity *)
Local Open Scope string_scope.

(* a story of the common subset, and one outside it *)
Definition plain_story : story :=
  mkStory "A" [("A"%string, mkPassage "A" [] [TText "a"; TCond [Branch "x" [TText "b"] [Choice [TText "c"] "A" "" None true 0 [] []]]]
                  [Choice [TText "go"] "A" "" None false 0 [] []] [TPyStmt "x = 1"] [] [])] [] [].
Definition hooked_story : story :=
  mkStory "A" [("A"%string, mkPassage "A" [] [TText "a"] [Choice [TText "go"] "A" "" None true 0 [] []]
                                          [THook true "turn_end" "H"] [] []);
               ("H"%string, mkPassage "H" [] [TText "tick"] [] [] [] [])] [] [].
Example common_examples : common_story plain_story = true /\ common_story hooked_story = false.
Proof. vm_compute. split; reflexivity. Qed.

(* a common story with a jump chain, a loop (with a per-item choice), a conditional block carrying a choice (keyword
   argument), a one-time choice, a conditional choice and a parameterised passage; author code through the PyMini
   oracle *)
Definition ch (t tg a : string) (c : option string) (sticky : bool) : choice := Choice [TText t] tg a c sticky 0 [] [].
Definition demo_story : story :=
  mkStory "Init"
    [("Init", mkPassage "Init" [] [TText "Welcome. "; TJump "Hub" ""] [] [TPyStmt "gold = 5"; TPyStmt "items = [1, 2]"] [] []);
     ("Hub", mkPassage "Hub" []
        [TText "Gold "; TExpr "gold"; TText ". ";
         TLoop "i" "items" [TText "Item "; TExpr "i"; TText ". "] [Choice [TText "Take "; TExpr "i"] "Shop" "i" None true 0 [] []];
         TCond [Branch "gold > 3" [TText "Rich. "] [ch "Buy" "Shop" "cost=2" None true]]]
        [ch "Ask once" "Hub" "" None false; ch "Poor only" "Hub" "" (Some "gold < 3") true; ch "Shop for 3" "Shop" "3" None true]
        [] [] []);
     ("Shop", mkPassage "Shop" [mkParam "cost" None]
        [TText "Paid "; TExpr "cost"; TText ". "; TPyStmt "gold = gold - cost"; TJump "Hub" ""] [] [] [] [])]
    [] [].
Definition demo_tables : tables :=
  mkTables
    [("gold", Some (EName "gold")); ("i", Some (EName "i")); ("items", Some (EName "items")); ("cost", Some (EName "cost"));
     ("gold > 3", Some (ECmp Gt (EName "gold") (EInt 3))); ("gold < 3", Some (ECmp Lt (EName "gold") (EInt 3)))]
    [("gold = 5", Some [SAssign "gold" (EInt 5)]); ("items = [1, 2]", Some [SAssign "items" (EList [EInt 1; EInt 2])]);
     ("gold = gold - cost", Some [SAssign "gold" (EBin Sub (EName "gold") (EName "cost"))])]
    [("cost=2", Some ([], [("cost", EInt 2)])); ("3", Some ([EInt 3], [])); ("1", Some ([EInt 1], [])); ("i", Some ([EName "i"], []))]
    [].
Definition demo_ops : list op :=
  [OpChoose 0; OpChoose 3; OpUndo; OpRedo; OpChoose 2; OpSave; OpChoose 0; OpGoto "Shop(1)"; OpLoad; OpReset; OpChoose 0;
   OpReload; OpInput "nm" "Zed"; OpBadLoad; OpChoose 99; OpUndo; OpRead].

Definition demo_main := run_all (mini_orc demo_tables) [] demo_story [] demo_ops.
Definition demo_browser := run_all_b (mini_orc demo_tables) [] demo_story [] demo_ops.

(* both models, evaluated: equal step by step (an instance of the theorem), with a non-trivial history - the one-time
   choice disappears and comes back after reset, the conditional choice appears once gold < 3, "Buy" binds a keyword
   argument, a loop choice whose argument is out of scope fails in both, undo/redo/save/load move between situations;
   the main model's join index is not empty, so the erasure is doing work *)
Example refinement_example :
  common_story demo_story = true /\
  map forget_hj_step demo_main = map forget_hj_step demo_browser /\
  map fst demo_main =
    [ObsOk; ObsOk; ObsOk; ObsBool true; ObsBool true; ObsExc ValueError; ObsOk; ObsOk; ObsOk; ObsOk; ObsOk; ObsOk; ObsOk;
     ObsOk; ObsExc ValueError; ObsExc IndexError; ObsBool false; ObsOk] /\
  map (fun x => v_content (snd x)) (firstn 3 demo_browser) =
    ["Welcome. " ++ String "010" (String "010" "Gold 5. Item 1. Item 2. Rich. ");
     "Gold 5. Item 1. Item 2. Rich. ";
     "Paid 2. " ++ String "010" (String "010" "Gold 3. Item 1. Item 2. ")] /\
  map (fun x => map (fun c => fst (fst c)) (v_choices (snd x))) (firstn 3 demo_browser) =
    [["Ask once"; "Shop for 3"; "Take 1"; "Take 2"; "Buy"];
     ["Shop for 3"; "Take 1"; "Take 2"; "Buy"];
     ["Shop for 3"; "Take 1"; "Take 2"]] /\
  map (fun x => v_join (snd x)) (firstn 1 demo_main) = [[("Init", 0); ("Hub", 0)]] /\
  map (fun x => v_join (snd x)) (firstn 1 demo_browser) = [[]].
Proof. vm_compute. repeat split; reflexivity. Qed.

(* the hypothesis is needed: with a turn_end hook the main model appends the hook passage's text, the fork's model
   (which ignores hook commands, as the fork does) does not *)
Definition hooked_tables : tables := mkTables [] [] [] [].
Example outside_the_subset_the_models_differ :
  models_differ (hooked_story, hooked_tables, [], [OpChoose 0], []) = true /\
  map (fun x => v_content (snd x)) (run_all (mini_orc hooked_tables) [] hooked_story [] [OpChoose 0]) =
    ["a"; "a" ++ String "010" (String "010" "tick")] /\
  map (fun x => v_content (snd x)) (run_all_b (mini_orc hooked_tables) [] hooked_story [] [OpChoose 0]) = ["a"; "a"].
Proof. vm_compute. repeat split; reflexivity. Qed.
