(* C20 — Standard-library game objects keep their invariants under any operation sequence.
   Property theorems only; proofs are in Proofs/GameProofs.v. *)
From Coq Require Import ZArith List Bool String.
From Bardic Require Import PyStr Game GameProofs.
Import ListNotations.
Local Open Scope Z_scope.

(* A Wallet's gold never goes negative, under any history of world operations. *)
Theorem wallet_nonneg : forall ops x,
  0 <= gold (ww x) -> 0 <= gold (ww (fst (grun x ops))).
Proof. exact grun_gold_nonneg. Qed.
Print Assumptions wallet_nonneg.

Theorem wallet_ctor_nonneg : forall g, 0 <= gold (wallet_new g).
Proof. exact wallet_new_nonneg. Qed.
Print Assumptions wallet_ctor_nonneg.

(* Spending is all-or-nothing. *)
Theorem spend_all_or_nothing : forall w a,
  (spend w a = (mkWallet (gold w - a), true) /\ a <= gold w) \/
  (spend w a = (w, false) /\ gold w < a).
Proof. exact spend_spec. Qed.
Print Assumptions spend_all_or_nothing.

(* Inventory.add never takes the inventory over its limit ... *)
Theorem add_respects_limit : forall inv it inv',
  inv_add inv it = (inv', Ret true) ->
  current_weight inv + weight_of it <= max_weight inv /\
  current_weight inv' = current_weight inv + weight_of it.
Proof.
  intros inv it inv' H. pose proof (inv_add_spec inv it) as S. rewrite H in S. tauto.
Qed.
Print Assumptions add_respects_limit.

(* ... and, for items of non-negative weight, no history of operations does. *)
Theorem inventory_weight_bound : forall ops x,
  WInv x -> Forall op_weights_ok ops ->
  current_weight (wi (fst (grun x ops))) <= max_weight (wi (fst (grun x ops))).
Proof. intros ops x H Ho. exact (proj1 (grun_WInv ops x H Ho)). Qed.
Print Assumptions inventory_weight_bound.

(* Shop.buy is an atomic exchange (for non-negative prices). *)
Theorem buy_atomic : forall s n w inv,
  0 <= get_buy_price s n -> buy_result s n w inv (buy s n w inv).
Proof. exact buy_atomic_lemma. Qed.
Print Assumptions buy_atomic.

(* Shop.sell is an atomic exchange. *)
Theorem sell_atomic : forall s n w inv, sell_result s n w inv (sell s n w inv).
Proof. exact sell_atomic_lemma. Qed.
Print Assumptions sell_atomic.

(* Shop stock is never mutated. *)
Theorem stock_unchanged : forall ops x, stock (ws (fst (grun x ops))) = stock (ws x).
Proof. exact grun_stock. Qed.
Print Assumptions stock_unchanged.

(* Relationship stats stay in range under any history. *)
Theorem relationship_ranges : forall ops n t c o tp,
  RInv (fst (rrun (rel_new n t c o tp) ops)).
Proof. intros. apply rrun_RInv, rel_new_RInv. Qed.
Print Assumptions relationship_ranges.

(* Threshold events fire exactly on upward crossings, at most once per call. *)
Theorem threshold_iff_upward_crossing : forall r a,
  (In E60 (snd (add_trust r a)) <-> trust r < 60 <= trust (fst (add_trust r a))) /\
  (In E80 (snd (add_trust r a)) <-> trust r < 80 <= trust (fst (add_trust r a))) /\
  NoDup (snd (add_trust r a)).
Proof. exact add_trust_events. Qed.
Print Assumptions threshold_iff_upward_crossing.

(* to_dict / from_dict round trips. *)
Theorem wallet_dict_roundtrip : forall w, 0 <= gold w -> wallet_from_dict (wallet_to_dict w) = w.
Proof. exact wallet_roundtrip. Qed.
Print Assumptions wallet_dict_roundtrip.
Theorem inventory_dict_roundtrip : forall inv, inv_from_dict (inv_to_dict inv) = inv.
Proof. exact inv_roundtrip. Qed.
Print Assumptions inventory_dict_roundtrip.
Theorem shop_dict_roundtrip : forall s, shop_from_dict (shop_to_dict s) = s.
Proof. exact shop_roundtrip. Qed.
Print Assumptions shop_dict_roundtrip.
Theorem relationship_dict_roundtrip : forall r, RInv r -> rel_from_dict (rel_to_dict r) = r.
Proof. exact rel_roundtrip. Qed.
Print Assumptions relationship_dict_roundtrip.

(* Dice rolls stay within the bounds of their notation. *)
Theorem roll_within_bounds : forall draws s m,
  Forall (fun d => 1 <= d <= s) draws ->
  Z.of_nat (List.length draws) + m <= roll_total draws m <= Z.of_nat (List.length draws) * s + m.
Proof. exact roll_bounds. Qed.
Print Assumptions roll_within_bounds.

(* ---- non-vacuity: concrete states meeting the hypotheses ---- *)
Definition sword := mkItem (Some "Sword"%string) (Some 20) (Some 100) None.
Definition potion := mkItem (Some "Potion"%string) (Some 2) (Some 50) None.
Definition demo_world :=
  mkWorld (wallet_new 120) (mkInv [potion] 20) (mkShop [sword; potion] 2 4).

Example demo_WInv : WInv demo_world /\ 0 <= gold (ww demo_world) /\
                    0 <= get_buy_price (ws demo_world) "Sword".
Proof.
  unfold WInv, weights_ok. simpl. repeat split; try (vm_compute; congruence).
  - intros i [<-|[]]; vm_compute; congruence.
  - intros i [<-|[<-|[]]]; vm_compute; congruence.
Qed.

(* the refund path is taken in this history: buying the sword overflows 20 quarter-units *)
Example demo_refund :
  snd (grun demo_world [OBuy "Sword"; OSell "Potion"; OBuy "Sword"])
  = [BFalse; BTrue; BTrue].
Proof. vm_compute. reflexivity. Qed.

(* The hypothesis of buy_atomic is needed: with a negative price the exchange is not atomic
   (gold is gained although no item changes hands). *)
Definition cursed := mkItem (Some "Cursed"%string) (Some 100) (Some (-10)) None.
Theorem buy_atomic_needs_nonneg_price_refuted :
  exists s n w inv, ~ buy_result s n w inv (buy s n w inv).
Proof.
  exists (mkShop [cursed] 2 4), "Cursed"%string, (wallet_new 5), (mkInv [] 8).
  unfold buy_result. vm_compute. intros [(it & Hf & Hr & _)|Hr]; discriminate Hr.
Qed.
Print Assumptions buy_atomic_needs_nonneg_price_refuted.
