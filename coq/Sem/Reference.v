(* The reference meaning of a source story (docs/spec.md), defined on the SOURCE AST - not on tokens:
   what a passage shows and does when it is entered.  It uses the engine's primitive meanings of a statement,
   a display expression and a hook command (exec_statement, render_expr, exec_hook: one evaluation of author
   code each) and defines the traversal itself:
     - entering a passage runs its top-level ~ statements, @py blocks and @hook commands in source order;
     - then its lines are rendered in order: a content line gives its pieces and a newline unless glued, a
       blank line a newline, a block its chosen branch / each iteration (statements inside blocks run there),
       the first jump reached stops the passage, render/input directives are collected. *)
From Coq Require Import String Ascii List Bool ZArith Arith.
From Bardic Require Import PyStr Value Compiled Engine Source.
Import ListNotations.
Local Open Scope list_scope.

Section WithOracle.
Variable orc : pyorc.
Variable ctxkeys : list string.

(* the text of a list of pieces in a given state (display never changes the state) *)
Fixpoint piece_text (s : nstate) (p : piece) : string :=
  let pieces := fix pieces (l : list piece) : string :=
      match l with [] => ""%string | x :: r => (piece_text s x ++ pieces r)%string end in
  match p with
  | PText t => t
  | PExpr code => render_expr orc (eval_context (vars (nc s)) (scopes s)) code
  | PCond c tr fa =>
      match o_eval orc (eval_context (vars (nc s)) (scopes s)) c with
      | Exc _ => ERR
      | Ok b => pieces (if truthy b then tr else fa)
      end
  end.
Fixpoint pieces_text (s : nstate) (l : list piece) : string :=
  match l with [] => ""%string | x :: r => (piece_text s x ++ pieces_text s r)%string end.

Definition nl : string := String "010"%char EmptyString.

(* the generic item sequencer: stop at the first jump *)
Definition seqi (f : item -> M tok_out) : list item -> M seq_out :=
  fix go (l : list item) : M seq_out :=
    match l with
    | [] => ret (""%string, None, [])
    | x :: r =>
        do '(txt, c, ds) <- f x;
        match c with
        | CJump spec => ret (txt, Some spec, ds)
        | _ => do '(txt2, j, ds2) <- go r; ret ((txt ++ txt2)%string, j, (ds ++ ds2)%list)
        end
    end.

Definition ctl_of (j : option string) : ctl := match j with Some sp => CJump sp | None => CNext end.

Definition sem_branches (f : item -> M tok_out) (ctx : env)
  : list (string * list item * list schoice) -> M tok_out :=
  fix go (l : list (string * list item * list schoice)) : M tok_out :=
    match l with
    | [] => ret (""%string, CNext, [])
    | (cond, body, chs) :: r =>
        match o_eval orc ctx cond with
        | Exc _ => go r                          (* a condition that cannot be evaluated: skip the branch *)
        | Ok b =>
            if truthy b then
              do '(txt, j, ds) <- seqi f body;
              ret (txt, ctl_of j, (ds ++ map (fun c => DChoice (c_choice 0 c) None) chs)%list)
            else go r
        end
    end.

Definition sem_loop_choices (chs : list schoice) : M (list directive) :=
  fun s => (s, Ok (map (fun c => match c with
                                 | SChoice tx _ _ _ _ _ => DChoice (c_choice 0 c) (Some (pieces_text s tx))
                                 end) chs)).

Definition sem_loop_items (f : item -> M tok_out) (vs : list string) (body : list item) (chs : list schoice)
  : list value -> M tok_out :=
  fix iter (its : list value) : M tok_out :=
    match its with
    | [] => ret (""%string, CNext, [])
    | v :: rest =>
        do s0 <- get;
        let '(v1, orig) := loop_bind vs v (vars (nc s0)) in
        do _ <- set_vars v1;
        do '(txt, j, ds) <- seqi f body;
        do chds <- sem_loop_choices chs;
        do s1 <- get;
        do _ <- set_vars (loop_restore orig (vars (nc s1)));
        match j with
        | Some sp => ret (txt, CJump sp, (ds ++ chds)%list)
        | None =>
            do '(txt2, c2, ds2) <- iter rest;
            ret ((txt ++ txt2)%string, c2, (ds ++ chds ++ ds2)%list)
        end
    end.

Fixpoint sem_item (it : item) {struct it} : M tok_out :=
  match it with
  | IText ps glue => fun s => (s, Ok ((pieces_text s ps ++ (if glue then "" else nl))%string, CNext, []))
  | IBlank => ret (nl, CNext, [])
  | IStmt c => do _ <- exec_statement orc ctxkeys c; ret (""%string, CNext, [])
  | IPy c => do _ <- exec_block orc ctxkeys c; ret (""%string, CNext, [])
  | IHook a e t => do _ <- exec_hook a e t; ret (""%string, CNext, [])
  | IIf brs => do ctx <- ctx_now; sem_branches sem_item ctx brs
  | IFor var coll body chs =>
      if String.eqb var "" || String.eqb coll "" then ret (""%string, CNext, []) else
      do ctx <- ctx_now;
      match (match o_eval orc ctx coll with Ok c => py_iter c | Exc e => Exc e end) with
      | Exc _ => ret (ERR, CNext, [])           (* a collection that cannot be evaluated: inline marker *)
      | Ok items => sem_loop_items sem_item (split_vars var) body chs items
      end
  | IJump t a => ret (""%string, CJump (jump_spec t a), [])
  | IRender n a => do ctx <- ctx_now; ret (""%string, CNext, [DRender (process_render orc ctx n a None)])
  | IInput attrs => ret (""%string, CNext, [DInput attrs])
  | IJoin => ret (""%string, CNext, [])
  end.

Definition sem_items : list item -> M seq_out := seqi sem_item.

(* entering a passage: its top-level commands, in source order *)
Definition sem_enter (body : list item) : M unit :=
  (fix go (l : list item) : M unit :=
     match l with
     | [] => ret tt
     | IStmt c :: r => do _ <- exec_statement orc ctxkeys c; go r
     | IPy c :: r => do _ <- exec_block orc ctxkeys c; go r
     | IHook a e t :: r => do _ <- exec_hook a e t; go r
     | _ :: r => go r
     end) body.

End WithOracle.
