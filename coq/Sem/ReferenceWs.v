(* The two documented whitespace normalisations, stated on SOURCE LINES (items), and the reference meaning of a
   passage body with them (C01).

   Written from the wording of the documentation, not from the token functions of validation.py:
     _cleanup_whitespace   "Removes extra newlines before and after conditional blocks to prevent unwanted
                            blank lines in output": skip a newline before a conditional "if there's already a
                            newline before it"; after a conditional "avoid double spacing".
     _trim_trailing_newlines "Keeps at most one trailing newline".
   On source lines (the lines that show something: ~ / @py / @hook / @input lines are hoisted and are not lines of
   the shown text):
     (N1) of several blank lines directly below an @if block only the last one stays;
     (N2) otherwise a blank line directly above an @if block is dropped when the line above it already ended
          in a newline (a blank line, or a text line without glue);
     (N3) when only blank lines remain up to the end of the passage they give one newline, and none when the
          line above them already ended in a newline.
   Nothing else changes: no text line is touched, blank lines inside @if / @for bodies are never touched, blank
   lines around @for blocks, jumps and directives are never touched. *)
From Coq Require Import String Ascii List Bool ZArith Arith.
From Bardic Require Import PyStr Value Compiled Engine Source Reference.
Import ListNotations.
Local Open Scope list_scope.

(* the lines of a passage body that show something (commands run on entry, input directives are attached to the
   passage: Source.top_execute / top_inputs) *)
Definition ws_shown (it : item) : bool := negb (is_command it || is_input it).
Definition shown_lines (body : list item) : list item := filter ws_shown body.

(* what stands directly above a line, as far as the normalisations care *)
Inductive above := AOther | ANewline | AIf.
Definition above_of (it : item) : above :=
  match it with
  | IBlank => ANewline
  | IText _ false => ANewline                 (* a text line without glue ends in a newline *)
  | IIf _ => AIf
  | _ => AOther                               (* start of passage, glued text, @for, jump, directive *)
  end.
Definition is_ANewline (a : above) : bool := match a with ANewline => true | _ => false end.
Definition is_AIf (a : above) : bool := match a with AIf => true | _ => false end.

Definition next_is_blank (r : list item) : bool := match r with IBlank :: _ => true | _ => false end.
Definition next_is_if (r : list item) : bool := match r with IIf _ :: _ => true | _ => false end.

(* (N1) + (N2): blank lines next to an @if block *)
Fixpoint collapse_blanks (ab : above) (l : list item) : list item :=
  match l with
  | [] => []
  | IBlank :: r =>
      if (is_AIf ab && next_is_blank r)            (* N1: below an @if, another blank line follows *)
         || (is_ANewline ab && next_is_if r)       (* N2: above an @if, the line above ended in a newline *)
      then collapse_blanks ab r
      else IBlank :: collapse_blanks ANewline r
  | it :: r => it :: collapse_blanks (above_of it) r
  end.

(* (N3): the end of the passage *)
Definition is_blank (it : item) : bool := match it with IBlank => true | _ => false end.
Definition ends_newline (it : item) : bool := is_ANewline (above_of it).
Fixpoint trim_end (above_nl : bool) (l : list item) : list item :=
  match l with
  | [] => []
  | it :: r =>
      if forallb is_blank l then (if above_nl then [] else [IBlank])
      else it :: trim_end (ends_newline it) r
  end.

Definition normalise_items (l : list item) : list item := trim_end false (collapse_blanks AOther l).

(* ---- which ASTs are lists of source LINES ----
   A content line of a .bard file has at least one piece or it would be a blank line (or, written as a bare `<>`,
   nothing at all), and it cannot contain a line break.  The AST type allows both; `proper_lines` excludes them at
   the top level of a body (it says nothing about nested bodies: the normalisations never look inside). *)
Definition is_nl_piece (p : piece) : bool :=
  match p with PText s => String.eqb s nl | _ => false end.
Definition proper_item (it : item) : bool :=
  match it with
  | IText ps _ => match ps with [] => false | _ => true end && forallb (fun p => negb (is_nl_piece p)) ps
  | _ => true
  end.
Definition proper_lines (body : list item) : bool := forallb proper_item (shown_lines body).

(* every AST read as source lines: a literal newline piece breaks the line; a line without pieces is a blank line,
   and with glue it is no line at all (it shows nothing and ends nothing) *)
Fixpoint split_line (acc : list piece) (ps : list piece) (glue : bool) : list item :=
  match ps with
  | [] => match acc with
          | [] => if glue then [] else [IBlank]
          | _ => [IText (rev acc) glue]
          end
  | p :: r =>
      if is_nl_piece p
      then (match acc with [] => IBlank | _ => IText (rev acc) false end) :: split_line [] r glue
      else split_line (p :: acc) r glue
  end.
Definition canon_item (it : item) : list item :=
  match it with IText ps g => split_line [] ps g | _ => [it] end.
Definition canon_lines (l : list item) : list item := flat_map canon_item l.

Section WithOracle.
Variable orc : pyorc.
Variable ctxkeys : list string.

(* the reference meaning of a passage body with the two normalisations, on source lines *)
Definition sem_items_ws (body : list item) : M seq_out :=
  sem_items orc ctxkeys (normalise_items (shown_lines body)).

(* the same for ASTs that are not lists of source lines *)
Definition sem_items_ws_any (body : list item) : M seq_out :=
  sem_items orc ctxkeys (normalise_items (canon_lines (shown_lines body))).
End WithOracle.
