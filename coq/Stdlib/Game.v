(* Model of bardic/stdlib: economy.py, inventory.py, relationship.py, dice.py.
   Weights, max_weight, sell_back_rate and discount are dyadic rationals in the
   implementation runs compared with this model; here they are integers counted in
   quarter units (w_model = 4 * w_python), so that int(value * rate) is Z.quot (value*rate) 4. *)
From Coq Require Import ZArith List Bool String Ascii.
From Bardic Require Import PyStr.
Import ListNotations.
Local Open Scope string_scope.
Local Open Scope list_scope.
Local Open Scope Z_scope.

(* ---------- items ---------- *)
Record item := mkItem {
  iname : option string;       (* "name" key may be absent: Inventory.add raises ValueError *)
  iweight : option Z;          (* quarter units; absent -> 0 *)
  ivalue : option Z;
  icat : option string }.

Definition weight_of (i : item) : Z := match iweight i with Some w => w | None => 0 end.
Definition value_of (i : item) : Z := match ivalue i with Some v => v | None => 0 end.
Definition name_is (n : string) (i : item) : bool :=
  match iname i with Some m => String.eqb m n | None => false end.

(* ---------- Wallet ---------- *)
Record wallet := mkWallet { gold : Z }.
Definition wallet_new (g : Z) : wallet := mkWallet (Z.max 0 g).
Definition set_gold (w : wallet) (v : Z) : wallet := mkWallet (Z.max 0 v).
Definition can_afford (w : wallet) (p : Z) : bool := gold w >=? p.
Definition spend (w : wallet) (a : Z) : wallet * bool :=
  if can_afford w a then (mkWallet (gold w - a), true) else (w, false).
Definition earn (w : wallet) (a : Z) : wallet := mkWallet (gold w + Z.max 0 a).
Definition wallet_to_dict (w : wallet) : Z := gold w.
Definition wallet_from_dict (g : Z) : wallet := wallet_new g.

(* ---------- Inventory ---------- *)
Record inventory := mkInv { items : list item; max_weight : Z }.
Definition inv_new (mw : Z) : inventory := mkInv [] mw.
Definition current_weight (inv : inventory) : Z :=
  fold_right (fun i acc => weight_of i + acc) 0 (items inv).

Inductive outcome (A : Type) := Ret (a : A) | RaiseValueError.
Arguments Ret {A} a. Arguments RaiseValueError {A}.

Definition inv_add (inv : inventory) (it : item) : inventory * outcome bool :=
  match iname it with
  | None => (inv, RaiseValueError)
  | Some _ =>
      if current_weight inv + weight_of it <=? max_weight inv
      then (mkInv (items inv ++ [it]) (max_weight inv), Ret true)
      else (inv, Ret false)
  end.

Fixpoint remove_first (n : string) (l : list item) : option (list item) :=
  match l with
  | [] => None
  | i :: r => if name_is n i then Some r
              else match remove_first n r with Some r' => Some (i :: r') | None => None end
  end.

Definition inv_remove (inv : inventory) (n : string) : inventory * bool :=
  match remove_first n (items inv) with
  | Some l => (mkInv l (max_weight inv), true)
  | None => (inv, false)
  end.

Definition inv_remove_all (inv : inventory) (n : string) : inventory * Z :=
  let l := filter (fun i => negb (name_is n i)) (items inv) in
  (mkInv l (max_weight inv), Z.of_nat (List.length (items inv)) - Z.of_nat (List.length l)).

Definition inv_get (inv : inventory) (n : string) : option item := List.find (name_is n) (items inv).
Definition inv_has (inv : inventory) (n : string) : bool := existsb (name_is n) (items inv).
Definition inv_count (inv : inventory) (n : string) : Z :=
  Z.of_nat (List.length (filter (name_is n) (items inv))).
Definition inv_clear (inv : inventory) : inventory := mkInv [] (max_weight inv).
Definition inv_total_value (inv : inventory) : Z :=
  fold_right (fun i acc => value_of i + acc) 0 (items inv).
Definition inv_to_dict (inv : inventory) : list item * Z := (items inv, max_weight inv).
Definition inv_from_dict (d : list item * Z) : inventory := mkInv (fst d) (snd d).

(* ---------- Shop ---------- *)
Record shop := mkShop { stock : list item; sell_back_rate : Z; discount : Z }.

Definition find_item (s : shop) (n : string) : option item := List.find (name_is n) (stock s).
(* int(value * discount): truncation toward zero *)
Definition get_buy_price (s : shop) (n : string) : Z :=
  match find_item s n with
  | Some it => match ivalue it with Some v => Z.quot (v * discount s) 4 | None => 0 end
  | None => 0
  end.
Definition get_sell_price (s : shop) (v : Z) : Z := Z.quot (v * sell_back_rate s) 4.

Definition buy (s : shop) (n : string) (w : wallet) (inv : inventory)
  : wallet * inventory * outcome bool :=
  match find_item s n with
  | None => (w, inv, Ret false)
  | Some it =>
      let price := get_buy_price s n in
      let '(w1, ok) := spend w price in
      if negb ok then (w, inv, Ret false) else
      match inv_add inv it with
      | (inv1, Ret true) => (w1, inv1, Ret true)
      | (_, Ret false) => (earn w1 price, inv, Ret false)
      | (_, RaiseValueError) => (w1, inv, RaiseValueError)
      end
  end.

Definition sell (s : shop) (n : string) (w : wallet) (inv : inventory)
  : wallet * inventory * bool :=
  match inv_get inv n with
  | None => (w, inv, false)
  | Some it =>
      let price := get_sell_price s (value_of it) in
      match inv_remove inv n with
      | (inv1, true) => (earn w price, inv1, true)
      | (_, false) => (w, inv, false)
      end
  end.

Definition set_discount (s : shop) (d : Z) : shop := mkShop (stock s) (sell_back_rate s) (Z.max 0 d).
Definition shop_to_dict (s : shop) := (stock s, sell_back_rate s, discount s).
Definition shop_from_dict (d : list item * Z * Z) : shop :=
  let '(it, r, dc) := d in mkShop it r dc.

(* ---------- one game world and its operations (for histories) ---------- *)
Record world := mkWorld { ww : wallet; wi : inventory; ws : shop }.

Inductive gop :=
| OSpend (a : Z) | OEarn (a : Z) | OSetGold (v : Z)
| OAdd (it : item) | ORemove (n : string) | ORemoveAll (n : string) | OClear
| OBuy (n : string) | OSell (n : string) | OSetDiscount (d : Z).

Inductive gobs := BTrue | BFalse | BInt (z : Z) | BUnit | BValueError.
Definition ob (b : bool) : gobs := if b then BTrue else BFalse.

Definition gstep (x : world) (o : gop) : world * gobs :=
  match o with
  | OSpend a => let '(w, b) := spend (ww x) a in (mkWorld w (wi x) (ws x), ob b)
  | OEarn a => (mkWorld (earn (ww x) a) (wi x) (ws x), BUnit)
  | OSetGold v => (mkWorld (set_gold (ww x) v) (wi x) (ws x), BUnit)
  | OAdd it =>
      match inv_add (wi x) it with
      | (i, Ret b) => (mkWorld (ww x) i (ws x), ob b)
      | (i, RaiseValueError) => (mkWorld (ww x) i (ws x), BValueError)
      end
  | ORemove n => let '(i, b) := inv_remove (wi x) n in (mkWorld (ww x) i (ws x), ob b)
  | ORemoveAll n => let '(i, k) := inv_remove_all (wi x) n in (mkWorld (ww x) i (ws x), BInt k)
  | OClear => (mkWorld (ww x) (inv_clear (wi x)) (ws x), BUnit)
  | OBuy n =>
      match buy (ws x) n (ww x) (wi x) with
      | (w, i, Ret b) => (mkWorld w i (ws x), ob b)
      | (w, i, RaiseValueError) => (mkWorld w i (ws x), BValueError)
      end
  | OSell n => let '(w, i, b) := sell (ws x) n (ww x) (wi x) in (mkWorld w i (ws x), ob b)
  | OSetDiscount d => (mkWorld (ww x) (wi x) (set_discount (ws x) d), BUnit)
  end.

Fixpoint grun (x : world) (ops : list gop) : world * list gobs :=
  match ops with
  | [] => (x, [])
  | o :: r => let '(x1, b) := gstep x o in let '(x2, bs) := grun x1 r in (x2, b :: bs)
  end.

(* ---------- Relationship ---------- *)
Record rel := mkRel { rname : string; trust : Z; comfort : Z; openness : Z; topics : list string }.
Definition clamp (lo hi v : Z) : Z := Z.max lo (Z.min hi v).
Definition rel_new (n : string) (t c o : Z) (tp : list string) : rel :=
  mkRel n (clamp 0 100 t) (clamp 0 100 c) (clamp (-10) 10 o) tp.

Inductive revent := E60 | E80.
Definition add_trust (r : rel) (a : Z) : rel * list revent :=
  let old := trust r in
  let new := clamp 0 100 (old + a) in
  (mkRel (rname r) new (comfort r) (openness r) (topics r),
   (if (old <? 60) && (60 <=? new) then [E60] else []) ++
   (if (old <? 80) && (80 <=? new) then [E80] else [])).
Definition set_trust (r : rel) (v : Z) : rel :=
  mkRel (rname r) (clamp 0 100 v) (comfort r) (openness r) (topics r).
Definition add_comfort (r : rel) (a : Z) : rel :=
  mkRel (rname r) (trust r) (clamp 0 100 (comfort r + a)) (openness r) (topics r).
Definition add_openness (r : rel) (a : Z) : rel :=
  mkRel (rname r) (trust r) (comfort r) (clamp (-10) 10 (openness r + a)) (topics r).
Definition discuss (r : rel) (t : string) : rel :=
  mkRel (rname r) (trust r) (comfort r) (openness r)
        (if str_in t (topics r) then topics r else topics r ++ [t]).

Inductive rop := RAddTrust (a : Z) | RSetTrust (v : Z) | RAddComfort (a : Z)
               | RAddOpenness (a : Z) | RDiscuss (t : string).
Definition rstep (r : rel) (o : rop) : rel * list revent :=
  match o with
  | RAddTrust a => add_trust r a
  | RSetTrust v => (set_trust r v, [])
  | RAddComfort a => (add_comfort r a, [])
  | RAddOpenness a => (add_openness r a, [])
  | RDiscuss t => (discuss r t, [])
  end.
Fixpoint rrun (r : rel) (ops : list rop) : rel * list (list revent) :=
  match ops with
  | [] => (r, [])
  | o :: k => let '(r1, e) := rstep r o in let '(r2, es) := rrun r1 k in (r2, e :: es)
  end.

(* to_dict / from_dict: the dict carries the five fields; from_dict goes through __init__ *)
Definition rel_to_dict (r : rel) := (rname r, trust r, comfort r, openness r, topics r).
Definition rel_from_dict (d : string * Z * Z * Z * list string) : rel :=
  let '(n, t, c, o, tp) := d in rel_new n t c o tp.

Definition quality (r : rel) : string :=
  if 80 <=? trust r then "close_confidant"
  else if 60 <=? trust r then "trusted_guide"
  else if 40 <=? trust r then "professional"
  else if 20 <=? trust r then "cautious" else "guarded".

(* ---------- dice ---------- *)
(* re.match(r"(\d+)d(\d+)([+-]\d+)?", notation.strip()) *)
Definition parse_notation (s : string) : option (N * N * Z) :=
  match take_digits (strip s) with
  | None => None
  | Some (n, r1) =>
      match r1 with
      | String "d"%char r2 =>
          match take_digits r2 with
          | None => None
          | Some (sd, r3) =>
              match r3 with
              | String "+"%char r4 =>
                  match take_digits r4 with
                  | Some (m, _) => Some (n, sd, Z.of_N m)
                  | None => Some (n, sd, 0)
                  end
              | String "-"%char r4 =>
                  match take_digits r4 with
                  | Some (m, _) => Some (n, sd, - Z.of_N m)
                  | None => Some (n, sd, 0)
                  end
              | _ => Some (n, sd, 0)
              end
          end
      | _ => None
      end
  end.

(* the draws are what random.randint(1, sides) returned, in order *)
Definition roll_total (draws : list Z) (m : Z) : Z := fold_right Z.add 0 draws + m.
