(* Executable comparison functions used by the generated cases of C20 (correspondence check). *)
From Coq Require Import ZArith List Bool String Ascii.
From Bardic Require Import PyStr Game.
Import ListNotations.
Local Open Scope list_scope.
Local Open Scope Z_scope.

Definition opt_eqb {A} (f : A -> A -> bool) (a b : option A) : bool :=
  match a, b with
  | Some x, Some y => f x y
  | None, None => true
  | _, _ => false
  end.

Fixpoint list_eqb {A} (f : A -> A -> bool) (a b : list A) : bool :=
  match a, b with
  | [], [] => true
  | x :: r, y :: s => f x y && list_eqb f r s
  | _, _ => false
  end.

Definition item_eqb (a b : item) : bool :=
  opt_eqb String.eqb (iname a) (iname b) && opt_eqb Z.eqb (iweight a) (iweight b) &&
  opt_eqb Z.eqb (ivalue a) (ivalue b) && opt_eqb String.eqb (icat a) (icat b).

Definition gobs_eqb (a b : gobs) : bool :=
  match a, b with
  | BTrue, BTrue | BFalse, BFalse | BUnit, BUnit | BValueError, BValueError => true
  | BInt x, BInt y => Z.eqb x y
  | _, _ => false
  end.

(* per step: (returned value, gold afterwards, inventory weight afterwards, discount afterwards) *)
Definition wobs := (gobs * Z * Z * Z)%type.
Definition wobs_eqb (a b : wobs) : bool :=
  let '(o1, g1, w1, d1) := a in let '(o2, g2, w2, d2) := b in
  gobs_eqb o1 o2 && Z.eqb g1 g2 && Z.eqb w1 w2 && Z.eqb d1 d2.

Fixpoint gtrace (x : world) (ops : list gop) : world * list wobs :=
  match ops with
  | [] => (x, [])
  | o :: r =>
      let '(x1, b) := gstep x o in
      let '(x2, t) := gtrace x1 r in
      (x2, (b, gold (ww x1), current_weight (wi x1), discount (ws x1)) :: t)
  end.

(* a world case: initial world, operations, what the implementation returned/showed per step,
   its final inventory items and its final shop stock *)
Definition wcase := (world * list gop * list wobs * list item * list item)%type.

Definition wcase_bad (c : wcase) : bool :=
  let '(x, ops, exp, fin_items, fin_stock) := c in
  let '(x', t) := gtrace x ops in
  negb (list_eqb wobs_eqb t exp && list_eqb item_eqb (items (wi x')) fin_items
        && list_eqb item_eqb (stock (ws x')) fin_stock).

Definition wcase_show (c : wcase) :=
  let '(x, ops, exp, fin_items, fin_stock) := c in
  let '(x', t) := gtrace x ops in (t, items (wi x'), stock (ws x')).

(* relationship case: constructor arguments, ops, per-step (events as numbers 60/80, trust, comfort,
   openness) and the final to_dict (topics sorted by the harness, compared as a set) *)
Definition ev_num (e : revent) : Z := match e with E60 => 60 | E80 => 80 end.
Definition robs := (list Z * Z * Z * Z)%type.
Definition robs_eqb (a b : robs) : bool :=
  let '(e1, t1, c1, o1) := a in let '(e2, t2, c2, o2) := b in
  list_eqb Z.eqb e1 e2 && Z.eqb t1 t2 && Z.eqb c1 c2 && Z.eqb o1 o2.

Fixpoint rtrace (r : rel) (ops : list rop) : rel * list robs :=
  match ops with
  | [] => (r, [])
  | o :: k =>
      let '(r1, e) := rstep r o in
      let '(r2, t) := rtrace r1 k in
      (r2, (map ev_num e, trust r1, comfort r1, openness r1) :: t)
  end.

Fixpoint subset (a b : list string) : bool :=
  match a with [] => true | x :: r => str_in x b && subset r b end.

Definition rcase := (string * Z * Z * Z * list string * list rop * list robs * list string * string * string)%type.
Definition rcase_bad (c : rcase) : bool :=
  let '(n, t, cf, o, tp, ops, exp, fin_topics, q, nm) := c in
  let '(r, tr) := rtrace (rel_new n t cf o tp) ops in
  negb (list_eqb robs_eqb tr exp && subset (topics r) fin_topics && subset fin_topics (topics r)
        && String.eqb (quality r) q
        && String.eqb (rname r) nm).
Definition rcase_show (c : rcase) :=
  let '(n, t, cf, o, tp, ops, exp, fin_topics, q, nm) := c in
  let '(r, tr) := rtrace (rel_new n t cf o tp) ops in (tr, topics r, quality r).

(* dice case: notation, what the implementation parsed: None (ValueError) or
   Some (number of draws, sides asked of randint (0 when there was no draw), modifier) *)
Definition dcase := (string * option (Z * Z * Z))%type.
Definition dcase_bad (c : dcase) : bool :=
  let '(s, exp) := c in
  match parse_notation s, exp with
  | None, None => false
  | Some (n, sd, m), Some (n', sd', m') =>
      negb (Z.eqb (Z.of_N n) n' && Z.eqb m m' && (N.eqb n 0 || Z.eqb (Z.of_N sd) sd'))
  | _, _ => true
  end.
Definition dcase_show (c : dcase) := parse_notation (fst c).
