(* Typed AST of the compiled story (the dict produced by bardic.compiler parse()). *)
From Coq Require Import String Ascii List Bool ZArith.
From Bardic Require Import PyStr Value.
Import ListNotations.
Local Open Scope list_scope.

Inductive token :=
| TText (v : string)
| TExpr (code : string)
| TInlineCond (cond : string) (tr fa : list token)
| TCond (branches : list branch)
| TLoop (var coll : string) (content : list token) (lchoices : list choice)
| TJump (target args : string)
| TPyStmt (code : string)
| TPyBlock (code : string)
| THook (add : bool) (event target : string)
| TRender (name args : string) (framework : option string)
| TInput (attrs : list (string * string))
| TJoinMarker (id : nat)
with branch :=
| Branch (cond : string) (content : list token) (bchoices : list choice)
with choice :=
| Choice (text : list token) (target args : string) (condition : option string)
         (sticky : bool) (section : nat) (tags : list string) (block : list token).

Definition ch_text (c : choice) := let 'Choice t _ _ _ _ _ _ _ := c in t.
Definition ch_target (c : choice) := let 'Choice _ t _ _ _ _ _ _ := c in t.
Definition ch_args (c : choice) := let 'Choice _ _ a _ _ _ _ _ := c in a.
Definition ch_cond (c : choice) := let 'Choice _ _ _ k _ _ _ _ := c in k.
Definition ch_sticky (c : choice) := let 'Choice _ _ _ _ s _ _ _ := c in s.
Definition ch_section (c : choice) := let 'Choice _ _ _ _ _ n _ _ := c in n.
Definition ch_tags (c : choice) := let 'Choice _ _ _ _ _ _ g _ := c in g.
Definition ch_block (c : choice) := let 'Choice _ _ _ _ _ _ _ b := c in b.

Record param := mkParam { pname : string; pdefault : option string }.

Record passage := mkPassage {
  pid : string;
  params : list param;
  content : list token;
  choices : list choice;
  execute : list token;                       (* TPyStmt | TPyBlock | THook *)
  ptags : list string;
  input_directives : list (list (string * string)) }.

Record story := mkStory {
  initial : string;
  passages : list (string * passage);         (* insertion-ordered dict keyed by passage id *)
  imports : list string;
  metadata : list (string * string) }.

Definition get_passage (st : story) (id : string) : option passage := lookup id (passages st).
