(* The documented source language (docs/spec.md) as an AST, and compile_ref: the compiled story the
   compiler must produce for it.  compile_ref is the executable specification of the compiler on source
   ASTs; the correspondence run prints each generated AST as .bard text, compiles it with the real compiler
   and compares the dict with compile_ref of the AST inside Coq. *)
From Coq Require Import String Ascii List Bool ZArith Arith.
From Bardic Require Import PyStr Value Compiled.
Import ListNotations.
Local Open Scope list_scope.

(* pieces of a content line / a choice text *)
Inductive piece :=
| PText (s : string)
| PExpr (code : string)                               (* {expr} or {expr:spec} *)
| PCond (cond : string) (tr fa : list piece).         (* {cond ? a | b} *)

Inductive item :=
| IText (ps : list piece) (glue : bool)               (* a content line; glue: ends with <> *)
| IBlank
| IStmt (code : string)                               (* ~ statement *)
| IPy (code : string)                                 (* @py: block *)
| IIf (branches : list (string * list item * list schoice))   (* @if/@elif/@else (cond "True") *)
| IFor (var coll : string) (body : list item) (lchoices : list schoice)
| IJump (target args : string)
| IRender (name args : string)
| IInput (attrs : list (string * string))
| IHook (add : bool) (event target : string)
| IJoin
with schoice :=
| SChoice (text : list piece) (target args : string) (cond : option string) (sticky : bool)
          (block : list item).                        (* block: only for '-> @join' choices *)

Record spassage := mkSP {
  sp_name : string;
  sp_params : list param;
  sp_body : list item;                                (* in source order; top-level choices are in sp_choices *)
  sp_choices : list (nat * schoice) }.                (* (number of @join markers before it, choice) in source order *)

Definition NL : token := TText (String "010"%char EmptyString).

Fixpoint c_piece (p : piece) : token :=
  match p with
  | PText s => TText s
  | PExpr c => TExpr c
  | PCond c tr fa => TInlineCond c (map c_piece tr) (map c_piece fa)
  end.
Definition c_pieces (ps : list piece) : list token := map c_piece ps.

(* items inside a block (branch, loop body, join-choice block): everything becomes a content token,
   choices are collected on the block *)
Fixpoint c_item (it : item) : list token :=
  let c_items := fix c_items (l : list item) : list token :=
      match l with [] => [] | x :: r => c_item x ++ c_items r end in
  let c_choice := fun (sec : nat) (c : schoice) =>
      match c with
      | SChoice tx tg ar cd stk blk => Choice (c_pieces tx) tg ar cd stk sec [] (c_items blk)
      end in
  match it with
  | IText ps glue => c_pieces ps ++ (if glue then [] else [NL])
  | IBlank => [NL]
  | IStmt c => [TPyStmt c]
  | IPy c => [TPyBlock c]
  | IIf brs =>
      [TCond ((fix go (l : list (string * list item * list schoice)) : list branch :=
                 match l with
                 | [] => []
                 | (cond, body, chs) :: r => Branch cond (c_items body) (map (c_choice 0) chs) :: go r
                 end) brs)]
  | IFor v c body chs => [TLoop v c (c_items body) (map (c_choice 0) chs)]
  | IJump t a => [TJump t a]
  | IRender n a => [TRender n a None]
  | IInput attrs => [TInput attrs]
  | IHook a e t => [THook a e t]
  | IJoin => []
  end.

Fixpoint c_items (l : list item) : list token :=
  match l with [] => [] | x :: r => c_item x ++ c_items r end.

Definition c_choice (sec : nat) (c : schoice) : choice :=
  match c with
  | SChoice tx tg ar cd stk blk => Choice (c_pieces tx) tg ar cd stk sec [] (c_items blk)
  end.

(* ---- top level of a passage ---- *)
Definition is_command (it : item) : bool :=
  match it with IStmt _ | IPy _ | IHook _ _ _ => true | _ => false end.
Definition is_input (it : item) : bool := match it with IInput _ => true | _ => false end.

(* commands are hoisted: they run when the passage is entered, in source order *)
Definition top_execute (body : list item) : list token := c_items (filter is_command body).

Fixpoint top_content_raw (body : list item) (k : nat) : list token :=
  match body with
  | [] => []
  | it :: r =>
      match it with
      | IStmt _ | IPy _ | IHook _ _ _ | IInput _ => top_content_raw r k
      | IJoin => TJoinMarker k :: top_content_raw r (S k)
      | _ => c_item it ++ top_content_raw r k
      end
  end.

Definition top_inputs (body : list item) : list (list (string * string)) :=
  flat_map (fun it => match it with IInput a => [a] | _ => [] end) body.

(* the two documented whitespace normalisations (validation.py), on the content token list *)
Definition is_nl (t : token) : bool :=
  match t with TText s => String.eqb s (String "010"%char EmptyString) | _ => false end.
Definition is_cond (t : token) : bool := match t with TCond _ => true | _ => false end.
Definition last_is (p : token -> bool) (rev_kept : list token) : bool :=
  match rev_kept with x :: _ => p x | [] => false end.

(* _cleanup_whitespace: kept tokens are accumulated in reverse *)
Fixpoint cleanup_ws (l : list token) (rev_kept : list token) : list token :=
  match l with
  | [] => rev rev_kept
  | t :: r =>
      let next_is p := match r with x :: _ => p x | [] => false end in
      if is_nl t && next_is is_cond && last_is is_nl rev_kept then cleanup_ws r rev_kept
      else if is_nl t && last_is is_cond rev_kept && next_is is_nl then cleanup_ws r rev_kept
      else cleanup_ws r (t :: rev_kept)
  end.

(* _trim_trailing_newlines: at most one trailing newline token *)
Fixpoint drop_nls (rl : list token) : list token :=
  match rl with
  | x :: r => if is_nl x then drop_nls r else rl
  | [] => []
  end.
Definition trim_trailing (l : list token) : list token :=
  let rl := rev l in
  match rl with
  | x :: _ => if is_nl x then rev (x :: drop_nls rl) else l
  | [] => l
  end.

Definition top_content (body : list item) : list token :=
  trim_trailing (cleanup_ws (top_content_raw body 0) []).

Definition compile_passage (p : spassage) : passage :=
  mkPassage (sp_name p) (sp_params p) (top_content (sp_body p))
            (map (fun sc => c_choice (fst sc) (snd sc)) (sp_choices p))
            (top_execute (sp_body p)) [] (top_inputs (sp_body p)).

Record sstory := mkSS { ss_start : option string; ss_passages : list spassage }.

Definition initial_of (s : sstory) : string :=
  match ss_start s with
  | Some n => n
  | None =>
      if existsb (fun p => String.eqb (sp_name p) "Start") (ss_passages s) then "Start"%string
      else match ss_passages s with p :: _ => sp_name p | [] => ""%string end
  end.

Definition compile_ref (s : sstory) : story :=
  mkStory (initial_of s) (map (fun p => (sp_name p, compile_passage p)) (ss_passages s)) [] [].
