(* Correspondence helpers for C01: compile_ref of a source AST against the real compiler's dict, and the
   model's play of compile_ref against the real engine's play. *)
From Coq Require Import String Ascii List Bool ZArith Arith.
From Bardic Require Import PyStr Value Compiled Engine PyMini EngineCheck Source.
Import ListNotations.
Local Open Scope list_scope.

Definition str_opt_eqb (a b : option string) : bool :=
  match a, b with Some x, Some y => String.eqb x y | None, None => true | _, _ => false end.
Definition strs_eqb := list_eqb String.eqb.
Definition attrs_eqb := list_eqb pair_eqb.

Fixpoint tok_eqb (a b : token) {struct a} : bool :=
  let toks := fix toks (x y : list token) {struct x} : bool :=
      match x, y with [], [] => true | p :: r, q :: s => tok_eqb p q && toks r s | _, _ => false end in
  let chs := fix chs (x y : list choice) {struct x} : bool :=
      match x, y with
      | [], [] => true
      | Choice t1 g1 a1 c1 s1 n1 tg1 b1 :: r, Choice t2 g2 a2 c2 s2 n2 tg2 b2 :: s =>
          toks t1 t2 && String.eqb g1 g2 && String.eqb a1 a2 && str_opt_eqb c1 c2 && Bool.eqb s1 s2 &&
          Nat.eqb n1 n2 && toks b1 b2 && chs r s
      | _, _ => false
      end in
  match a, b with
  | TText x, TText y => String.eqb x y
  | TExpr x, TExpr y => String.eqb x y
  | TInlineCond c1 t1 f1, TInlineCond c2 t2 f2 => String.eqb c1 c2 && toks t1 t2 && toks f1 f2
  | TCond b1, TCond b2 =>
      (fix brs (x y : list branch) {struct x} : bool :=
         match x, y with
         | [], [] => true
         | Branch c1 k1 h1 :: r, Branch c2 k2 h2 :: s => String.eqb c1 c2 && toks k1 k2 && chs h1 h2 && brs r s
         | _, _ => false
         end) b1 b2
  | TLoop v1 c1 k1 h1, TLoop v2 c2 k2 h2 => String.eqb v1 v2 && String.eqb c1 c2 && toks k1 k2 && chs h1 h2
  | TJump t1 a1, TJump t2 a2 => String.eqb t1 t2 && String.eqb a1 a2
  | TPyStmt x, TPyStmt y => String.eqb x y
  | TPyBlock x, TPyBlock y => String.eqb x y
  | THook a1 e1 t1, THook a2 e2 t2 => Bool.eqb a1 a2 && String.eqb e1 e2 && String.eqb t1 t2
  | TRender n1 a1 f1, TRender n2 a2 f2 => String.eqb n1 n2 && String.eqb a1 a2 && str_opt_eqb f1 f2
  | TInput a1, TInput a2 => attrs_eqb a1 a2
  | TJoinMarker i, TJoinMarker j => Nat.eqb i j
  | _, _ => false
  end.
Definition toks_eqb := list_eqb tok_eqb.
Definition ch_eqb (c d : choice) : bool :=
  toks_eqb (ch_text c) (ch_text d) && String.eqb (ch_target c) (ch_target d) && String.eqb (ch_args c) (ch_args d) &&
  str_opt_eqb (ch_cond c) (ch_cond d) && Bool.eqb (ch_sticky c) (ch_sticky d) && Nat.eqb (ch_section c) (ch_section d) &&
  toks_eqb (ch_block c) (ch_block d).
Definition prm_eqb (a b : param) : bool := String.eqb (pname a) (pname b) && str_opt_eqb (pdefault a) (pdefault b).
Definition psg_eqb (a b : passage) : bool :=
  String.eqb (pid a) (pid b) && list_eqb prm_eqb (params a) (params b) && toks_eqb (content a) (content b) &&
  list_eqb ch_eqb (choices a) (choices b) && toks_eqb (execute a) (execute b) &&
  list_eqb attrs_eqb (input_directives a) (input_directives b).
Definition sty_eqb (a b : story) : bool :=
  String.eqb (initial a) (initial b) &&
  list_eqb (fun x y => String.eqb (fst x) (fst y) && psg_eqb (snd x) (snd y)) (passages a) (passages b).

(* (source AST, what the real compiler produced for its printed text) *)
Definition ccase := (sstory * story)%type.
Definition ccase_bad (c : ccase) : bool := negb (sty_eqb (compile_ref (fst c)) (snd c)).
(* names of the passages whose compiled form differs *)
Definition ccase_show (c : ccase) : list string :=
  let a := passages (compile_ref (fst c)) in let b := passages (snd c) in
  (if String.eqb (initial (compile_ref (fst c))) (initial (snd c)) then [] else ["<initial>"%string]) ++
  (if Nat.eqb (List.length a) (List.length b) then [] else ["<passage count>"%string]) ++
  flat_map (fun x => match lookup (fst x) b with
                     | Some p => if psg_eqb (snd x) p then [] else [fst x]
                     | None => [fst x]
                     end) a.

(* a finer report for the replay file: per differing passage, the field and the first differing token pair *)
Fixpoint tok_first_diff (a b : list token) (i : nat) : option (nat * option token * option token) :=
  match a, b with
  | [], [] => None
  | x :: r, y :: s => if tok_eqb x y then tok_first_diff r s (S i) else Some (i, Some x, Some y)
  | x :: _, [] => Some (i, Some x, None)
  | [], y :: _ => Some (i, None, Some y)
  end.
Definition psg_detail (a b : passage) :=
  ((if list_eqb prm_eqb (params a) (params b) then [] else ["params"%string]) ++
   (if list_eqb ch_eqb (choices a) (choices b) then [] else ["choices"%string]) ++
   (if list_eqb attrs_eqb (input_directives a) (input_directives b) then [] else ["inputs"%string]),
   tok_first_diff (content a) (content b) 0, tok_first_diff (execute a) (execute b) 0).
Definition ccase_detail (c : ccase) :=
  let a := passages (compile_ref (fst c)) in let b := passages (snd c) in
  flat_map (fun x => match lookup (fst x) b with
                     | Some p => if psg_eqb (snd x) p then [] else [(fst x, psg_detail (snd x) p)]
                     | None => []
                     end) a.

(* (source AST, code tables, operations, what the real engine did on the really compiled story) *)
Definition pcase := (sstory * tables * list op * list (obs * view))%type.
Definition pcase_model (c : pcase) : list (obs * view) :=
  let '(s, tb, ops, _) := c in run_all (mini_orc tb) [] (compile_ref s) [] ops.
Definition pcase_bad (c : pcase) : bool :=
  let '(_, _, _, exp) := c in negb (list_eqb step_eqb (pcase_model c) exp).
Definition pcase_show (c : pcase) :=
  let '(_, _, _, exp) := c in
  let m := pcase_model c in
  match first_diff m exp 0 with
  | Some i => (Some i, match nth_error m i, nth_error exp i with Some a, Some b => diff_fields a b | _, _ => ["length"%string] end)
  | None => (None, [])
  end.
