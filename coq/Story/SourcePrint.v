(* The .bard printer for source ASTs (Story/Source.v), in Gallina.

   Mirrors harness/c01.py  print_pieces / print_choice / print_item / print_story  function by function:
   same line shapes, block bodies indented by 4 spaces (an empty line of an @if / @for body stays empty;
   every line of a choice's block and every choice line inside a block gets the 4 spaces), no blank separator
   between passages.  print_story returns the LINES; the Python printer returns "\n".join of the same lines,
   and the parser model takes source.split("\n"), which is that list again when no line contains "\n".
   The correspondence run (harness/c01.py, pass `tcase`) compares print_story of every generated AST with the
   Python printer's lines for the same AST inside Coq (print_case_bad below).

   Also here: `printable pp is_call s`, the executable well-formedness predicate under which
   Proofs/SourcePrintProofs.v proves  parse_real pp is_call (print_story s) = POk (compile_ref s)  (Props/C01.v).
   It is a conjunction of
     * conditions on the atoms of the AST (characters that may not occur, first characters, trimmed strings);
     * conditions on the printed lines (line_ok: no `/`, `^`, newline, no trailing white space);
     * three conditions stated through validators of the parser model itself, each applied
       to one printed fragment: validate_choice_syntax on the printed choice line (a pure validator), and
       validate_passage_arguments and _determine_initial_passage on compile_ref s (the two post passes of the compiler,
       with the oracles pp / is_call for Python's own parser); py_stmt_ok pp on every ~ statement.
   Every generated AST of harness/c01.py satisfies it (counted on every run: ast_not_printable). *)
From Coq Require Import String Ascii List Bool Arith.
From Bardic Require Import PyStr Value Compiled Source Lex ParseBase ParseLine ParseMain.
Import ListNotations.
Local Open Scope string_scope.
Local Open Scope list_scope.

(* ------------------------------------------------------------------------------------------- *)
(* the printer                                                                                  *)
(* ------------------------------------------------------------------------------------------- *)

Definition nlc : ascii := ascii_of_nat 10.

(* print_pieces *)
Fixpoint print_piece (p : piece) : string :=
  match p with
  | PText s => s
  | PExpr c => ("{" ++ c ++ "}")%string
  | PCond c tr fa =>
      ("{" ++ c ++ " ? " ++ concat_all (map print_piece tr) ++ " | " ++ concat_all (map print_piece fa) ++ "}")%string
  end.
Definition print_pieces (ps : list piece) : string := concat_all (map print_piece ps).

Definition ind4 : string := "    ".
(* "    " + l if l else l *)
Definition indent_nonempty (l : string) : string := match l with EmptyString => l | _ => (ind4 ++ l)%string end.
(* "    " + l *)
Definition indent_always (l : string) : string := (ind4 ++ l)%string.

(* f"({args})" if args else "" *)
Definition print_args (args : string) : string :=
  match args with EmptyString => "" | _ => ("(" ++ args ++ ")")%string end.

(* the first line of print_choice; `if cond` is Python truthiness: None and "" print nothing *)
Definition choice_line (tx : list piece) (tg ar : string) (cd : option string) (stk : bool) : string :=
  ((if stk then "+" else "*") ++ " " ++
   (match cd with
    | Some c => match c with EmptyString => "" | _ => "{" ++ c ++ "} " end
    | None => ""
    end) ++ "[" ++ print_pieces tx ++ "] -> " ++ tg ++ print_args ar)%string.

(* header line of the i-th branch: first = (i == 0) *)
Definition if_header (first : bool) (cond : string) : string :=
  if negb first && String.eqb cond "True" then "@else:"
  else ((if first then "@if " else "@elif ") ++ cond ++ ":")%string.

Definition input_name (attrs : list (string * string)) : string :=
  match lookup "name" attrs with Some n => n | None => "" end.

Fixpoint print_item (it : item) : list string :=
  let items := fix items (l : list item) : list string :=
      match l with [] => [] | x :: r => print_item x ++ items r end in
  let choice := fun (c : schoice) =>
      match c with
      | SChoice tx tg ar cd stk blk => choice_line tx tg ar cd stk :: map indent_always (items blk)
      end in
  let choices := fix choices (l : list schoice) : list string :=
      match l with [] => [] | c :: r => choice c ++ choices r end in
  match it with
  | IText ps glue => [(print_pieces ps ++ (if glue then "<>" else ""))%string]
  | IBlank => [""]
  | IStmt c => [("~ " ++ c)%string]
  | IPy c => ["@py:"] ++ split_char c nlc ++ ["@endpy"]
  | IIf brs =>
      (fix go (l : list (string * list item * list schoice)) (first : bool) : list string :=
         match l with
         | [] => []
         | (cond, body, chs) :: r =>
             if_header first cond :: map indent_nonempty (items body) ++ map indent_always (choices chs)
                                  ++ go r false
         end) brs true ++ ["@endif"]
  | IFor v c body chs =>
      ("@for " ++ v ++ " in " ++ c ++ ":")%string :: map indent_nonempty (items body) ++ map indent_always (choices chs)
                                           ++ ["@endfor"]
  | IJump t a => [("-> " ++ t ++ print_args a)%string]
  | IRender n a => [("@render " ++ n ++ "(" ++ a ++ ")")%string]
  | IInput attrs => [("@input name=" ++ String dquote (input_name attrs ++ String dquote ""))%string]
  | IHook a e t => [((if a then "@hook " else "@unhook ") ++ e ++ " " ++ t)%string]
  | IJoin => ["@join"]
  end.

Fixpoint print_items (l : list item) : list string :=
  match l with [] => [] | x :: r => print_item x ++ print_items r end.

Definition print_choice (c : schoice) : list string :=
  match c with
  | SChoice tx tg ar cd stk blk => choice_line tx tg ar cd stk :: map indent_always (print_items blk)
  end.

Fixpoint print_choices (l : list schoice) : list string :=
  match l with [] => [] | c :: r => print_choice c ++ print_choices r end.

Fixpoint print_branches (l : list (string * list item * list schoice)) (first : bool) : list string :=
  match l with
  | [] => []
  | (cond, body, chs) :: r =>
      if_header first cond :: map indent_nonempty (print_items body) ++ map indent_always (print_choices chs)
                           ++ print_branches r false
  end.

(* p if d is None else f"{p}={d}" *)
Definition print_param (p : param) : string :=
  match pdefault p with None => pname p | Some d => (pname p ++ "=" ++ d)%string end.

Definition print_header (name : string) (ps : list param) : string :=
  (":: " ++ name ++ match ps with [] => "" | _ => "(" ++ join ", " (map print_param ps) ++ ")" end)%string.

Definition in_section (sec : nat) (x : nat * schoice) : bool := Nat.eqb (fst x) sec.

(* the loop `for it in body` of print_story with its `sec` / `pending`, then the remaining choices *)
Fixpoint print_body (body : list item) (sec : nat) (pending : list (nat * schoice)) : list string :=
  match body with
  | [] => print_choices (map snd pending)
  | it :: r =>
      match it with
      | IJoin =>
          print_choices (map snd (filter (in_section sec) pending)) ++ print_item it ++
          print_body r (S sec) (filter (fun x => negb (in_section sec x)) pending)
      | _ => print_item it ++ print_body r sec pending
      end
  end.

Definition print_passage (p : spassage) : list string :=
  print_header (sp_name p) (sp_params p) :: print_body (sp_body p) 0 (sp_choices p).

Fixpoint print_passages (l : list spassage) : list string :=
  match l with [] => [] | p :: r => print_passage p ++ print_passages r end.

(* the lines of the Python printer's text ("@start" is not printed: the generated ASTs have ss_start = None) *)
Definition print_story (s : sstory) : list string := print_passages (ss_passages s).

(* ---- the tie: (source AST, the Python printer's text for it split at "\n") ---- *)
Fixpoint strs_eqb (a b : list string) : bool :=
  match a, b with
  | [], [] => true
  | x :: r, y :: s => String.eqb x y && strs_eqb r s
  | _, _ => false
  end.
Definition tcase := (sstory * list string)%type.
Definition print_case_bad (c : tcase) : bool := negb (strs_eqb (print_story (fst c)) (snd c)).
(* index and the two versions of the first differing line *)
Fixpoint first_line_diff (a b : list string) (i : nat) : option (nat * option string * option string) :=
  match a, b with
  | [], [] => None
  | x :: r, y :: s => if String.eqb x y then first_line_diff r s (S i) else Some (i, Some x, Some y)
  | x :: _, [] => Some (i, Some x, None)
  | [], y :: _ => Some (i, None, Some y)
  end.
Definition print_case_show (c : tcase) := first_line_diff (print_story (fst c)) (snd c) 0.

(* ------------------------------------------------------------------------------------------- *)
(* printable: the well-formedness predicate of Proofs/SourcePrintProofs.v                       *)
(* ------------------------------------------------------------------------------------------- *)

(* no printed line contains `/` (comment scanner), `^` (tags) or a newline, or ends with white space *)
Definition okc (c : ascii) : bool := negb (ch c "/" || ch c "^" || ch c nlc).
Definition clean (s : string) : bool := all_chars okc s.
Definition line_ok (l : string) : bool := clean l && String.eqb (rstrip l) l.

Definition trimmed (s : string) : bool := String.eqb (strip s) s.

(* pieces of a content line *)
Definition not_brace (c : ascii) : bool := negb (ch c "{" || ch c "}").
(* literal text: no braces; inside a branch of an inline conditional also no `|` *)
Definition text_char (inner : bool) (c : ascii) : bool := not_brace c && negb (inner && ch c "|").
Definition text_ok (inner : bool) (s : string) : bool := nonempty s && all_chars (text_char inner) s.
(* code of {expr} and the condition of {c ? a | b}: no braces, no `?` *)
Definition code_char (c : ascii) : bool := not_brace c && negb (ch c "?").
Definition code_ok (c : string) : bool := all_chars code_char c.
Definition cond_ok (c : string) : bool := all_chars code_char c && trimmed c.

Definition is_text (p : piece) : bool := match p with PText _ => true | _ => false end.
(* the tokenizer produces one text token for adjacent literal text *)
Fixpoint no_adj (ps : list piece) : bool :=
  match ps with
  | p :: r => match r with q :: _ => negb (is_text p && is_text q) | [] => true end && no_adj r
  | [] => true
  end.

Fixpoint piece_ok (inner : bool) (p : piece) : bool :=
  match p with
  | PText s => text_ok inner s
  | PExpr c => code_ok c
  | PCond c tr fa =>
      cond_ok c && forallb (piece_ok true) tr && no_adj tr && trimmed (concat_all (map print_piece tr))
                && forallb (piece_ok true) fa && no_adj fa && trimmed (concat_all (map print_piece fa))
  end.
Definition pieces_ok (inner : bool) (ps : list piece) : bool := forallb (piece_ok inner) ps && no_adj ps.

(* nesting of inline conditionals (the compiler stops at MAX_INLINE_DEPTH = 50) *)
Fixpoint nest_piece (p : piece) : nat :=
  match p with
  | PCond _ tr fa => S (Nat.max (list_max (map nest_piece tr)) (list_max (map nest_piece fa)))
  | _ => 0
  end.
Definition nest (ps : list piece) : nat := list_max (map nest_piece ps).

(* ---- lines ---- *)
(* the first character of a text line must not make the line something else: white space, `#` comment,
   `@` directive, `<<` legacy block, `->` jump, `~` statement, `+` / `*` choice, `::` header *)
Definition bad_start (c : ascii) : bool :=
  is_space c || ch c "#" || ch c "@" || ch c "<" || ch c "-" || ch c "~" || ch c "+" || ch c "*" || ch c ":".
Definition plain_start (s : string) : bool :=
  match s with String c _ => negb (bad_start c) | EmptyString => false end.

Definition text_line_ok (ps : list piece) (glue : bool) : bool :=
  pieces_ok false ps && Nat.leb (nest ps) max_inline_depth && plain_start (print_pieces ps) &&
  (glue || negb (endswith (print_pieces ps) "<>")).

(* `~ code`: one line (no bracket left open at its end), accepted by Python's parser *)
Definition ends_opener (s : string) : bool := endswith s "[" || endswith s "{" || endswith s "(".
Definition stmt_ok (pp : pyparse) (c : string) : bool :=
  nonempty c && trimmed c && negb (ends_opener c) && py_stmt_ok pp c.

Definition paren_free (s : string) : bool := all_chars (fun c => negb (ch c "(" || ch c ")")) s.
Definition word_ok (s : string) : bool := nonempty s && all_chars (fun c => negb (is_space c)) s.
Definition render_ok (n a : string) : bool := nonempty n && all_chars is_word n && trimmed a.
Definition input_ok (attrs : list (string * string)) : bool :=
  match attrs with
  | [(k1, nm); (k2, lb); (k3, ph)] =>
      String.eqb k1 "name" && String.eqb k2 "label" && String.eqb k3 "placeholder" &&
      String.eqb lb (title (replace_char nm "_" " ")) && String.eqb ph "" &&
      all_chars (fun c => negb (ch c dquote)) nm
  | _ => false
  end.

(* choice line; blk_ok says what the block may be *)
Definition choice_head_ok (tx : list piece) (tg ar : string) (cd : option string) (stk : bool) : bool :=
  pieces_ok false tx && Nat.leb (nest tx) max_inline_depth &&
  all_chars (fun c => negb (ch c "]")) (print_pieces tx) &&
  match cd with None => true | Some k => nonempty k && all_chars (fun c => negb (ch c "}")) k end &&
  (valid_passage_pattern tg || String.eqb tg "@join") && paren_free ar &&
  is_ok (validate_choice_syntax (choice_line tx tg ar cd stk) 0).

(* items of the block of a `-> @join` choice: text lines (no glue), ~ statements, hooks *)
Definition join_item_ok (it : item) : bool :=
  match it with
  | IText ps glue => negb glue && text_line_ok ps false
  | IStmt c => nonempty c && trimmed c
  | IHook _ e t => word_ok e && word_ok t
  | _ => false
  end.

(* a choice inside an @if / @for block has no block of its own *)
Definition inner_choice_ok (c : schoice) : bool :=
  match c with
  | SChoice tx tg ar cd stk blk => choice_head_ok tx tg ar cd stk && match blk with [] => true | _ => false end
  end.

(* a top-level choice: a block only under `-> @join` *)
Definition top_choice_ok (c : schoice) : bool :=
  match c with
  | SChoice tx tg ar cd stk blk =>
      choice_head_ok tx tg ar cd stk &&
      (if String.eqb tg "@join" then forallb join_item_ok blk else match blk with [] => true | _ => false end)
  end.

(* the lines of an @py: body as written: none is white space only, the first non-empty one starts at column 0,
   none closes the block or looks like a comment / directive line (inside an @for body the loop extractor
   looks at every line before the Python extractor does) *)
Definition py_line_ok (l : string) : bool :=
  (negb (nonempty l) || negb (all_space l)) && negb (String.eqb (strip l) "@endpy") &&
  negb (startswith (strip l) "#") && negb (startswith (strip l) "@") && negb (startswith (strip l) "<").
Definition py_ok (c : string) : bool :=
  let ls := split_char c nlc in
  forallb py_line_ok ls && match base_indent ls with Some 0 => true | None => true | _ => false end.

Definition cond_header_ok (c : string) : bool := nonempty c && trimmed c.

(* nesting of @if / @for blocks (the compiler stops at MAX_BLOCK_DEPTH = 100) *)
Fixpoint block_height (it : item) : nat :=
  match it with
  | IIf brs => S (list_max (map (fun b => match b with (_, body, _) => list_max (map block_height body) end) brs))
  | IFor _ _ body _ => S (list_max (map block_height body))
  | _ => 0
  end.

Section ItemOk.
Variable pp : pyparse.

Fixpoint item_ok (top : bool) (it : item) : bool :=
  match it with
  | IText ps glue => text_line_ok ps glue
  | IBlank => true
  | IStmt c => stmt_ok pp c
  | IPy c => py_ok c
  | IIf brs =>
      match brs with [] => false | _ => true end &&
      forallb (fun b => match b with
                        | (cond, body, chs) =>
                            cond_header_ok cond && forallb (item_ok false) body && forallb inner_choice_ok chs
                        end) brs
  | IFor v c body chs =>
      word_ok v && cond_header_ok c && forallb (item_ok false) body && forallb inner_choice_ok chs
  | IJump t a => valid_passage_pattern t && paren_free a
  | IRender n a => render_ok n a
  | IInput attrs => input_ok attrs
  | IHook _ e t => word_ok e && word_ok t
  | IJoin => top
  end.
End ItemOk.

(* ---- passages ---- *)
(* the choices of section `sec` come first among the pending ones *)
Fixpoint span_sec (sec : nat) (l : list (nat * schoice)) : list (nat * schoice) * list (nat * schoice) :=
  match l with
  | x :: r => if in_section sec x then let (a, b) := span_sec sec r in (x :: a, b) else ([], l)
  | [] => ([], [])
  end.

(* the section numbers of sp_choices are the ones the printer's placement gives them: non-decreasing, the
   choices of section k stand before the (k+1)-th @join marker, the last section is the number of markers *)
Fixpoint sections_ok (body : list item) (sec : nat) (pending : list (nat * schoice)) : bool :=
  match body with
  | [] => forallb (in_section sec) pending
  | it :: r =>
      match it with
      | IJoin =>
          let (_, b) := span_sec sec pending in
          forallb (fun x => negb (in_section sec x)) b && sections_ok r (S sec) b
      | _ => sections_ok r sec pending
      end
  end.

Fixpoint names_nodup (l : list string) : bool :=
  match l with [] => true | x :: r => negb (str_in x r) && names_nodup r end.

(* the header `:: name(params)`: a valid passage name; parameters: identifiers that are not keywords and not the
   reserved positional markers arg_<digits> (fix F07d), all different, required ones before optional ones; a default is trimmed and has no comma and no bracket of any kind *)
Definition default_ok (d : string) : bool :=
  trimmed d && all_chars (fun c => negb (ch c "," || is_opener c || is_closer c)) d.
Definition param_ok (p : param) : bool :=
  is_identifier (pname p) && negb (is_keyword (pname p)) && negb (is_positional_marker (pname p)) &&
  match pdefault p with None => true | Some d => default_ok d end.
Fixpoint required_first (ps : list param) (seen : bool) : bool :=
  match ps with
  | [] => true
  | p :: r => match pdefault p with
              | None => negb seen && required_first r seen
              | Some _ => required_first r true
              end
  end.
Definition params_ok (ps : list param) : bool :=
  forallb param_ok ps && names_nodup (map pname ps) && required_first ps false.
Definition header_ok (name : string) (ps : list param) : bool :=
  valid_passage_pattern name && params_ok ps.

Section Printable.
Variable pp : pyparse.
Variable is_call : string -> bool.

Definition passage_ok (p : spassage) : bool :=
  header_ok (sp_name p) (sp_params p) &&
  forallb (item_ok pp true) (sp_body p) && forallb (fun it => Nat.leb (block_height it) 100) (sp_body p) &&
  forallb (fun x => top_choice_ok (snd x)) (sp_choices p) &&
  sections_ok (sp_body p) 0 (sp_choices p).

Definition printable (s : sstory) : bool :=
  match ss_start s with None => true | Some _ => false end &&
  forallb passage_ok (ss_passages s) &&
  names_nodup (map sp_name (ss_passages s)) &&
  forallb line_ok (print_story s) &&
  is_ok (validate_passage_arguments pp is_call (passages (compile_ref s))) &&
  is_ok (determine_initial_passage (passages (compile_ref s)) None).
End Printable.
