(* C12 / C01 - the compiled story as JSON data.

   bardic/compiler/parsing/core.py `parse()` returns a dict; bardic/compiler/compiler.py writes it with
   `json.dump(story, f, indent=2)`; BardEngine reads it back with json.load.  Story/Compiled.v is the
   typed view of that dict the ENGINE uses; it forgets what the engine never reads.  The real dict
   carries more than that view:
     - "version": "0.1.0" at the top level;
     - "tags" on text / expression / inline_conditional tokens (only when the line had ^tags);
     - "choices" on a conditional branch / for_loop only when a choice was parsed inside it;
     - on a choice: "section" only for passage-level choices, "block_content" / "block_execute" only when
       the @join block produced some (two independent `if`s in core.py);
     - on a passage, after "tags": "current_section", "_join_count", "input_directives", each optional, in
       the order in which the parser first assigned them;
     - an @input dict keeps its attributes in source order ("label" added last when it was defaulted).
   So the dict is described here by its own typed AST (`jstory`, `jpassage`, `jtoken`, ...), which
   records exactly these things, with
       jstory_to_json : jstory -> json          the dict, key for key in insertion order
       jstory_of_json : json -> option jstory   the strict reader (a schema check: any other member,
                                                any other order, any other value type is None)
       forget : jstory -> story                 what BardEngine reads of it (mirror of harness/story2coq.py)
       embed  : story -> jstory                 the dict with none of the optional members the engine ignores
   and, for Story/Compiled.v stories,
       story_to_json st = jstory_to_json (embed st)
       story_of_json j  = option_map forget (jstory_of_json j).
   Domain: JSON trees of Codec/Codec.v (no floats - the compiler produces none; strings are byte
   strings, the harness states what it does with characters >= 128).
   Proofs: Proofs/StoryJsonProofs.v. *)
From Coq Require Import String Ascii List Bool ZArith.
From Bardic Require Import PyStr Value Compiled Codec.
Import ListNotations.
Local Open Scope list_scope.
Local Open Scope string_scope.

(* ---------------------------------------------------------------------------------------- *)
(* the typed AST of the real dict *)

Inductive jtoken :=
| JTText (v : string) (tags : option (list string))
| JTExpr (code : string) (tags : option (list string))
| JTInlineCond (cond : string) (tr fa : list jtoken) (tags : option (list string))
| JTCond (branches : list jbranch)
| JTLoop (var coll : string) (content : list jtoken) (lchoices : option (list jchoice))
| JTJump (target args : string)
| JTPyStmt (code : string)
| JTPyBlock (code : string)
| JTHook (action event target : string)
| JTRender (name args : string) (framework : option string)
| JTInput (attrs : list (string * string))            (* the members after "type": "input" *)
| JTJoinMarker (id : nat)
with jbranch :=
| JBranch (cond : string) (content : list jtoken) (bchoices : option (list jchoice))
with jchoice :=
| JChoice (text : list jtoken) (target args : string) (condition : option string) (sticky : bool)
          (tags : list string) (section : option nat)
          (block : option (list jtoken)) (block_exec : option (list jtoken)).

Inductive pextra :=
| PXSection (n : nat)                                  (* "current_section" *)
| PXJoinCount (n : nat)                                (* "_join_count" *)
| PXInputs (l : list (list (string * string))).        (* "input_directives" *)

Record jpassage := mkJPassage {
  jp_id : string;
  jp_params : list param;
  jp_content : list jtoken;
  jp_choices : list jchoice;
  jp_execute : list jtoken;
  jp_tags : list string;
  jp_extras : list pextra }.

Record jstory := mkJStory {
  js_version : string;
  js_initial : option string;                          (* None = null (no passage at all) *)
  js_metadata : list (string * string);
  js_imports : list string;
  js_passages : list (string * jpassage) }.

(* ---------------------------------------------------------------------------------------- *)
(* writer *)

Definition jstrs (l : list string) : json := JList (map JStr l).
Definition jnat (n : nat) : json := JInt (Z.of_nat n).
Definition jopt_str (o : option string) : json := match o with Some s => JStr s | None => JNull end.
Definition opt_member {A} (k : string) (f : A -> json) (o : option A) : list (string * json) :=
  match o with Some a => [(k, f a)] | None => [] end.
Definition str_members (l : list (string * string)) : list (string * json) :=
  map (fun kv => (fst kv, JStr (snd kv))) l.
Definition input_to_json (attrs : list (string * string)) : json :=
  JObj (("type", JStr "input") :: str_members attrs).

Fixpoint tok_to_json (t : jtoken) : json :=
  match t with
  | JTText v tg =>
      JObj ([("type", JStr "text"); ("value", JStr v)] ++ opt_member "tags" jstrs tg)
  | JTExpr c tg =>
      JObj ([("type", JStr "expression"); ("code", JStr c)] ++ opt_member "tags" jstrs tg)
  | JTInlineCond c tr fa tg =>
      JObj ([("type", JStr "inline_conditional"); ("condition", JStr c);
             ("truthy", JList (map tok_to_json tr)); ("falsy", JList (map tok_to_json fa))]
            ++ opt_member "tags" jstrs tg)
  | JTCond brs =>
      JObj [("type", JStr "conditional"); ("branches", JList (map br_to_json brs))]
  | JTLoop v c cont chs =>
      JObj ([("type", JStr "for_loop"); ("variable", JStr v); ("collection", JStr c);
             ("content", JList (map tok_to_json cont))]
            ++ match chs with Some l => [("choices", JList (map ch_to_json l))] | None => [] end)
  | JTJump t a => JObj [("type", JStr "jump"); ("target", JStr t); ("args", JStr a)]
  | JTPyStmt c => JObj [("type", JStr "python_statement"); ("code", JStr c)]
  | JTPyBlock c => JObj [("type", JStr "python_block"); ("code", JStr c)]
  | JTHook a e t => JObj [("type", JStr "hook"); ("action", JStr a); ("event", JStr e); ("target", JStr t)]
  | JTRender n a fw =>
      JObj [("type", JStr "render_directive"); ("name", JStr n); ("args", JStr a);
            ("framework_hint", jopt_str fw)]
  | JTInput attrs => input_to_json attrs
  | JTJoinMarker i => JObj [("type", JStr "join_marker"); ("id", jnat i)]
  end
with br_to_json (b : jbranch) : json :=
  match b with
  | JBranch c cont chs =>
      JObj ([("condition", JStr c); ("content", JList (map tok_to_json cont))]
            ++ match chs with Some l => [("choices", JList (map ch_to_json l))] | None => [] end)
  end
with ch_to_json (c : jchoice) : json :=
  match c with
  | JChoice tx tg ar cd sk tags sec blk bex =>
      JObj ([("text", JList (map tok_to_json tx)); ("target", JStr tg); ("args", JStr ar);
             ("condition", jopt_str cd); ("sticky", JBool sk); ("tags", jstrs tags)]
            ++ opt_member "section" jnat sec
            ++ match blk with Some l => [("block_content", JList (map tok_to_json l))] | None => [] end
            ++ match bex with Some l => [("block_execute", JList (map tok_to_json l))] | None => [] end)
  end.

Definition param_to_json (p : param) : json :=
  JObj [("name", JStr (pname p)); ("default", jopt_str (pdefault p))].

Definition pextra_to_member (x : pextra) : string * json :=
  match x with
  | PXSection n => ("current_section", jnat n)
  | PXJoinCount n => ("_join_count", jnat n)
  | PXInputs l => ("input_directives", JList (map input_to_json l))
  end.

Definition passage_to_json (p : jpassage) : json :=
  JObj ([("id", JStr (jp_id p)); ("params", JList (map param_to_json (jp_params p)));
         ("content", JList (map tok_to_json (jp_content p)));
         ("choices", JList (map ch_to_json (jp_choices p)));
         ("execute", JList (map tok_to_json (jp_execute p)));
         ("tags", jstrs (jp_tags p))]
        ++ map pextra_to_member (jp_extras p)).

Definition jstory_to_json (s : jstory) : json :=
  JObj [("version", JStr (js_version s)); ("initial_passage", jopt_str (js_initial s));
        ("metadata", JObj (str_members (js_metadata s)));
        ("imports", jstrs (js_imports s));
        ("passages", JObj (map (fun kp => (fst kp, passage_to_json (snd kp))) (js_passages s)))].

(* ---------------------------------------------------------------------------------------- *)
(* strict reader: members are consumed from the front, in order; continuation style, so that the
   values handed on are still sub-terms of the tree for the recursive calls *)

Section Read.
Context {A : Type}.
Definition members := list (string * json).

Definition rd_str (k : string) (o : members) (cont : string -> members -> option A) : option A :=
  match o with
  | (k', JStr s) :: r => if String.eqb k' k then cont s r else None
  | _ => None
  end.
Definition rd_optstr (k : string) (o : members) (cont : option string -> members -> option A) : option A :=
  match o with
  | (k', JStr s) :: r => if String.eqb k' k then cont (Some s) r else None
  | (k', JNull) :: r => if String.eqb k' k then cont None r else None
  | _ => None
  end.
Definition rd_bool (k : string) (o : members) (cont : bool -> members -> option A) : option A :=
  match o with
  | (k', JBool b) :: r => if String.eqb k' k then cont b r else None
  | _ => None
  end.
Definition rd_nat (k : string) (o : members) (cont : nat -> members -> option A) : option A :=
  match o with
  | (k', JInt z) :: r => if String.eqb k' k && (0 <=? z)%Z then cont (Z.to_nat z) r else None
  | _ => None
  end.
Definition rd_list (k : string) (o : members) (cont : list json -> members -> option A) : option A :=
  match o with
  | (k', JList l) :: r => if String.eqb k' k then cont l r else None
  | _ => None
  end.
Definition rd_obj (k : string) (o : members) (cont : members -> members -> option A) : option A :=
  match o with
  | (k', JObj m) :: r => if String.eqb k' k then cont m r else None
  | _ => None
  end.
(* optional members: present exactly when the next key is k *)
Definition rd_opt_nat (k : string) (o : members) (cont : option nat -> members -> option A) : option A :=
  match o with
  | (k', JInt z) :: r => if String.eqb k' k && (0 <=? z)%Z then cont (Some (Z.to_nat z)) r else cont None o
  | _ => cont None o
  end.
Definition rd_opt_list (k : string) (o : members) (cont : option (list json) -> members -> option A) : option A :=
  match o with
  | (k', JList l) :: r => if String.eqb k' k then cont (Some l) r else cont None o
  | _ => cont None o
  end.
Definition rd_end (o : members) (a : A) : option A :=
  match o with [] => Some a | _ => None end.
End Read.

Definition str_of_json (j : json) : option string := match j with JStr s => Some s | _ => None end.
Definition strs_of_json (l : list json) : option (list string) := mapM str_of_json l.

(* "tags": [...] of strings, optional *)
Definition rd_opt_strs {A} (k : string) (o : members) (cont : option (list string) -> members -> option A) : option A :=
  rd_opt_list k o (fun ol r =>
    match ol with
    | None => cont None r
    | Some l => match strs_of_json l with Some ss => cont (Some ss) r | None => None end
    end).
Definition rd_strs {A} (k : string) (o : members) (cont : list string -> members -> option A) : option A :=
  rd_list k o (fun l r => match strs_of_json l with Some ss => cont ss r | None => None end).

(* every member a string: the attributes of an @input, the metadata *)
Fixpoint str_members_of (o : members) : option (list (string * string)) :=
  match o with
  | [] => Some []
  | (k, JStr s) :: r => option_map (cons (k, s)) (str_members_of r)
  | _ => None
  end.

Definition input_of_json (j : json) : option (list (string * string)) :=
  match j with
  | JObj o => rd_str "type" o (fun ty r => if String.eqb ty "input" then str_members_of r else None)
  | _ => None
  end.

Fixpoint tok_of_json (j : json) {struct j} : option jtoken :=
  match j with
  | JObj o =>
      rd_str "type" o (fun ty o1 =>
        if String.eqb ty "text" then
          rd_str "value" o1 (fun v o2 => rd_opt_strs "tags" o2 (fun tg o3 => rd_end o3 (JTText v tg)))
        else if String.eqb ty "expression" then
          rd_str "code" o1 (fun c o2 => rd_opt_strs "tags" o2 (fun tg o3 => rd_end o3 (JTExpr c tg)))
        else if String.eqb ty "inline_conditional" then
          rd_str "condition" o1 (fun c o2 =>
          rd_list "truthy" o2 (fun tr o3 =>
          rd_list "falsy" o3 (fun fa o4 =>
          rd_opt_strs "tags" o4 (fun tg o5 =>
            match mapM tok_of_json tr, mapM tok_of_json fa with
            | Some tr', Some fa' => rd_end o5 (JTInlineCond c tr' fa' tg)
            | _, _ => None
            end))))
        else if String.eqb ty "conditional" then
          rd_list "branches" o1 (fun brs o2 =>
            match mapM br_of_json brs with
            | Some brs' => rd_end o2 (JTCond brs')
            | None => None
            end)
        else if String.eqb ty "for_loop" then
          rd_str "variable" o1 (fun v o2 =>
          rd_str "collection" o2 (fun c o3 =>
          rd_list "content" o3 (fun cont o4 =>
          rd_opt_list "choices" o4 (fun chs o5 =>
            match mapM tok_of_json cont with
            | Some cont' =>
                match chs with
                | None => rd_end o5 (JTLoop v c cont' None)
                | Some l => match mapM ch_of_json l with
                            | Some l' => rd_end o5 (JTLoop v c cont' (Some l'))
                            | None => None
                            end
                end
            | None => None
            end))))
        else if String.eqb ty "jump" then
          rd_str "target" o1 (fun t o2 => rd_str "args" o2 (fun a o3 => rd_end o3 (JTJump t a)))
        else if String.eqb ty "python_statement" then
          rd_str "code" o1 (fun c o2 => rd_end o2 (JTPyStmt c))
        else if String.eqb ty "python_block" then
          rd_str "code" o1 (fun c o2 => rd_end o2 (JTPyBlock c))
        else if String.eqb ty "hook" then
          rd_str "action" o1 (fun a o2 => rd_str "event" o2 (fun e o3 => rd_str "target" o3 (fun t o4 =>
            rd_end o4 (JTHook a e t))))
        else if String.eqb ty "render_directive" then
          rd_str "name" o1 (fun n o2 => rd_str "args" o2 (fun a o3 => rd_optstr "framework_hint" o3 (fun fw o4 =>
            rd_end o4 (JTRender n a fw))))
        else if String.eqb ty "input" then
          option_map JTInput (str_members_of o1)
        else if String.eqb ty "join_marker" then
          rd_nat "id" o1 (fun i o2 => rd_end o2 (JTJoinMarker i))
        else None)
  | _ => None
  end
with br_of_json (j : json) {struct j} : option jbranch :=
  match j with
  | JObj o =>
      rd_str "condition" o (fun c o1 =>
      rd_list "content" o1 (fun cont o2 =>
      rd_opt_list "choices" o2 (fun chs o3 =>
        match mapM tok_of_json cont with
        | Some cont' =>
            match chs with
            | None => rd_end o3 (JBranch c cont' None)
            | Some l => match mapM ch_of_json l with
                        | Some l' => rd_end o3 (JBranch c cont' (Some l'))
                        | None => None
                        end
            end
        | None => None
        end)))
  | _ => None
  end
with ch_of_json (j : json) {struct j} : option jchoice :=
  match j with
  | JObj o =>
      rd_list "text" o (fun tx o1 =>
      rd_str "target" o1 (fun tg o2 =>
      rd_str "args" o2 (fun ar o3 =>
      rd_optstr "condition" o3 (fun cd o4 =>
      rd_bool "sticky" o4 (fun sk o5 =>
      rd_strs "tags" o5 (fun tags o6 =>
      rd_opt_nat "section" o6 (fun sec o7 =>
      rd_opt_list "block_content" o7 (fun blk o8 =>
      rd_opt_list "block_execute" o8 (fun bex o9 =>
        match mapM tok_of_json tx with
        | Some tx' =>
            match match blk with
                  | None => Some None
                  | Some l => option_map Some (mapM tok_of_json l)
                  end,
                  match bex with
                  | None => Some None
                  | Some l => option_map Some (mapM tok_of_json l)
                  end with
            | Some blk', Some bex' => rd_end o9 (JChoice tx' tg ar cd sk tags sec blk' bex')
            | _, _ => None
            end
        | None => None
        end)))))))))
  | _ => None
  end.

Definition param_of_json (j : json) : option param :=
  match j with
  | JObj o => rd_str "name" o (fun n o1 => rd_optstr "default" o1 (fun d o2 => rd_end o2 (mkParam n d)))
  | _ => None
  end.

Definition pextra_of_member (kv : string * json) : option pextra :=
  let '(k, v) := kv in
  if String.eqb k "current_section" then
    match v with JInt z => if (0 <=? z)%Z then Some (PXSection (Z.to_nat z)) else None | _ => None end
  else if String.eqb k "_join_count" then
    match v with JInt z => if (0 <=? z)%Z then Some (PXJoinCount (Z.to_nat z)) else None | _ => None end
  else if String.eqb k "input_directives" then
    match v with JList l => option_map PXInputs (mapM input_of_json l) | _ => None end
  else None.

Definition passage_of_json (j : json) : option jpassage :=
  match j with
  | JObj o =>
      rd_str "id" o (fun id o1 =>
      rd_list "params" o1 (fun ps o2 =>
      rd_list "content" o2 (fun cont o3 =>
      rd_list "choices" o3 (fun chs o4 =>
      rd_list "execute" o4 (fun ex o5 =>
      rd_strs "tags" o5 (fun tags o6 =>
        match mapM param_of_json ps, mapM tok_of_json cont, mapM ch_of_json chs, mapM tok_of_json ex,
              mapM pextra_of_member o6 with
        | Some ps', Some cont', Some chs', Some ex', Some xs => Some (mkJPassage id ps' cont' chs' ex' tags xs)
        | _, _, _, _, _ => None
        end))))))
  | _ => None
  end.

Definition jstory_of_json (j : json) : option jstory :=
  match j with
  | JObj o =>
      rd_str "version" o (fun ver o1 =>
      rd_optstr "initial_passage" o1 (fun init o2 =>
      rd_obj "metadata" o2 (fun md o3 =>
      rd_strs "imports" o3 (fun imps o4 =>
      rd_obj "passages" o4 (fun ps o5 =>
        match str_members_of md, mapMi passage_of_json ps with
        | Some md', Some ps' => rd_end o5 (mkJStory ver init md' imps ps')
        | _, _ => None
        end)))))
  | _ => None
  end.

(* ---------------------------------------------------------------------------------------- *)
(* what BardEngine reads of the dict (mirror of harness/story2coq.py): the Story/Compiled.v view *)

Definition opt_list {A} (o : option (list A)) : list A := match o with Some l => l | None => [] end.

Fixpoint forget_tok (t : jtoken) : token :=
  match t with
  | JTText v _ => TText v
  | JTExpr c _ => TExpr c
  | JTInlineCond c tr fa _ => TInlineCond c (map forget_tok tr) (map forget_tok fa)
  | JTCond brs => TCond (map forget_br brs)
  | JTLoop v c cont chs =>
      TLoop v c (map forget_tok cont) (match chs with Some l => map forget_ch l | None => [] end)
  | JTJump t a => TJump t a
  | JTPyStmt c => TPyStmt c
  | JTPyBlock c => TPyBlock c
  | JTHook a e t => THook (String.eqb a "add") e t
  | JTRender n a fw => TRender n a fw
  | JTInput attrs => TInput attrs
  | JTJoinMarker i => TJoinMarker i
  end
with forget_br (b : jbranch) : branch :=
  match b with
  | JBranch c cont chs =>
      Branch c (map forget_tok cont) (match chs with Some l => map forget_ch l | None => [] end)
  end
with forget_ch (c : jchoice) : choice :=
  match c with
  | JChoice tx tg ar cd sk tags sec blk _ =>
      Choice (map forget_tok tx) tg ar cd sk (match sec with Some n => n | None => 0 end) tags
             (match blk with Some l => map forget_tok l | None => [] end)
  end.

Fixpoint extras_inputs (xs : list pextra) : list (list (string * string)) :=
  match xs with
  | [] => []
  | PXInputs l :: _ => l
  | _ :: r => extras_inputs r
  end.

Definition forget_passage (p : jpassage) : passage :=
  mkPassage (jp_id p) (jp_params p) (map forget_tok (jp_content p)) (map forget_ch (jp_choices p))
            (map forget_tok (jp_execute p)) (jp_tags p) (extras_inputs (jp_extras p)).

Definition forget (s : jstory) : story :=
  mkStory (match js_initial s with Some i => i | None => "" end)
          (map (fun kp => (fst kp, forget_passage (snd kp))) (js_passages s))
          (js_imports s) (js_metadata s).

(* the dict of a Story/Compiled.v story: no member the engine ignores, "section" always written,
   "choices" / "block_content" / "input_directives" written when they are not empty *)

Definition some_if_nonempty {A} (l : list A) : option (list A) :=
  match l with [] => None | _ => Some l end.

Fixpoint embed_tok (t : token) : jtoken :=
  match t with
  | TText v => JTText v None
  | TExpr c => JTExpr c None
  | TInlineCond c tr fa => JTInlineCond c (map embed_tok tr) (map embed_tok fa) None
  | TCond brs => JTCond (map embed_br brs)
  | TLoop v c cont chs =>
      JTLoop v c (map embed_tok cont) (match chs with [] => None | _ => Some (map embed_ch chs) end)
  | TJump t a => JTJump t a
  | TPyStmt c => JTPyStmt c
  | TPyBlock c => JTPyBlock c
  | THook a e t => JTHook (if a then "add" else "remove") e t
  | TRender n a fw => JTRender n a fw
  | TInput attrs => JTInput attrs
  | TJoinMarker i => JTJoinMarker i
  end
with embed_br (b : branch) : jbranch :=
  match b with
  | Branch c cont chs =>
      JBranch c (map embed_tok cont) (match chs with [] => None | _ => Some (map embed_ch chs) end)
  end
with embed_ch (c : choice) : jchoice :=
  match c with
  | Choice tx tg ar cd sk sec tags blk =>
      JChoice (map embed_tok tx) tg ar cd sk tags (Some sec)
              (match blk with [] => None | _ => Some (map embed_tok blk) end) None
  end.

Definition embed_passage (p : passage) : jpassage :=
  mkJPassage (pid p) (params p) (map embed_tok (content p)) (map embed_ch (choices p))
             (map embed_tok (execute p)) (ptags p)
             (match input_directives p with [] => [] | l => [PXInputs l] end).

Definition compiler_version : string := "0.1.0".

Definition embed (s : story) : jstory :=
  mkJStory compiler_version (Some (initial s)) (metadata s) (imports s)
           (map (fun kp => (fst kp, embed_passage (snd kp))) (passages s)).

Definition story_to_json (s : story) : json := jstory_to_json (embed s).
Definition story_of_json (j : json) : option story := option_map forget (jstory_of_json j).

(* ---------------------------------------------------------------------------------------- *)
(* "this AST is a Python dict": the keys of every dict in it are pairwise distinct.  Object keys that
   are fixed names are distinct by construction; what can repeat in the AST (and cannot in Python) are
   passage keys, metadata keys, @input attribute names (and "type" among them), passage extras. *)

Fixpoint nodupb (l : list string) : bool :=
  match l with
  | [] => true
  | x :: r => negb (existsb (String.eqb x) r) && nodupb r
  end.

Definition input_kdb (attrs : list (string * string)) : bool := nodupb ("type" :: map fst attrs).

Definition opt_forallb {A} (f : A -> bool) (o : option (list A)) : bool :=
  match o with Some l => forallb f l | None => true end.

Fixpoint tok_kdb (t : jtoken) : bool :=
  match t with
  | JTInlineCond _ tr fa _ => forallb tok_kdb tr && forallb tok_kdb fa
  | JTCond brs => forallb br_kdb brs
  | JTLoop _ _ cont chs =>
      forallb tok_kdb cont && match chs with Some l => forallb ch_kdb l | None => true end
  | JTInput attrs => input_kdb attrs
  | _ => true
  end
with br_kdb (b : jbranch) : bool :=
  match b with
  | JBranch _ cont chs =>
      forallb tok_kdb cont && match chs with Some l => forallb ch_kdb l | None => true end
  end
with ch_kdb (c : jchoice) : bool :=
  match c with
  | JChoice tx _ _ _ _ _ _ blk bex =>
      forallb tok_kdb tx && match blk with Some l => forallb tok_kdb l | None => true end
      && match bex with Some l => forallb tok_kdb l | None => true end
  end.

Definition pextra_kdb (x : pextra) : bool :=
  match x with PXInputs l => forallb input_kdb l | _ => true end.

Definition passage_fixed_keys : list string := ["id"; "params"; "content"; "choices"; "execute"; "tags"].

Definition passage_kdb (p : jpassage) : bool :=
  forallb tok_kdb (jp_content p) && forallb ch_kdb (jp_choices p) && forallb tok_kdb (jp_execute p)
  && forallb pextra_kdb (jp_extras p)
  && nodupb (passage_fixed_keys ++ map (fun x => fst (pextra_to_member x)) (jp_extras p)).

Definition jstory_kdb (s : jstory) : bool :=
  nodupb (map fst (js_metadata s)) && nodupb (map fst (js_passages s))
  && forallb (fun kp => passage_kdb (snd kp)) (js_passages s).

Definition story_kdb (s : story) : bool := jstory_kdb (embed s).

(* the same test on a JSON tree (used on the real dict by the tie) *)
Fixpoint json_kdb (j : json) : bool :=
  match j with
  | JList l => forallb json_kdb l
  | JObj o => nodupb (map fst o) && forallb (fun kv => json_kdb (snd kv)) o
  | _ => true
  end.
