(* Boolean comparison functions for the generated cases of harness/storyjson_tie.py.

   A case is the REAL dict returned by bardic's parse() printed as a `json` tree (harness/jsontext_tie.py
   coq_json: it raises on anything that is not None/bool/int/str/list/dict-with-str-keys) and, when
   harness/story2coq.py can print it, the `story` term the engine model is given for that dict. *)
From Coq Require Import String Ascii List Bool ZArith.
From Bardic Require Import PyStr Value Compiled Codec JsonText JsonTextCheck StoryJson.
Import ListNotations.
Local Open Scope list_scope.
Local Open Scope string_scope.

Record scase := mkS { s_real : json; s_story : option story }.

(* the strict reader accepts the real dict: it has exactly the documented shape *)
Definition schema_ok (c : scase) : bool :=
  match jstory_of_json (s_real c) with Some _ => true | None => false end.

(* writer (reader real) = real: tree equality, key order included - the writer produces EXACTLY the real dict *)
Definition exact_ok (c : scase) : bool :=
  match jstory_of_json (s_real c) with
  | Some js => json_eqb (jstory_to_json js) (s_real c)
  | None => false
  end.

(* the real dict has pairwise distinct keys, as a tree and as seen through the typed AST *)
Definition kd_ok (c : scase) : bool :=
  json_kdb (s_real c) &&
  match jstory_of_json (s_real c) with Some js => jstory_kdb js | None => false end.

(* story_of_json real = Some (the story2coq term); stories are compared through their dicts
   (StoryJsonProofs.story_to_json_injective) *)
Definition view_ok (c : scase) : bool :=
  match s_story c, story_of_json (s_real c) with
  | Some st, Some st' => json_eqb (story_to_json st') (story_to_json st)
  | None, _ => true
  | _, _ => false
  end.

(* the reader inverts the writer on this story (an instance of the theorem, evaluated) *)
Definition roundtrip_ok (c : scase) : bool :=
  match s_story c with
  | Some st => match story_of_json (story_to_json st) with
               | Some st' => json_eqb (story_to_json st') (story_to_json st) && story_kdb st
               | None => false
               end
  | None => true
  end.

(* story_to_json story = real: the real dict has none of the members the engine ignores *)
Definition canonical (c : scase) : bool :=
  match s_story c with Some st => json_eqb (story_to_json st) (s_real c) | None => false end.

(* the model's text codec on the real dict: loads (dumps_indent2 real) = Some real *)
Definition text_ok (c : scase) : bool :=
  opt_json_eqb (loads (dumps_indent2 (s_real c))) (Some (s_real c)).

Definition has_story (c : scase) : bool := match s_story c with Some _ => true | None => false end.

Definition scase_ok (c : scase) : bool := schema_ok c && exact_ok c && kd_ok c && view_ok c && roundtrip_ok c.

(* (cases, schema, exact, distinct keys, with a story term, view = story, round trip, canonical, bad indices) *)
Definition ssummary (l : list scase) : nat * nat * nat * nat * nat * nat * nat * nat * list nat :=
  (length l, count_ok schema_ok l, count_ok exact_ok l, count_ok kd_ok l, count_ok has_story l,
   count_ok (fun c => has_story c && view_ok c) l, count_ok (fun c => has_story c && roundtrip_ok c) l,
   count_ok canonical l, bad_idx scase_ok 0 l).

(* (cases, text round trip ok, bad indices) *)
Definition tsummary (l : list scase) : nat * nat * list nat :=
  (length l, count_ok text_ok l, bad_idx text_ok 0 l).
