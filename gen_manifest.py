#!/usr/bin/env python3
"""Writes MANIFEST.json from the table below (kept in one place so it stays valid)."""
import json

CLAIMED = {
 "C11": dict(
   category="proof",
   text="Theorems in coq/Props/C11.v and C11b.v (closed under the global context) over a Gallina model of the compiler in "
        "which every partial Python operation is an explicit outcome (PInternal ...) and every loop is structural or "
        "fuelled: parse_total - for ALL ASCII line lists and ALL behaviours of Python's own parser (oracles) the modelled "
        "parse, with the modelled block extractors and line functions, returns a story or a diagnostic, never an internal "
        "error and never out of fuel; every extractor consumes at least one line (the termination argument of the real "
        "while loop); line_functions_total; nesting caps (100 blocks, 50 inline conditionals). Tie on every run: line-level "
        "functions, whole inputs of every construct (valid, broken, mutated repository files) and direct extractor calls "
        "are run through the real compiler and the model and compared inside Coq (outcome class and compiled story); "
        "pinned probes of the six fixed crashes; per-call alarm for hangs.",
   note="Trusted: Coq kernel + vm_compute; the hand-written parser model tied to the code by the correspondence run only; "
        "oracles for ast.parse (py_stmt_ok, py_call_shape, py_body_is_call) filled per case with the real ast; ASCII domain; "
        "diagnostic texts and the interpreter recursion limit are outside the model.",
   technique="Coq proof (totality by structural/fuel induction with explicit error outcomes) + vm_compute correspondence "
             "against the real compiler",
   design_ref="DESIGN.md §6 C11"),
 "C12": dict(
   category="proof",
   text="Theorems in coq/Props/C12.v (closed under the global context): for every story the compiler model returns - the "
        "initial passage exists, follows @start > Start > first and can be entered without arguments; every passage is keyed "
        "by its id; every key is a valid name; the validator's walk is sound on arbitrary token trees, hence every choice "
        "target at any depth is a defined passage or @join and every jump target a defined passage; and NO operation of any "
        "history of the engine model (choose with any index, goto on a defined name, undo, redo, reset, reads, save/load, "
        "inputs) on such a story ever reaches the unknown-passage error site: step/run_all equal their variants with an "
        "arbitrary computation at that site (wf_never_unknown_passage, parse_ok_history_never_unknown_passage; the invariant "
        "is that every offered choice, in the cached output and in both stacks, targets @join or a defined passage). "
        "Argument binding is C07 and the play-through. Tie/oracle on every run: an independent structural validator in Python "
        "over every accepted generated, mutated and repository story (JSON round trip, token kinds, targets, argument shapes "
        "with Python's ast), exhaustive play to depth 4-5 plus random walks with the real engine looking for unknown-passage "
        "and binding errors, and comparison of the compiled dict with the model's story inside Coq.",
   note="Trusted: as C11; the engine model of Engine/Engine.v. 'Only documented token kinds' holds in the model by typing "
        "and is checked on the real dict by the Python validator.",
   technique="Coq proof (validator soundness by token-tree induction, navigation safety by induction on the goto chain) + "
             "vm_compute correspondence + exhaustive bounded play as failing-input search",
   design_ref="DESIGN.md §6 C12"),
 "C01": dict(
   category="proof",
   text="Theorems in coq/Props/C01.v (24, closed under the global context), end to end from TEXT to MEANING in the models: "
        "(1) string level - for every source story s of the documented language with printable s = true (an executable predicate "
        "that every generated AST meets), the parser model run on the printed .bard text yields exactly compile_ref s: "
        "printed_story_parses_to_compile_ref (parse_real (print_story s) = POk (compile_ref s)), with the per-line-kind steps, the "
        "content-line tokenizer, and the @py / @if-@elif-@else / @for / join-choice block extractors at any indentation and nesting; "
        "(2) AST level - the engine model's rendering of compile_ref s equals the reference meaning defined on the SOURCE "
        "(Sem/Reference.v) for every list of lines (glue, inline conditionals, blocks to any depth, statements, jumps, directives), "
        "entering runs the top-level commands in source order, every passage renders to its reference meaning up to deletion of "
        "newline characters (state, jump, directives equal), the two whitespace normalisations delete newline tokens only and are the "
        "same functions in the parser model and in compile_ref; (3) printed_source_plays_with_the_reference_meaning composes them. "
        "Ties on every run: the Gallina printer = the Python printer on the generated ASTs; the REAL compiler's output on the printed "
        "(and comment-decorated) text = compile_ref, inside Coq; the parser model = compile_ref on the same text; compile-to-file + JSON "
        "load = in-memory compilation; the REAL engine's play of the really compiled story along random histories = the model's play "
        "of compile_ref.",
   note="Trusted: Coq kernel + vm_compute; parser model, compile_ref and engine model are hand-written and tied to the code by the "
        "correspondence runs; generators of harness/c01.py; author code restricted to the mini-Python of Lang/PyMini.v in the runs "
        "(arbitrary oracle in the theorems). _partial remains only: WHICH newlines the normalisations delete has no source-level "
        "characterisation. Legacy <<if>> syntax, tags, includes and @start are outside the AST (C17 covers surface variants).",
   technique="Coq proofs: induction over printed lines / block nesting for parser-model(print s) = compile_ref s, structural induction "
             "on source ASTs for engine(compile_ref s) = reference meaning + vm_compute correspondence of the real compiler and engine",
   design_ref="DESIGN.md §6 C01, §12.2"),
 "C20": dict(
   category="proof",
   text="Theorems in coq/Props/C20.v (closed under the global context) over a Gallina model of Wallet, Inventory, Shop, "
        "Relationship and dice: gold never negative and stock never mutated under any operation history, spend all-or-nothing, "
        "add/weight bound, buy (for non-negative prices) and sell atomic, stat ranges under any history, threshold events iff "
        "upward crossing, to_dict/from_dict round trips, roll bounds for any draws. The model is tied to the code on every run "
        "by running random operation histories on the real objects and on the model inside Coq (vm_compute) and comparing every "
        "returned value and the state after every step; direct Python oracles on the real objects search for a failing input.",
   note="Trusted: Coq kernel + vm_compute; hand-written model tied to the code by the correspondence run only; harness "
        "(generator, term printer). Floats restricted to multiples of 0.25 so integer quarter units are exact; random.randint "
        "is an input list in the model.",
   technique="Coq proof by induction over operation lists + vm_compute correspondence against the real objects",
   design_ref="DESIGN.md §6 C20"),
 "C13": dict(
   category="proof",
   text="Theorems in coq/Props/C13.v (closed) about a Gallina model of resolve_includes over an arbitrary file system and path "
        "resolution: on success the output is the unique textual unfolding of the include tree (inductive spec without seen-set "
        "or fuel), the line map attributes every output line to its true file and 0-based index, a reachable cycle is never "
        "accepted and is reported as a cycle, a file seen along two branches is not a cycle (the seen set is branch local), "
        "missing files and malformed directives are reported with a real witness, and resolution terminates (fuel = number of "
        "files + 1 is never exhausted).  The model is tied to the code on every run by resolving generated include graphs on disk "
        "with the real resolve_includes and inside Coq; the entry-point clause (compile / play / bundle use the include-resolving "
        "path) is differential only: click CliRunner on the three commands versus compile_file.",
   note="Trusted: Coq kernel + vm_compute; hand model tied by the correspondence run; rel_posix (lexical path normalisation, no "
        "symlinks) as a model of Path.resolve for generated trees; harness.  CLI glue is tested, not proved.",
   technique="Coq proof by induction on fuel/include tree + vm_compute correspondence on generated include graphs",
   design_ref="DESIGN.md §6 C13"),
 "C14": dict(
   category="proof",
   text="Two halves. (1) Theorems in coq/Props/C14.v (closed) about a Gallina model of format_error's location arithmetic: a call site "
        "that passes the 0-based index i of the offending line displays the file and 1-based line that the line map attributes to it "
        "(composed with C13's provenance: the author's own file and line), a site passing i+1 never does, and for any site table "
        "forallb site_ok t = true implies every site displays the true location.  (2) The site table is regenerated from /repo's "
        "current source on every run by a fail-closed Python-ast translator (every format_error/raise site in bardic/compiler/parsing, "
        "its line_num argument classified interprocedurally) and the finite obligation forallb site_ok site_table = true is re-proved by "
        "vm_compute, so an added or edited call site is seen even if no input reaches it.  Behavioural oracle: every diagnosable "
        "construct placed on every line of host stories, in the main file / an included file / after included content; the file and "
        "line parsed from the message must be the true ones.  Sites that carry no line or index a dedented loop body are listed "
        "known findings (F14b), each by call site.",
   note="Trusted: Coq kernel + vm_compute; the ast translator (harness/c14_sites.py, fail-closed on unknown shapes); Diag.v tied to "
        "errors.py by random differential cases; that a site's index is the construct's own line is established per construct kind by the oracle.",
   technique="generated site table (Python ast -> Coq) + Coq proof of location arithmetic + placement sweep oracle",
   design_ref="DESIGN.md §6 C14"),
 "C17": dict(
   category="proof",
   text="Theorems in coq/Props/C17.v (30, closed): WHOLE-INPUT statements about the parser model - trailing_comments_invisible: for "
        "all line lists and every admissible decoration (' // text' appended to any story lines the comment pre-pass rewrites; side "
        "condition: the decorated lines have no trailing blanks of their own, shown necessary by a counterexample = finding F17k) "
        "parse of the decorated input = parse of the input, for all oracles and all extractors; '#' comment lines inserted at any "
        "top-level position do not change parse (block-free inputs: unconditional; with blocks: for extractors that read only their "
        "own block, discharged by evaluation for a concrete story - named _partial); legacy '<<for/if/elif/else/endif>>' and '@' "
        "headers yield the same extractor results (_partial: not yet composed through parse). Helper level (older, _partial): "
        "strip_inline_comment and dedent laws (uniform indentation invisible, idempotent). Differential on every run: generated "
        "stories printed in every surface style and two-part style combination (legacy/@, # lines incl. column 0, trailing // per line "
        "kind, body indentation, multi-line statements, @py blank shapes, under-indented @py lines) must compile to identical dicts "
        "with the real compiler (13 k variants quick).",
   note="Trusted: Coq kernel + vm_compute; parser model tied to the real compiler by the C11/C01 correspondence runs, Lex.v by "
        "exhaustive short strings; the story generator/printer (harness/storygen.py). Indentation clause and <<py vs @py: whole-story "
        "invariance is differential evidence only.",
   technique="Coq proofs about the parser model's pre-pass and main loop (whole-input invariance) and the lexical helpers + "
             "differential compile of every surface-style variant",
   design_ref="DESIGN.md §6 C17, §12.2"),
 "C02": dict(
   category="proof",
   text="Theorems in coq/Props/C02.v (closed; every story, oracle, state): the choices render_passage offers are exactly the enabled candidates (condition holds - a failing condition counts as false - and repeatable or identity not used) of the current section, in order; choose(i) with a valid index navigates with the i-th offered choice's target and arguments; an invalid index returns IndexError with the whole engine state unchanged (stacks included); a taken one-time choice is marked and a marked one is never enabled; marks only grow; a repeatable choice is enabled iff its condition holds.  Known limit F02b (hooks changing variables after the offer was computed) is a listed known finding.  Tie + oracles: correspondence on stories with many one-time/conditional choices and invalid indices; independent recomputation of enabledness with Python eval; rejected-call state comparison.",
   note="Trusted: Coq kernel + vm_compute; the hand-written model Engine/Engine.v is tied to bardic/runtime/engine.py only by the correspondence run (generated stories x histories, every step's result kind and full view compared inside Coq); author code is an arbitrary oracle record in the theorems and the mini-Python of Lang/PyMini.v in the correspondence; harness (generator, term printers). Assumes effect-free display expressions/conditions and no in-place effect of a failing statement before it fails.",
   technique='Coq proofs over the engine model (arbitrary author-code oracle) + vm_compute correspondence on generated stories x histories + direct oracles',
   design_ref="DESIGN.md §6 C02"),
 "C03": dict(
   category="proof",
   text='Theorems in coq/Props/C03.v: entering a passage logs exactly its commands once in source order after the entry event; one navigation enters pairwise distinct passages, none visited before; rendering enters no passage and runs no hook; the cached output after a successful navigation is the returned one.  Effect-freeness of the real read methods is trivial in the model (OpRead is the identity) and is decided by the correspondence run: read batteries anywhere in histories, state compared before/after; trace variable `tr` shows each passage entered once per navigation.',
   note="Trusted: Coq kernel + vm_compute; the hand-written model Engine/Engine.v is tied to bardic/runtime/engine.py only by the correspondence run (generated stories x histories, every step's result kind and full view compared inside Coq); author code is an arbitrary oracle record in the theorems and the mini-Python of Lang/PyMini.v in the correspondence; harness (generator, term printers). Assumes effect-free display expressions/conditions and no in-place effect of a failing statement before it fails.",
   technique='Coq proofs over the engine model (arbitrary author-code oracle) + vm_compute correspondence on generated stories x histories + direct oracles',
   design_ref="DESIGN.md §6 C03"),
 "C04": dict(
   category="proof",
   text='Theorems in coq/Props/C04.v: undo after any accepted choice (successful or failed half-way) restores the whole core (position, variables, used, hooks, join progress, displayed output) and the scope stack exactly; redo after undo restores state and both stacks exactly; a choice pushes one restore point (bounded by 50, an invariant of every operation) and empties the redo stack; undo pops exactly one; undo/redo on empty stacks are the identity.  Independence of snapshots from later in-place mutation is immediate for Gallina values and is carried by the correspondence with stories mutating lists/dicts in place, plus direct undo/redo law oracles and 70-operation histories crossing the 50 bound in the thorough tier.',
   note="Trusted: Coq kernel + vm_compute; the hand-written model Engine/Engine.v is tied to bardic/runtime/engine.py only by the correspondence run (generated stories x histories, every step's result kind and full view compared inside Coq); author code is an arbitrary oracle record in the theorems and the mini-Python of Lang/PyMini.v in the correspondence; harness (generator, term printers). Assumes effect-free display expressions/conditions and no in-place effect of a failing statement before it fails.",
   technique='Coq proofs over the engine model (arbitrary author-code oracle) + vm_compute correspondence on generated stories x histories + direct oracles',
   design_ref="DESIGN.md §6 C04"),
 "C07": dict(
   category="proof",
   text='Theorems in coq/Props/C07.v: the scope stack after choose/goto/undo/redo equals the one before, also when the operation raises (the finally); write-back never writes a parameter name; parameters shadow globals in the evaluation context; _bind_arguments equals the Python call rule (positional, keyword, default with earlier parameters visible, else ValueError); and the last clause of the property as theorems linking the compiler model to the engine model (Proofs/CallBindProofs.v): a call site the validator accepts never reaches either structural raise site of _bind_arguments (validated_call_binds: the engine function equals its variant with arbitrary computations at the missing-required and positional-and-keyword sites) and leaves no surplus positional or unknown keyword for the engine to ignore; it can fail only inside a default expression; this holds for every jump at any depth and every choice offered in any reachable state of every compiled story (compiled_jump_site_binds, compiled_offered_choice_binds); for whole histories the statement is _partial (one hypothesis: the engine re-reads "Target(args)" as the pair the compiler validated - proved for top-level jump and choice lines, differential for block-extractor tokens).  Tie + oracles: parameterised stories with chains and failing navigations; independent Python binder vs the PARAMS line each passage prints; parameter names never in globals; depth 0 after every call; and the call-shape phase: random signatures x argument shapes x call-site kinds (top level and nested) - whatever compiles must bind at run time, judged against Python\'s own call rule (valid calls must compile, invalid ones must not), plus every way of designating the initial passage x every signature.',
   note="Trusted: Coq kernel + vm_compute; the hand-written model Engine/Engine.v is tied to bardic/runtime/engine.py only by the correspondence run (generated stories x histories, every step's result kind and full view compared inside Coq); author code is an arbitrary oracle record in the theorems and the mini-Python of Lang/PyMini.v in the correspondence; harness (generator, term printers). Assumes effect-free display expressions/conditions and no in-place effect of a failing statement before it fails.",
   technique='Coq proofs over the engine model (arbitrary author-code oracle) + vm_compute correspondence on generated stories x histories + direct oracles',
   design_ref="DESIGN.md §6 C07"),
 "C08": dict(
   category="proof",
   text="Theorems in coq/Props/C08.v: goto's fuel never decides the outcome (any two sufficient fuels agree; pigeonhole on the duplicate-free visited list); everything after a jump is skipped (result independent of what follows), text/directives before it are kept and the jump hands on target+arguments; a successful goto has the structure enter-execute-render-follow with chain_output concatenating in order and taking the continuation's choices; re-entering a visited passage yields RuntimeError (ValueError if its arguments do not bind) with state and scopes intact; stacks and scopes unchanged by any navigation.  Oracles: per-call alarm, chain markers in entry order, text before/after jumps, RecursionError never.",
   note="Trusted: Coq kernel + vm_compute; the hand-written model Engine/Engine.v is tied to bardic/runtime/engine.py only by the correspondence run (generated stories x histories, every step's result kind and full view compared inside Coq); author code is an arbitrary oracle record in the theorems and the mini-Python of Lang/PyMini.v in the correspondence; harness (generator, term printers). Assumes effect-free display expressions/conditions and no in-place effect of a failing statement before it fails.",
   technique='Coq proofs over the engine model (arbitrary author-code oracle) + vm_compute correspondence on generated stories x histories + direct oracles',
   design_ref="DESIGN.md §6 C08"),
 "C09": dict(
   category="proof",
   text="Theorems in coq/Props/C09.v: a successful ordinary choice runs no hook during navigation and then every existing passage registered for turn_end at that moment exactly once in registration order (registration lists are duplicate-free in every reachable state); the same for the turn_end run after @join choices; the run uses a snapshot of the list (self-unhook takes effect next turn); register is idempotent and appends last; unregister removes exactly that entry (others keep their places; other events untouched); goto runs no hook, undo/redo/reset/reads log nothing; hooks keep position, used marks, join progress, scopes; hook text is appended after the turn's text.  Oracles on the trace variable: untouched hooks run exactly once per choice, FIFO, never on goto/read/reset.",
   note="Trusted: Coq kernel + vm_compute; the hand-written model Engine/Engine.v is tied to bardic/runtime/engine.py only by the correspondence run (generated stories x histories, every step's result kind and full view compared inside Coq); author code is an arbitrary oracle record in the theorems and the mini-Python of Lang/PyMini.v in the correspondence; harness (generator, term printers). Assumes effect-free display expressions/conditions and no in-place effect of a failing statement before it fails.",
   technique='Coq proofs over the engine model (arbitrary author-code oracle) + vm_compute correspondence on generated stories x histories + direct oracles',
   design_ref="DESIGN.md §6 C09"),
 "C10": dict(
   category="proof",
   text="Theorems in coq/Props/C10.v (19): every offered choice belongs to the passage's current @join section; the OUTPUT of a '-> @join' choice is exactly the text of one render of its own block, then of the tokens between marker k and marker k+1 (to the end when there is no further marker), then hook text; as an equation valid for every state: block once, section text once, filter of the next section's choices, counter - no other block, no passage entry, position unchanged (also on the ghost log: each block statement logged once, in order); the choices offered afterwards are exactly the filter of section k+1's passage-level candidates followed by the block choices of the section text; one snapshot, redo cleared, one-time mark, undo restores exactly; an ordinary choice is a navigation to its target; after any successful goto the shown passage is at section 0 (re-entry restarts, also through jump chains).  Oracles: section numbers in choice texts, block/section texts, progress.",
   note="Trusted: Coq kernel + vm_compute; the hand-written model Engine/Engine.v is tied to bardic/runtime/engine.py only by the correspondence run (generated stories x histories, every step's result kind and full view compared inside Coq); author code is an arbitrary oracle record in the theorems and the mini-Python of Lang/PyMini.v in the correspondence; harness (generator, term printers). Assumes effect-free display expressions/conditions and no in-place effect of a failing statement before it fails.",
   technique='Coq proofs over the engine model (arbitrary author-code oracle) + vm_compute correspondence on generated stories x histories + direct oracles',
   design_ref="DESIGN.md §6 C10"),
 "C15": dict(
   category="proof",
   text='Theorems in coq/Props/C15.v, for every oracle (a fault at any evaluation point): failing display expression / inline condition -> inline marker, never an exception; failing choice condition -> hidden; failing branch condition -> only that branch skipped; failing statement/block -> RuntimeError where it stands, propagating out of its token list; in every reachable state choose() can only raise IndexError (rejected index), RuntimeError or ValueError; no scope is left behind; a single undo restores the pre-choice core exactly.  Tie: fault injection at every evaluation-point kind (30% per site), model and engine compared step by step; undo-after-fault oracle.',
   note="Trusted: Coq kernel + vm_compute; the hand-written model Engine/Engine.v is tied to bardic/runtime/engine.py only by the correspondence run (generated stories x histories, every step's result kind and full view compared inside Coq); author code is an arbitrary oracle record in the theorems and the mini-Python of Lang/PyMini.v in the correspondence; harness (generator, term printers). Assumes effect-free display expressions/conditions and no in-place effect of a failing statement before it fails.",
   technique='Coq proofs over the engine model (arbitrary author-code oracle) + vm_compute correspondence on generated stories x histories + direct oracles',
   design_ref="DESIGN.md §6 C15"),
 "C06": dict(
   category="proof",
   text="Theorems in coq/Props/C06.v (closed) about a Gallina model of _serialize_value/_deserialize_value and the per-variable save/load: "
        "for every supported value tree (JSON scalars, lists, tuples, string-keyed dicts, registered plain-attribute objects, custom "
        "to_save_dict/from_save_dict objects whose two functions are mutually inverse - nested to any depth in any combination) "
        "deser (json_rt (ser v)) = tuples_to_lists v; idempotence; names bound by import lines keep their binding across a load and are not "
        "saved; whole-state round trip.  The refuted variants of the pre-fix code (class saved as null, underscore attributes dropped, "
        "to_save_dict result not recursed) are machine-checked theorems about the model's `legacy` configuration and each was a real failing "
        "input, now fixed.  Tie: generated value trees built as REAL Python objects (test classes in a temp module + stdlib Wallet/Inventory/"
        "Relationship) put into a real engine, save_state -> json.dumps -> json.loads -> load_state into a fresh engine, compared by type, "
        "attributes and method results; ser/deser of the model vs the real functions inside Coq; the harness probes which of the three repaired "
        "switches the tree under test has and fails if not all are on.",
   note="Trusted: Coq kernel + vm_compute; model tied by the correspondence run; json.dumps/loads taken as the identity on JSON trees; user "
        "to_save_dict/from_save_dict are parameters assumed mutually inverse; floats and sets are outside `value` (Python oracle only).",
   technique="Coq proof by induction on nested value trees + vm_compute correspondence on real objects through a real engine",
   design_ref="DESIGN.md §6 C06"),
 "C18": dict(
   category="proof",
   text="Theorems in coq/Props/C18.v (closed; all stories, oracles, states) relating a Gallina model of cli/graph.py extract_connections to "
        "the engine model: every jump spec render_passage can return and every choice it can offer sits at a position the graph walk visits "
        "(token-tree induction), hence for every reachable state and index the passages entered by choose() before hooks run are the chosen "
        "target via a choice edge followed by a chain of jump edges; every hop of a goto chain is a jump edge; every offered non-@join choice "
        "is an edge; missing = referenced minus defined, and @join is never an edge target, referenced or missing.  Tie: real "
        "extract_connections vs model on generated and JSON-edited stories (edges as sets); observed hops and offers during real play must be "
        "reported edges; missing compared with an independent walk; generated emitted_kinds obligation (every {'type': kind} literal the "
        "compiler can emit is known to the model and classified).",
   note="Trusted: Coq kernel + vm_compute; Graph.v tied to graph.py and Engine.v tied to engine.py by their correspondence runs; the ast scan "
        "for emitted token kinds; harness.",
   technique="Coq proof by token-tree induction over engine + graph models, vm_compute correspondence, play-through hop oracle",
   design_ref="DESIGN.md §6 C18"),
 "C05": dict(
   category="proof",
   text="Theorems in coq/Props/C05.v (closed) about a Gallina model of save_state/load_state over JSON trees: loading the JSON round trip "
        "of a save into ANY engine for the same story yields exactly the saved core (position, used one-time choices, hooks, @join progress, "
        "displayed output; variables as the C06 value codec restores them) with empty undo/redo stacks, hence every continuation equals the "
        "original's with its history cleared; every JSON tree that the shape test rejects is refused with ValueError and the running game is "
        "returned unchanged; load has no third outcome (also for older-format saves).  The displayed output's JSON encoding is an abstract "
        "encode/decode pair constrained only by 'decode(round trip(encode o)) = o and passes the shape test'.  Tie + oracles on the real "
        "engine: save has no effect and is a function of the state; load(json(save)) into a fresh and into a used engine reproduces every view "
        "field; the same random continuation on the original (history cleared) and on the loaded engine agrees step by step; mutated "
        "documents must raise ValueError (never another kind) and leave the engine untouched; the model's valid_doc is evaluated inside Coq on "
        "every real and mutated document and compared with what load_state did.",
   note="Trusted: Coq kernel + vm_compute; SaveLoad.v tied by the valid_doc correspondence and the behavioural oracles; the output codec is "
        "abstract in the theorems; value codec = C06.",
   technique="Coq proof over a JSON-tree model of save/load + vm_compute correspondence of the shape test + continuation differential",
   design_ref="DESIGN.md §6 C05"),
 "C19": dict(
   category="proof",
   text="Refinement between two separate Gallina models, coq/Props/C19.v (closed under the global context): Engine/BrowserEngine.v "
        "models engine_browser.py function by function (no hook registry, hook and join-marker tokens fall through, no section filter, no "
        "'-> @join' path, no turn_end run, snapshots of four fields); browser_model_refines_main_model: for every author-code oracle, every "
        "story of the common subset (no hook command, no join marker, no '-> @join' choice) and EVERY operation list (choose with any index, "
        "undo, redo, goto, reset, reads, save/load, inputs, rejected loads) the two models give the same observations and views step by step "
        "except the two fields the fork does not have; main_model_never_uses_hooks_or_join; common_tokens_render_alike (token-tree "
        "induction).  Ties on every run: the REAL browser engine vs the browser model and the REAL main engine vs the main model, evaluated "
        "inside Coq on generated common-subset stories x histories incl. save->JSON->load; the two real engines step by step (outputs, "
        "variables, used choices, undo/redo flags, save documents); fork_diff (ast comparison of engine.py and engine_browser.py: every "
        "differing function must be one the browser model has its own version of); bundle contents: game.json = compile_file's output for "
        "builds into a new directory, rebuilds after an include changed, builds into another story's directory and from a .json; the copied "
        "engine byte-identical to the template.",
   note="Trusted: Coq kernel + vm_compute; both hand-written models tied to the code by the correspondence run; the ast comparison and its "
        "ACCOUNTED list (harness/c19.py); React hints, import execution and localStorage helpers of the fork are outside both models; the "
        "bundle-content clause is differential only.",
   technique="Coq simulation proof between a model of the fork and the main engine model (relational monad lemmas, token-tree and fuel "
             "induction) + vm_compute correspondence of each real engine with its model + fork diff (ast) + bundle differential",
   design_ref="DESIGN.md §6 C19, §12.2"),
 "C16": dict(
   category="proof",
   text="Split, and said so in the evidence (level_split).  PROOF for the aliasing clauses: coq/Props/C16.v (closed) over Codec/Cells.v, a "
        "model of values whose mutable containers carry a cell identity (same identity = same Python object; an in-place mutation changes "
        "every occurrence): a copy into fresh cells - what save_state, load_state and the undo snapshot build - uses only identities above "
        "every identity of the running game, denotes the same value, is unchanged by any later in-place mutation of the game, and editing it "
        "does not change the game.  Tied to the code by walking the REAL object graphs with id(): save data, loaded state and undo snapshots "
        "must share no list/dict/set/object with the live variables, hooks, join progress or displayed output; then every live container "
        "(resp. every container of the document) is mutated in place and the other side must stay equal.  DIFFERENTIAL ONLY (a theorem "
        "about Gallina functions cannot state them - they are true of every function): compile twice; compile/play/save the same stories in "
        "fresh interpreters under PYTHONHASHSEED 0, 1, 12345; two engines interleaved on ONE story object against solo runs; the story "
        "object deep-compared before/after.",
   note="Trusted: Coq kernel; the cell model's reading of 'copy' (fresh) as what json round trip / comprehensions / deepcopy do - checked by the "
        "id() walk; harness.  Determinism and non-mutation are tested, not proved.",
   technique="Coq proof over a cell-identity model of copying + id()-based object-graph walk and in-place mutation; hash-seed / shared-story differential",
   design_ref="DESIGN.md §6 C16, §7"),
}

# additions of the last session (appended to the claims above; see DESIGN.md §12.2, §12.9, §12.10)
ADD = {
 "C04": ("  ADDED: restore points with SHARED objects - Codec/DeepCopy.v models copy.deepcopy with one memo over cell-identified "
         "values; proved for every consistent state: the snapshot is an injective renaming into new cells (later play never alters "
         "it, editing it never alters the game, two positions share a cell in the copy iff in the original, the same in-place "
         "mutation replayed after a restore gives the renamed result); a per-variable copy splits shared objects (_refuted "
         "witness).  Tie: the engine's _copy_state is compared with the model inside Coq on random shared structures (incl. import "
         "bindings); 'undo + same choice again' = straight play on stories sharing objects and bound methods; the 50 bound is "
         "re-checked after every kind of prefix (load, reload, rejected load, undo/redo, goto, reset).", None),
 "C05": ("  ADDED: the save document as TEXT - Codec/JsonText.v models json.dumps (compact and indent=2) and json.loads; "
         "proved: the document of save_state has distinct keys at every depth and loads(dumps doc) = loads(dumps_indent2 doc) = "
         "Some(json_rt doc).  Tie: real save documents and compiled stories - json.dumps text byte-identical to the model's, "
         "json.loads tree equal, inside Coq; continuation after load with objects of several class flavours (nested class, frozen "
         "dataclass, guarded __setattr__, callable) whose methods the continuation calls.", None),
 "C06": ("  ADDED: the JSON TEXT codec is inside the model (Codec/JsonText.v): loads(dumps j) = Some j and the same for the "
         "indent=2 layout for ALL trees with distinct keys (no bound on depth or size, any byte, big integers), dumps injective, any "
         "white-space layout loads alike, fuel = length suffices, output is printable ASCII, last-wins normalisation of repeated "
         "keys; the serialised value written as text reads back as json_rt j.  Tie: json.dumps / json.loads against the model on "
         "random values, corner cases (all 256 bytes, depth 40) and mutated texts, byte for byte inside Coq.", None),
 "C07": ("  ADDED (the last clause at full strength): story_specs_roundtrip is a THEOREM of parse_real - every jump token and every "
         "choice the real block extractors return, at any depth, went through extract_target_and_args, whose cut is the cut the "
         "engine's own parenthesis scan makes - so compiled_step/played/run_never_binds_structurally hold for every compiled story "
         "with no hypothesis on the story (balanced_extractor_tokens_needed shows the hypothesis is needed for arbitrary "
         "extractors).  The call-shape phase now also passes None values, nested calls and strings holding commas, '=' and "
         "parentheses, with Python's own binding of def T(sig) as the oracle for what the passage sees.", None),
 "C14": ("  ADDED: the index a site passes IS the construct's line (Proofs/DiagCulprit.v, about parse_real): the comment pre-pass "
         "keeps the line count and each line is a prefix of the author's; every DSyntax site i has i < length; every diagnostic is "
         "classified as (a) line i exists and has the culprit shape of its site (the OPENING line for unclosed blocks; 42 sites), "
         "(b) a block site raised while a loop body is re-parsed (sub-list index), (c) a content error inside a block with no line, "
         "(d) a call:* post-validation site with no line - (b)-(d) are exactly the listed known findings; every site name the "
         "parser can produce is enumerated.  Tie: model index + 1 = the line in the real compiler's message on ~120 malformed "
         "stories per run, evaluated inside Coq (harness/diag_index_tie.py).", None),
 "C16": ("  ADDED: deepcopy without sharing coincides with the fresh-copy model (link to C04's DeepCopy.v); compile-history "
         "independence (each story compiled alone in a fresh interpreter vs after other stories in one process, in two orders; "
         "earlier results re-compared after later compilations).", None),
 "C17": ("  ADDED (whole input): legacy_and_at_forms_compile_identically - parse_real (map to_at_form ls) = parse_real ls for EVERY "
         "line list with admissible ls = true (an executable side condition: each legacy header is read alike by the compiler's own "
         "readers, and stands in header position, i.e. not inside Python code, a ~ continuation, @metadata, or as a stray closer), "
         "any mixed subset of rewritten headers, and the extension to <<py ... >> vs @py: ... @endpy (admissible_full); every "
         "conjunct has a _needed example replayed on the real compiler.  Two conjuncts turned out to be compiler defects (F17n, "
         "F17o), were repaired in /repo, and the theorem was re-proved with the weaker side condition.",
         "Coq proof (whole-input invariance of the parser model under comment decoration and legacy->@ rewriting, by simulation of "
         "the main loop and the extractors) + vm_compute correspondence over every style and style pair"),
 "C20": ("  ADDED (second tie, by TRANSLATION): on every run harness/c20_translate.py (fail-closed, Python ast) translates the current "
         "bardic/stdlib/{economy,inventory,relationship}.py into Gallina (52 methods, by symbolic execution of the statement lists; "
         "operators, constants and branch order taken from the source); Stdlib/GameGenEq.v.in, compiled against the generated file, "
         "proves each generated function equal to the hand model and RE-STATES the 15 property theorems over the generated "
         "functions (all closed).  A source change that alters a method breaks its equality lemma (or fails translation); the check "
         "then searches 4x more cases focused on that method and reports translation:<function> (no-failing-input-found when the "
         "search finds nothing).  dice.py and aliasing (item.copy()) are outside the translator.",
         "Coq proof (induction over call lists) + Python->Gallina translator with per-function equality proofs re-checked on every "
         "run + vm_compute correspondence against the real classes"),
}
ADD["C01"] = ("  ADDED: the passage-level theorem is now EXACT (passage_content_reference_meaning: no 'up to newlines'): the two "
              "whitespace normalisations are stated on source lines (Sem/ReferenceWs.v) and the compiler's token passes are "
              "proved to be that rule (side condition proper_lines, implied by printable, shown needed and replayed on the real "
              "compiler); printed_source_plays_with_the_exact_reference_meaning.  Compile-to-file = compile-in-memory is a "
              "theorem: story_of_json (loads (dumps_indent2 (story_to_json st))) = st for every story, hence equal play.", None)
ADD["C12"] = ("  ADDED: 'plain JSON data that survives a JSON round trip unchanged' inside the model - Story/StoryJson.v is a typed "
              "AST of the REAL compiled dict (every optional member, key order), with an exact writer and a strict reader; proved "
              "for all stories at any nesting: reader(writer d) = d, distinct keys, loads(dumps_indent2 d) = d, the engine's view "
              "of d is the model story.  Tie: on real compiled stories (repository files + generated) the strict reader accepts "
              "the dict, the writer reproduces it exactly incl. key order, and its engine view equals the story term - inside "
              "Coq.", None)
ADD["C05"] = (ADD["C05"][0] + "  The side conditions of the text theorem are proved to be invariants of every reachable state, "
              "every restore point and the save slot (Proofs/SaveTextReach.v), for oracles returning Python values.", None)
ADD["C14"] = (ADD["C14"][0] + "  The statement site carries the line Python blames (oracle py_stmt_errline, filled with the real ast): "
              "kind (s) - the blamed line lies inside the statement, for every oracle with no premise, since the index is clamped "
              "to the statement (F14c, found by proving this, repaired in /repo 15b6fb4; clamped_stmt_index_inside, "
              "stmt_index_clamped_regression).", None)
ADD["C07"] = (ADD["C07"][0] + "  The engine's argument dictionary is modelled with dict-update semantics (args_dict; a keyword named "
              "arg_N overwrites the positional entry as in Python) with pinned witnesses in the run.", None)
ADD["C05"] = (ADD["C05"][0] + "  The model's save document has all 12 keys in the real order and is compared with save_state() "
              "inside Coq.", None)
for _pid, (_t, _tech) in ADD.items():
    CLAIMED[_pid]["text"] += _t
    if _tech:
        CLAIMED[_pid]["technique"] = _tech

ALL = [f"C{i:02d}" for i in range(1, 21)]
PENDING_REASON = "check not built yet in this revision of /verif (design in DESIGN.md §6); will be claimed when its model, theorems and correspondence run exist"

checks = []
for pid, c in CLAIMED.items():
    checks.append({
        "property_id": pid,
        "quick_cmd": f"/venv/bin/python /verif/run_check.py {pid} --tier quick",
        "thorough_cmd": f"/venv/bin/python /verif/run_check.py {pid} --tier thorough",
        "evidence_file": f"/verif/evidence/{pid}.json",
        "replay_cmd_template": f"/venv/bin/python /verif/run_check.py {pid} --replay {{path}}",
        "engine": "coq-model+correspondence",
        "level_claimed": {"category": c["category"], "text": c["text"], "design_ref": c["design_ref"]},
        "level_note": c["note"],
        "technique": c["technique"],
    })
manifest = {
 "version": 1,
 "setup_cmd": "cd /verif/coq && coq_makefile -f _CoqProject -o Makefile && make -j16",
 "hooks": {"guard": "BARDIC_VERIF", "enable": "no instrumentation commits: checks observe bardic through its public API only",
           "baseline_off_cmd": "cd /repo && /venv/bin/python -m pytest -ra -q -p no:cacheprovider --timeout=900 --continue-on-collection-errors",
           "source_commits": [], "add_only": True},
 "engines": [{"name": "coq-model+correspondence", "path": "/verif/coq", "serves_properties": sorted(CLAIMED),
              "kind_free_text": "Gallina model + theorems (Coq 8.16.1), tied to /repo by a differential run evaluated inside Coq"}],
 "checks": checks,
 "not_applicable": [{"property_id": p, "reason": PENDING_REASON} for p in ALL if p not in CLAIMED],
 "notes": "See DESIGN.md. run_check.py builds the Coq development, re-checks Props/<id>.v with Print Assumptions, runs the "
          "correspondence and the direct oracles against /repo's working tree, and writes evidence/<id>.json.",
}
json.dump(manifest, open("/verif/MANIFEST.json", "w"), indent=1)
print("claimed:", sorted(CLAIMED))
