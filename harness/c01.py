"""C01 — compiled stories play with the meaning the language reference gives the source.

Source ASTs of the documented language are generated, printed as .bard text and
  (a) compiled by the REAL compiler: the dict must equal compile_ref of the AST (Story/Source.v), compared inside Coq;
      compile-to-file + JSON load must give the same dict as compiling in memory;
  (b) played by the REAL engine along random choice sequences: every step must equal the model's play of
      compile_ref of the AST (for which the reference meaning is proved), compared inside Coq;
  (c) string level: the Gallina twin of this file's printer (Story/SourcePrint.v print_story) must print, line by line,
      the text the real compiler is given (before the comment decoration); `printable` (the hypothesis of
      Props/C01.v printed_story_parses_to_compile_ref) is evaluated with the call shapes of Python's own `ast`, and
      where it holds the parser model on the printed lines must be compile_ref (compared inside Coq; the number of
      generated ASTs that are not printable is reported as ast_not_printable).
Theorems: coq/Props/C01.v."""
from __future__ import annotations

import copy
import json
import os
import random
import tempfile

from . import common as C
from . import enginegen as G
from . import enginerun as R
from . import story2coq as S
from .common import coq_str, coq_list, coq_bool, coq_opt, coq_nat
from .pymini import Unsupported

HEADER = ("From Coq Require Import ZArith List String.\n"
          "From Bardic Require Import PyStr Value Compiled Engine PyMini EngineCheck Source SourceCheck.")
HEADER_SP = ("From Coq Require Import ZArith List String.\n"
             "From Bardic Require Import PyStr Value Compiled Source SourcePrint SourcePrintProofs.")
INTS = ["a", "b", "c"]


class SrcGen:
    """Source ASTs as nested tuples mirroring Story/Source.v."""

    def __init__(self, rng, depth=2):
        self.r = rng
        self.depth = depth
        n = rng.randint(2, 5)
        self.names = ["Start"] + [f"P{i}" for i in range(1, n)]
        self.sig = {}
        for nm in self.names[1:]:
            if rng.random() < 0.3:
                self.sig[nm] = [("x", None)] + ([("y", rng.choice(["0", "x + 1"]))] if rng.random() < 0.5 else [])
        self.stats = {}

    def tag(self, k):
        self.stats[k] = self.stats.get(k, 0) + 1

    def iexpr(self, scope=()):
        r = self.r
        k = r.random()
        names = INTS + list(scope)
        if k < 0.35:
            return str(r.choice([0, 1, 2, 3, 7]))
        if k < 0.7:
            return r.choice(names)
        return f"{r.choice(names)} {r.choice(['+', '-', '*'])} {r.choice([1, 2, 3])}"

    def cond(self, scope=()):
        r = self.r
        return r.choice([f"{self.iexpr(scope)} {r.choice(['>', '<', '==', '!=', '>=', '<='])} {self.iexpr(scope)}",
                         "flag", "not flag", "xs", "'k' in d", r.choice(INTS)])

    def pieces(self, scope=(), allow_cond=True):
        r = self.r
        ps = [("T", r.choice(["You see", "Here", "Value", "Note", "It is"]))]
        for _ in range(r.randint(0, 2)):
            k = r.random()
            if k < 0.45:
                ps.append(("T", " "))
                ps.append(("E", self.iexpr(scope)))
            elif k < 0.55:
                ps.append(("T", " "))
                ps.append(("E", r.choice(INTS) + r.choice([":3", ":03", ":>4", ":<3", ":d"])))
            elif k < 0.6:
                # colons that belong to the expression: slices, subscripts with a spec, a string literal
                ps.append(("T", " "))
                ps.append(("E", r.choice(["xs[0:1]", "xs[1:]", "d['k']:>4", "xs[0:2][0]:03", "'a:b'", "len(xs[:1]):3",
                                          "a if a == b else c", "(a if flag else b):>3"])))
                self.tag("colon-in-expression")
            elif k < 0.78 and allow_cond:
                ps.append(("T", " "))
                tr = r.choice([[("T", "yes")], [("T", "big "), ("E", "a")], []])
                fa = r.choice([[("T", "no")], [("T", "small")], []])
                ps.append(("C", self.cond(scope), tr, fa))
                self.tag("inline-cond")
            else:
                ps.append(("T", r.choice([" ok.", " fine", " now"])))
        # merge adjacent text pieces (the tokenizer produces one text token)
        out = []
        for p in ps:
            if out and out[-1][0] == "T" and p[0] == "T":
                out[-1] = ("T", out[-1][1] + p[1])
            else:
                out.append(p)
        return out

    def stmt(self, scope=()):
        r = self.r
        if any(v in scope for v in ("i", "j", "q")):
            # inside a loop body: no growth of the list the loops iterate over (nested loops over list(xs) that append to xs
            # double it per iteration, and a play-through then takes minutes)
            return r.choice([f"{r.choice(INTS)} = {self.iexpr(scope)}", f"{r.choice(INTS)} += {r.choice([1, 2])}",
                             f"d['k'] = {self.iexpr(scope)}", "flag = not flag", "n = n + 1"])
        return r.choice([f"{r.choice(INTS)} = {self.iexpr(scope)}", f"{r.choice(INTS)} += {r.choice([1, 2])}",
                         f"xs.append({self.iexpr(scope)})", f"d['k'] = {self.iexpr(scope)}", "flag = not flag", "n = n + 1"])

    def call_args(self, target, scope=()):
        ps = self.sig.get(target)
        if not ps:
            return ""
        args = [self.iexpr(scope)]
        if len(ps) > 1 and self.r.random() < 0.5:
            args.append(self.iexpr(scope) if self.r.random() < 0.5 else "y=" + self.iexpr(scope))
        return ", ".join(args)

    def choice(self, scope=(), block=None, target=None, loopvar=None):
        r = self.r
        t = target or r.choice(self.names)
        tx = [("T", r.choice(["Go", "Look", "Wait", "Take"]) + f" {r.randint(0, 9)}")]
        if r.random() < 0.3:
            tx += [("T", " "), ("E", loopvar or r.choice(INTS))]
            tx = [("T", tx[0][1] + " "), tx[2]]
        cond = self.cond(scope) if r.random() < 0.3 else None
        return ("CH", tx, t, "" if t == "@join" else self.call_args(t, scope), cond, r.random() < 0.65, block or [])

    def block_items(self, scope, depth, in_if):
        r = self.r
        out = []
        for _ in range(r.randint(1, 3)):
            k = r.random()
            if k < 0.45:
                out.append(("IText", self.pieces(scope), False))
            elif k < 0.6:
                out.append(("IStmt", self.stmt(scope)))
            elif k < 0.66:
                out.append(("IBlank",))
            elif k < 0.72:
                out.append(("IPy", "\n".join(self.stmt(scope) for _ in range(r.randint(1, 2)))))
                self.tag("py-in-block")
            elif k < 0.8 and depth < self.depth:
                out.append(self.if_item(scope, depth + 1))
            elif k < 0.86 and depth < self.depth:
                out.append(self.for_item(scope, depth + 1))
            elif k < 0.9:
                out.append(("IRender", "panel", self.iexpr(scope)))
            elif k < 0.93:
                out.append(("IHook", r.random() < 0.6, "turn_end", "Start"))
            else:
                out.append(("IText", self.pieces(scope), False))
        for i, it in enumerate(out):
            if it[0] == "IText" and r.random() < 0.15:
                out[i] = ("IText", it[1], True)
                self.tag("glue-in-block")
        if r.random() < 0.12:
            t = r.choice(self.names)
            out.append(("IJump", t, self.call_args(t, scope)))
            self.tag("jump-in-block")
        return out

    def if_item(self, scope, depth):
        r = self.r
        self.tag("if")
        brs = [(self.cond(scope), self.block_items(scope, depth, True), [self.choice(scope)] if r.random() < 0.3 else [])]
        if r.random() < 0.4:
            brs.append((self.cond(scope), self.block_items(scope, depth, True), []))
        if r.random() < 0.5:
            brs.append(("True", self.block_items(scope, depth, True), [self.choice(scope)] if r.random() < 0.2 else []))
        return ("IIf", brs)

    def for_item(self, scope, depth):
        r = self.r
        self.tag("for")
        var = r.choice(["i", "j"])
        coll = r.choice(["list(xs)", "range(2)", "[1, 2, 3]", "range(a % 3)"])
        sc = tuple(scope) + (var,)
        return ("IFor", var, coll, self.block_items(sc, depth, False),
                [self.choice(sc, loopvar=var)] if r.random() < 0.35 else [])

    def passage(self, name):
        r = self.r
        params = self.sig.get(name, [])
        scope = tuple(p for p, _ in params)
        body = []
        if name == "Start":
            body += [("IStmt", s) for s in ["a = 1", "b = 2", "c = 0", "n = 0", "xs = [1, 2]", "d = {'k': 1}", "flag = True"]]
        choices = []
        joins = 0
        for _ in range(r.randint(2, 6)):
            k = r.random()
            if k < 0.32:
                body.append(("IText", self.pieces(scope), r.random() < 0.12))
            elif k < 0.4:
                body.append(("IBlank",))
            elif k < 0.5:
                body.append(("IStmt", self.stmt(scope)))
            elif k < 0.55:
                body.append(("IPy", "\n".join(self.stmt(scope) for _ in range(r.randint(1, 3)))))
            elif k < 0.72:
                body.append(self.if_item(scope, 1))
            elif k < 0.84:
                body.append(self.for_item(scope, 1))
            elif k < 0.88:
                body.append(("IRender", "card", f"{self.iexpr(scope)}, k={self.iexpr(scope)}"))
            elif k < 0.91:
                nm = r.choice(["player_name", "nm"])
                body.append(("IInput", [("name", nm), ("label", nm.replace("_", " ").title()), ("placeholder", "")]))
            elif k < 0.94:
                body.append(("IHook", r.random() < 0.7, "turn_end", r.choice(self.names)))
            else:
                body.append(("IText", self.pieces(scope), False))
        if r.random() < 0.2:
            # runs of blank lines around and between blocks (the two whitespace normalisations meet here)
            k1, k2 = r.randint(1, 3), r.randint(0, 3)
            body += [self.if_item(scope, self.depth)] + [("IBlank",)] * k1 + [self.if_item(scope, self.depth) if r.random() < 0.7 else
                                                                              self.for_item(scope, self.depth)] + [("IBlank",)] * k2
            if r.random() < 0.5:
                body.append(("IText", self.pieces(scope), False))
            self.tag("blank-run-between-blocks")
        if r.random() < 0.2:
            # the same variable shown before a block, rebound by a statement inside the block, shown again after it
            v = r.choice(["a", "b", "c", "n"])
            inner = [("IStmt", f"{v} = {v} + {r.randint(1, 5)}")]
            if r.random() < 0.5:
                inner.append(("IText", [("T", "inside "), ("E", v)], False))
            blk = ("IIf", [(r.choice(["True", "a == a", "xs"]), inner, [])]) if r.random() < 0.6 else ("IFor", "q", "[1, 2]", inner, [])
            body += [("IText", [("T", "Before "), ("E", v)], False), blk, ("IText", [("T", "After "), ("E", v)], r.random() < 0.2)]
            self.tag("rebound-in-block-shown-after")
        if name != "Start" and r.random() < 0.2:
            t = r.choice([n for n in self.names if n != name] or self.names)
            body.append(("IJump", t, self.call_args(t, scope)))
            self.tag("top-jump")
        # choices (and, sometimes, @join sections)
        if r.random() < 0.2:
            self.tag("join")
            for sec in range(r.randint(1, 2)):
                for _ in range(r.randint(1, 2)):
                    blk = []
                    for _ in range(r.randint(0, 2)):
                        blk.append(("IText", self.pieces((), allow_cond=False), False) if r.random() < 0.6 else ("IStmt", self.stmt()))
                    choices.append((joins, self.choice(scope, block=blk, target="@join")))
                body.append(("IJoin",))
                joins += 1
                body.append(("IText", [("T", f"Section {joins}")], False))
        for _ in range(r.randint(1, 3)):
            choices.append((joins, self.choice(scope)))
        return (name, params, body, choices)

    def story(self):
        return [self.passage(n) for n in self.names]


# ---------------------------------------------------------------------------------------------- printing as .bard
def print_pieces(ps):
    out = ""
    for p in ps:
        if p[0] == "T":
            out += p[1]
        elif p[0] == "E":
            out += "{" + p[1] + "}"
        else:
            out += "{" + p[1] + " ? " + print_pieces(p[2]) + " | " + print_pieces(p[3]) + "}"
    return out


def print_choice(c):
    _, tx, t, args, cond, sticky, blk = c
    line = ("+" if sticky else "*") + " " + ("{" + cond + "} " if cond else "") + "[" + print_pieces(tx) + "] -> " + t + \
           (f"({args})" if args else "")
    lines = [line]
    for it in blk:
        lines += ["    " + l for l in print_item(it)]
    return lines


def print_item(it):
    k = it[0]
    if k == "IText":
        return [print_pieces(it[1]) + ("<>" if it[2] else "")]
    if k == "IBlank":
        return [""]
    if k == "IStmt":
        return ["~ " + it[1]]
    if k == "IPy":
        return ["@py:"] + it[1].split("\n") + ["@endpy"]
    if k == "IIf":
        out = []
        for i, (cond, body, chs) in enumerate(it[1]):
            out.append(("@if " if i == 0 else "@elif ") + cond + ":" if not (i > 0 and cond == "True") else "@else:")
            for b in body:
                out += ["    " + l if l else l for l in print_item(b)]
            for c in chs:
                out += ["    " + l for l in print_choice(c)]
        return out + ["@endif"]
    if k == "IFor":
        out = [f"@for {it[1]} in {it[2]}:"]
        for b in it[3]:
            out += ["    " + l if l else l for l in print_item(b)]
        for c in it[4]:
            out += ["    " + l for l in print_choice(c)]
        return out + ["@endfor"]
    if k == "IJump":
        return ["-> " + it[1] + (f"({it[2]})" if it[2] else "")]
    if k == "IRender":
        return [f"@render {it[1]}({it[2]})"]
    if k == "IInput":
        return ['@input name="%s"' % dict(it[1])["name"]]
    if k == "IHook":
        return [("@hook " if it[1] else "@unhook ") + it[2] + " " + it[3]]
    if k == "IJoin":
        return ["@join"]
    raise AssertionError(k)


def print_story(st):
    lines = []
    for name, params, body, choices in st:
        hdr = ":: " + name
        if params:
            hdr += "(" + ", ".join(p if d is None else f"{p}={d}" for p, d in params) + ")"
        lines.append(hdr)
        sec = 0
        pending = list(choices)
        for it in body:
            if it[0] == "IJoin":
                for s_, c in [x for x in pending if x[0] == sec]:
                    lines += print_choice(c)
                pending = [x for x in pending if x[0] != sec]
                sec += 1
            lines += print_item(it)
        for s_, c in pending:
            lines += print_choice(c)
    return "\n".join(lines)


# ---------------------------------------------------------------------------------------------- Coq terms
def t_pieces(ps):
    def one(p):
        if p[0] == "T":
            return f"(PText {coq_str(p[1])})"
        if p[0] == "E":
            return f"(PExpr {coq_str(p[1])})"
        return f"(PCond {coq_str(p[1])} {t_pieces(p[2])} {t_pieces(p[3])})"
    return coq_list(one(p) for p in ps)


def t_choice(c):
    _, tx, t, args, cond, sticky, blk = c
    return (f"(SChoice {t_pieces(tx)} {coq_str(t)} {coq_str(args)} {coq_opt(cond, coq_str)} {coq_bool(sticky)} "
            f"{coq_list(t_item(i) for i in blk)})")


def t_item(it):
    k = it[0]
    if k == "IText":
        return f"(IText {t_pieces(it[1])} {coq_bool(it[2])})"
    if k == "IBlank":
        return "IBlank"
    if k == "IStmt":
        return f"(IStmt {coq_str(it[1])})"
    if k == "IPy":
        return f"(IPy {coq_str(it[1])})"
    if k == "IIf":
        return "(IIf %s)" % coq_list("(%s, %s, %s)" % (coq_str(c), coq_list(t_item(b) for b in body),
                                                    coq_list(t_choice(x) for x in chs)) for c, body, chs in it[1])
    if k == "IFor":
        return (f"(IFor {coq_str(it[1])} {coq_str(it[2])} {coq_list(t_item(b) for b in it[3])} "
                f"{coq_list(t_choice(x) for x in it[4])})")
    if k == "IJump":
        return f"(IJump {coq_str(it[1])} {coq_str(it[2])})"
    if k == "IRender":
        return f"(IRender {coq_str(it[1])} {coq_str(it[2])})"
    if k == "IInput":
        return "(IInput %s)" % coq_list(f"({coq_str(a)}, {coq_str(b)})" for a, b in it[1])
    if k == "IHook":
        return f"(IHook {coq_bool(it[1])} {coq_str(it[2])} {coq_str(it[3])})"
    if k == "IJoin":
        return "IJoin"
    raise AssertionError(k)


def t_story(st):
    ps = []
    for name, params, body, choices in st:
        prm = coq_list(f"(mkParam {coq_str(p)} {coq_opt(d, coq_str)})" for p, d in params)
        ps.append(f"(mkSP {coq_str(name)} {prm} {coq_list(t_item(i) for i in body)} "
                  f"{coq_list('(%s, %s)' % (coq_nat(s), t_choice(c)) for s, c in choices)})")
    return f"(mkSS None {coq_list(ps)})"


def ast_arg_strings(st):
    """Every argument string of a choice or jump of the AST (the strings the compiler hands to `ast.parse`)."""
    out = []

    def choice(c):
        if c[3]:
            out.append(c[3])
        for it in c[6]:
            item(it)

    def item(it):
        k = it[0]
        if k == "IJump" and it[2]:
            out.append(it[2])
        elif k == "IIf":
            for _c, body, chs in it[1]:
                for b in body:
                    item(b)
                for c in chs:
                    choice(c)
        elif k == "IFor":
            for b in it[3]:
                item(b)
            for c in it[4]:
                choice(c)

    for _name, _params, body, choices in st:
        for it in body:
            item(it)
        for _sec, c in choices:
            choice(c)
    return sorted(set(out))


def t_call_table(args_list):
    """ParseCheck.call_table: argument string -> (shape by Python's own parser, body is a Call node)."""
    import ast as _ast
    rows = []
    for a in args_list:
        try:
            node = _ast.parse(f"_temp_({a})", mode="eval").body
            if isinstance(node, _ast.Call):
                kws = [k.arg for k in node.keywords if k.arg is not None]
                shape = f"Some ({coq_nat(len(node.args))}, {coq_list(coq_str(k) for k in kws)})"
                rows.append(f"({coq_str(a)}, ({shape}, true))")
            else:
                rows.append(f"({coq_str(a)}, (Some (0, []), false))")
        except (SyntaxError, ValueError, RecursionError, MemoryError):
            rows.append(f"({coq_str(a)}, (None, true))")
    return coq_list(rows)


def decorate(src, rng, stats):
    """Insert '#' comment lines (invisible by the reference) between lines, outside @py bodies."""
    out, in_py = [], False
    for l in src.split("\n"):
        st = l.strip()
        if not in_py and rng.random() < 0.08:
            ind = l[:len(l) - len(l.lstrip(" "))]
            out.append(ind + rng.choice(["# note", "#", "# -> P1", "# ~ a = 9", "#   spaced  "]))
            stats["comment-lines"] = stats.get("comment-lines", 0) + 1
        was_py = in_py
        if st.startswith("@py"):
            in_py = True
        elif st == "@endpy":
            in_py = False
        if st and not was_py and rng.random() < 0.08:
            l = l + rng.choice([" // note", "  // -> P1", " // ~ a = 9", " //"])
            stats["trailing-comments"] = stats.get("trailing-comments", 0) + 1
        out.append(l)
    return "\n".join(out)


PINNED_F01C = ":: Start\n~ a = 1\n@if a:\n    Glued<>\n    ~ a = 2\n    tail\n@endif\n+ [Go] -> Start\n"


def run(tier: str, seed: int) -> int:
    chk = C.Check("C01", tier, seed, "proof")
    props = C.coq_gate(chk)
    C.use_repo()
    from bardic.compiler.compiler import BardCompiler
    rng = chk.rng
    n_cases, n_hist = (130, 2) if tier == "quick" else (1300, 4)
    stats = {"compile_rejected": 0, "unsupported": 0, "constructs": {}, "file_vs_memory": 0, "histories": 0}
    cterms, cmeta, pterms, pmeta = [], [], [], []
    tterms, tmeta, mterms = [], [], []
    tmp = tempfile.mkdtemp(prefix="bardic_verif_c01_")

    # pinned witness of F01c (fixed in b0767bb): glue inside @if before a directive line
    with C.quiet():
        try:
            st = BardCompiler().compile_string(PINNED_F01C)
            recs, _ = R.run_history(st, [])
            if recs and recs[0]["view"] and "Glued\n" in recs[0]["view"]["raw_content"].replace("<>", ""):
                chk.report("glue-in-if-before-directive-not-honoured",
                           "a glued line inside an @if branch that is followed by a ~ statement keeps its '<>' as text and gets a newline",
                           {"story_source": PINNED_F01C, "shown": recs[0]["view"]["raw_content"]})
        except Exception:
            pass

    # escapes: `\//` is a literal `//` (docs/spec.md, comments), also on a line that carries a real comment after it
    stats["escape_cases"] = 0
    for k in range(12 if tier == "quick" else 60):
        sfx = [rng.choice(["", " // a comment", "  // two // slashes", " //"]) for _ in range(5)]
        host = rng.choice(["example.com", "x.y/z", "h"])
        src = ("\n".join([":: Start", "~ a = 1", f"URL: https:\\//{host}{sfx[0]}", "@if a:", f"    in if http:\\//{host} end{sfx[1]}",
                          "@endif", "@for i in [1]:", f"    in for ftp:\\//{host} {{i}}{sfx[2]}", "@endfor",
                          f"glued \\//a<>{sfx[3]}", f"next{sfx[4]}", "+ [Go] -> Start"]))
        want = f"URL: https://{host}\nin if http://{host} end\nin for ftp://{host} 1\nglued //anext\n"
        with C.quiet():
            try:
                st = BardCompiler().compile_string(src)
                recs, _ = R.run_history(st, [])
                got = recs[0]["view"]["raw_content"] if recs and recs[0]["view"] else None
            except Exception as e:  # noqa
                got = f"<{type(e).__name__}: {str(e)[:80]}>"
        stats["escape_cases"] += 1
        if got != want:
            chk.report("escaped-slashes-with-comment", f"a line with the escape \\// (and trailing comments {sfx}) shows {got!r}, "
                       f"the reference says {want!r}", {"story_source": src})
        chk.count(("escape", tuple(sfx), host), True)

    # multi-line ~ statements (docs/spec.md: a statement continues while a bracket is open), at top level and inside
    # @if / @for bodies at any indentation, with `//` as Python code (floor division, `//=`, inside a string literal)
    # on the first and on continuation lines.  Reference: Python's own evaluation of the joined statement.
    stats["multiline_stmt_cases"] = 0
    for k in range(30 if tier == "quick" else 300):
        r = random.Random(rng.randrange(10 ** 9))
        a, b = r.randint(20, 200), r.randint(2, 9)
        exprs = [("(", f"a // b", ")"), ("[", f"a // b,", f"a % b]"), ("(", f"a //", f"b)"), ("[", f"'x//y',", f"a // b]"),
                 ("{", f"'k': a // b,", "'s': 'p // q'}"), ("(", f"(a // b)", f"+ (a // (b + 1)))")]
        hosts = []
        for hk in ("top", "if", "for", "if-in-for"):
            o, l1, l2 = r.choice(exprs)
            ind = {"top": "", "if": " " * r.choice([2, 4]), "for": " " * r.choice([2, 4]), "if-in-for": " " * 4}[hk]
            cont = ind + " " * r.choice([0, 2, 4])
            var = "v_" + hk.replace("-", "_")
            lines = [f"{ind}~ {var} = {o}", f"{cont}{l1}", f"{cont}{l2}"]
            expect = eval(f"{o}\n{l1}\n{l2}", {"a": a, "b": b})
            hosts.append((hk, var, lines, expect))
        body = [":: Start", f"~ a = {a}", f"~ b = {b}"] + hosts[0][2]
        body += ["@if a > 0:"] + hosts[1][2] + ["@endif"]
        body += ["@for i in [1]:"] + hosts[2][2] + ["@endfor"]
        i3 = ["    " + l[4:] if l.startswith("    ") else l for l in hosts[3][2]]
        body += ["@for i in [1]:", "  @if a > 0:"] + hosts[3][2] + ["  @endif", "@endfor"]
        body += ["Values: " + " ".join("{" + h[1] + "}" for h in hosts), "+ [Go] -> Start"]
        src = "\n".join(body)
        want = "Values: " + " ".join(str(h[3]) for h in hosts) + "\n"
        with C.quiet():
            try:
                st = BardCompiler().compile_string(src)
                recs, _ = R.run_history(st, [])
                got = recs[0]["view"]["raw_content"] if recs and recs[0]["view"] else repr(recs[0]["obs"]) if recs else None
            except Exception as e:  # noqa
                got = f"<{type(e).__name__}: {str(e)[:80]}>"
        stats["multiline_stmt_cases"] += 1
        if got != want:
            chk.report("multi-line-statement-departs-from-python",
                       f"a story whose ~ statements span several lines shows {got!r}; evaluating the same statements with Python "
                       f"gives {want!r}", {"story_source": src})
        chk.count(("mlstmt", src), True)

    # a ~ statement that rebinds a variable to a value EQUAL to the old one but of another type (1 -> True, 10 -> 10.0,
    # 0 -> False), and an @for whose body extends the very list it iterates (Python visits the added items): reference =
    # Python's own execution of the same statements
    stats["python_reference_cases"] = 0
    for k in range(16 if tier == "quick" else 160):
        r = random.Random(rng.randrange(10 ** 9))
        v0 = r.choice([0, 1, 10, 2])
        rebind = r.choice(["v = v == %d" % v0 if v0 in (0, 1) else "v = v / 1", "v = v * 1.0", "v = bool(v)" if v0 in (0, 1) else "v = float(v)",
                           "v = v + 0.0"])
        host = r.choice(["top", "if", "for"])
        st_lines = {"top": [f"~ {rebind}"], "if": ["@if True:", f"    ~ {rebind}", "@endif"],
                    "for": ["@for z in [1]:", f"    ~ {rebind}", "@endfor"]}[host]
        env = {"v": v0}
        exec(rebind, {}, env)
        q0 = r.sample([1, 2, 3, 4], r.randint(1, 3))
        grow = r.choice(["q.append(it + 10)", "q.extend([it + 10])"])
        limit = r.randint(3, 6)
        env2 = {"q": list(q0), "seen": []}
        exec(f"for it in q:\n    seen.append(it)\n    if len(q) < {limit}:\n        {grow}", {}, env2)
        src = "\n".join([":: Start", f"~ v = {v0}", f"~ q = {q0}", "~ seen = []", "Start", "+ [Go] -> T", "", ":: T"] + st_lines +
                        ["Typed {v}", "@for it in q:", "    ~ seen.append(it)", f"    @if len(q) < {limit}:", f"        ~ {grow}",
                         "    @endif", "@endfor", "Seen {seen} {q}", "+ [Back] -> Start"])
        want = [f"Typed {env['v']}", f"Seen {env2['seen']} {env2['q']}"]
        with C.quiet():
            try:
                st = BardCompiler().compile_string(src)
                recs, _ = R.run_history(st, [("choose", 0)])
                txt = recs[1]["view"]["raw_content"] if len(recs) > 1 and recs[1]["view"] else repr(recs[-1]["obs"])
            except Exception as e:  # noqa
                txt = f"<{type(e).__name__}: {str(e)[:80]}>"
        got = [l for l in txt.split("\n") if l.startswith("Typed ") or l.startswith("Seen ")]
        stats["python_reference_cases"] += 1
        chk.count(("pyref", src), True)
        if got != want:
            chk.report("statement-or-loop-departs-from-python",
                       f"rebinding ({rebind!r} in {host}) / a loop extending its collection shows {got}; Python gives {want}",
                       {"story_source": src})

    try:
        for i in range(n_cases):
            sub = rng.randrange(10 ** 9)
            r = random.Random(sub)
            g = SrcGen(r, depth=2 if tier == "quick" else 3)
            ast_ = g.story()
            src0 = print_story(ast_)
            # the Gallina twin of the printer (Story/SourcePrint.v) must print the same lines (before decoration)
            tterms.append(f"({t_story(ast_)}, {coq_list(coq_str(l) for l in src0.split(chr(10)))})")
            mterms.append(f"({t_story(ast_)}, {t_call_table(ast_arg_strings(ast_))})")
            tmeta.append((sub, src0))
            src = decorate(src0, random.Random(sub ^ 0x5EED), g.stats)
            for k_, v_ in g.stats.items():
                stats["constructs"][k_] = stats["constructs"].get(k_, 0) + v_

            def report(sig, what, extra=None, _src=src, _sub=sub):
                chk.report(sig, what, dict({"subseed": _sub, "story_source": _src}, **(extra or {})))
            try:
                with C.quiet():
                    real = BardCompiler().compile_string(src)
            except Exception as e:  # noqa
                stats["compile_rejected"] += 1
                report(f"well-formed-source-rejected:{type(e).__name__}",
                       f"a story generated from the documented grammar is rejected by the compiler: {str(e)[:200]}")
                continue
            # compile to a file and load the JSON: must play (be) the same as compiling in memory
            with C.quiet():
                p_in, p_out = os.path.join(tmp, f"s{i}.bard"), os.path.join(tmp, f"s{i}.json")
                open(p_in, "w").write(src)
                try:
                    BardCompiler().compile_file(p_in, p_out)
                    from_file = json.load(open(p_out))
                    stats["file_vs_memory"] += 1
                    if from_file != json.loads(json.dumps(real)):
                        report("file-compile-differs-from-memory", "compile_file + json.load differs from compile_string")
                except Exception as e:  # noqa
                    report(f"compile-file-raised-{type(e).__name__}", str(e)[:200])
            chk.count(("c", sub), any(k in g.stats for k in ("if", "for", "join", "inline-cond")))
            if i < 2:
                chk.sample({"subseed": sub, "story_source": src})
            try:
                tb = S.Tables()
                real_term = S.story(real, tb)
                cterms.append(f"({t_story(ast_)}, {real_term})")
                cmeta.append((sub, src))
            except Unsupported:
                stats["unsupported"] += 1
                continue
            # play
            for h in range(n_hist):
                ops = [("choose_valid", r.randint(0, 5)) if r.random() < 0.8 else r.choice([("undo",), ("redo",), ("read",)])
                       for _ in range(r.randint(2, 8))]
                recs, eng = R.run_history(real, ops)
                if eng is None or any(x["obs"][0] == "timeout" for x in recs):
                    continue
                stats["histories"] += 1
                try:
                    tb2 = S.Tables()
                    S.story(real, tb2)
                    opsT = coq_list(R.op_term(x["op"], tb2) for x in recs[1:])
                    exp = coq_list(f"({R.obs_term(x['obs'])}, {R.view_term(x['view'])})" for x in recs)
                    term = f"({t_story(ast_)}, {tb2.term()}, {opsT}, {exp})"
                    if len(term) > 200000:
                        # a play whose text grows without bound (a list appended to inside a loop over itself, repeated over
                        # the history): judged by the reference comparison of shorter plays only
                        stats["play_term_too_large"] = stats.get("play_term_too_large", 0) + 1
                        continue
                    pterms.append(term)
                    pmeta.append((sub, src, recs))
                except Unsupported:
                    stats["unsupported"] += 1
    finally:
        import shutil
        shutil.rmtree(tmp, ignore_errors=True)

    bad, shown, log = C.run_coq_cases(chk.scratch, HEADER, cterms, "ccase", "ccase_bad", shard=40, show_fn="ccase_show")
    for b in bad:
        if isinstance(b, int):
            sub, src = cmeta[b]
            chk.report("compiler-departs-from-compile_ref",
                       "the compiler's output for a generated source differs from compile_ref (the specification for which the "
                       "reference meaning is proved); differing passages: " + (shown.get(b) or "")[:200],
                       {"subseed": sub, "story_source": src})
        else:
            chk.disagree("compile-coqc", "a case shard failed to evaluate", {"log": log[-1500:]})
    # string level inside Coq: (a) print_story of the AST = the Python printer's lines; (b) where `printable` holds, the
    # parser model run on the printed lines = compile_ref (proved for stories without @if/@for, checked here for all)
    badt, shownt, logt = C.run_coq_cases(chk.scratch, HEADER_SP, tterms, "tcase", "print_case_bad", shard=40,
                                         show_fn="print_case_show")
    for b in badt:
        if isinstance(b, int):
            sub, src0 = tmeta[b]
            chk.disagree("gallina-printer-differs-from-python-printer",
                         "Story/SourcePrint.v print_story and harness/c01.py print_story give different lines for one AST: "
                         + (shownt.get(b) or "")[:300], {"subseed": sub, "story_source": src0})
        else:
            chk.disagree("printer-coqc", "a case shard failed to evaluate", {"log": logt[-1500:]})
    badm, shownm, logm = C.run_coq_cases(chk.scratch, HEADER_SP, mterms, "mcase", "mcase_bad", shard=40, show_fn="mcase_show")
    for b in badm:
        if isinstance(b, int):
            sub, src0 = tmeta[b]
            chk.disagree("parser-model-on-printed-text-differs-from-compile_ref",
                         "a printable AST whose printed text the parser model does not compile to compile_ref: "
                         + (shownm.get(b) or "")[:300], {"subseed": sub, "story_source": src0})
        else:
            chk.disagree("printable-coqc", "a case shard failed to evaluate", {"log": logm[-1500:]})
    badu, _, logu = C.run_coq_cases(chk.scratch, HEADER_SP, mterms, "mcase", "mcase_unprintable", shard=40)
    stats["printer_twin_compared"] = len(tterms)
    stats["ast_not_printable"] = len([b for b in badu if isinstance(b, int)])
    if any(not isinstance(b, int) for b in badu):
        chk.disagree("printable-coqc", "a case shard failed to evaluate", {"log": logu[-1500:]})
    bad2, shown2, log2 = C.run_coq_cases(chk.scratch, HEADER, pterms, "pcase", "pcase_bad", shard=25, show_fn="pcase_show")
    for b in bad2:
        if isinstance(b, int):
            sub, src, recs = pmeta[b]
            chk.report("play-departs-from-reference",
                       "the real engine's play of the really compiled story differs from the model's play of compile_ref: "
                       + (shown2.get(b) or "")[:200],
                       {"subseed": sub, "story_source": src, "ops": [x["op"] for x in recs[1:]], "obs": [x["obs"] for x in recs[1:]]})
        else:
            chk.disagree("play-coqc", "a case shard failed to evaluate", {"log": log2[-1500:]})
    chk.cov["programs"] = len(cterms)
    chk.cov["disagreements_checked"] = len(cterms) + len(pterms) + len(tterms) + len(mterms)
    chk.cov["rule"] = ("source ASTs generated from the documented grammar (passages with parameters; text lines with {expr}, format specs, "
                       "inline conditionals, glue; blank lines; ~ and @py at top level and in blocks; @if/@elif/@else and @for nested to depth "
                       "2-3 with choices and jumps inside; @render/@input/@hook; @join sections with choice blocks), printed with 4-space "
                       "block indentation.  non-trivial = the story has a block, a join section or an inline conditional; distinct by sub-seed")
    chk.notes["input_distribution"] = stats
    chk.assumptions = ["expressions avoid '^' (tags: documented position is the end of a line)", "generated code stays inside the mini-Python of Lang/PyMini.v"]
    return chk.finish(props, C.BASE_TRUST + ["Story/Source.v compile_ref: the specification of the compiler on source ASTs (tied to the real "
                                             "compiler by this run); the .bard printer of harness/c01.py (tied line by line to Story/SourcePrint.v print_story, for which "
                                             "parse_real (print_story s) = compile_ref s is proved)"],
                      "make -C /verif/coq && coqc -Q /verif/coq Bardic /verif/coq/Props/C01.v")
