"""C05 — save -> JSON -> load into a fresh engine continues exactly like the original.

(1) Coq gate for Props/C05.v.  (2) Correspondence: the engine model is tied to the real engine by the shared
engine run (histories; see engine_props) and load_state's shape test `valid_doc` is evaluated inside Coq on real
and mutated save documents and compared with what the real load_state did.  (3) Direct oracles on the
implementation: save has no effect; load(json(save)) reproduces the whole view; the same continuation on the
loaded engine and on the original (history cleared) gives the same observations step by step; malformed documents
raise ValueError and leave the engine untouched."""
from __future__ import annotations

import copy
import json
import os
import random

from . import common as C
from . import enginegen as G
from . import enginerun as R
from . import engine_props as EP
from .c06 import pj
from .common import coq_str, coq_list, coq_bool
from .pymini import Unsupported

HEADER = ("From Coq Require Import ZArith List String.\n"
          "From Bardic Require Import PyStr Value Compiled Engine Codec SaveLoad SaveLoadCheck.")
HEADER_DOC = R.HEADER + "\nFrom Bardic Require Import Codec SaveLoad SaveOutEnc SaveDocCheck."


def metadata_block(rm):
    """An @metadata block for the head of a generated story (title / version / story_id feed story_name / story_version /
    story_id of the save document; 'unknown' when absent).  Own random stream: the story generator's draws are unchanged."""
    keys = []
    if rm.random() < 0.6:
        keys.append(("title", rm.choice(["The Cave", "Demo", "unknown", "A: B"])))
    if rm.random() < 0.5:
        keys.append(("version", rm.choice(["1.0", "0.3.1", "2", "beta"])))
    if rm.random() < 0.4:
        keys.append(("story_id", rm.choice(["cave-01", "x", "unknown"])))
    if rm.random() < 0.3:
        keys.append(("author", "nobody"))
    rm.shuffle(keys)
    if not keys and rm.random() < 0.7:
        return ""
    return "@metadata\n" + "".join(f"  {k}: {v}\n" for k, v in keys) + "\n"


def jdoc(x):
    """The raw dict save_state() returned as a Codec.json term, keys in the dict's own order."""
    if x is None:
        return "JNull"
    if isinstance(x, bool):
        return "(JBool true)" if x else "(JBool false)"
    if isinstance(x, int):
        return f"(JInt ({x})%Z)"
    if isinstance(x, str):
        return f"(JStr {coq_str(R.S.check_ascii(x))})"
    if isinstance(x, list):
        return "(JList " + coq_list(jdoc(y) for y in x) + ")"
    if isinstance(x, dict):
        if not all(isinstance(k, str) for k in x):
            raise Unsupported("non-string key")
        return "(JObj " + coq_list(f"({coq_str(R.S.check_ascii(k))}, {jdoc(y)})" for k, y in x.items()) + ")"
    raise Unsupported(f"save document holds a {type(x).__name__}")


def save_doc_term(story, recs, doc):
    """scase term for Engine/SaveDocCheck.v: the model's save document after the same history against `doc`."""
    if not all(isinstance(v, str) for v in (story.get("metadata") or {}).values()):
        raise Unsupported("metadata value that is not a string")
    tb = R.S.Tables()
    st = R.S.story(story, tb)
    ops = coq_list(R.op_term(x["op"], tb) for x in recs[1:])
    d = copy.deepcopy(doc)
    if isinstance(d.get("current_output"), dict) and isinstance(d["current_output"].get("content"), str):
        d["current_output"]["content"] = R.canon_content(d["current_output"]["content"])   # {ERROR: msg} -> {ERROR}, as in every view
    return f"({st}, {tb.term()}, {ops}, {coq_str(doc['timestamp'])}, {jdoc(d)})"


def clean(v):
    return {k: x for k, x in v.items() if k not in ("raw_content",)}


def mutate_doc(doc, rng, names):
    """One malformed variant of a valid save document; returns (doc', tag)."""
    d = copy.deepcopy(doc)
    kind = rng.choice(["not-dict", "no-version", "passage-type", "passage-unknown", "state-type", "used-type",
                       "used-item-type", "hooks-type", "hooks-item-type", "join-type", "join-negative", "join-bool",
                       "output-type", "output-content-type", "output-passage-unknown", "output-choices-type",
                       "output-choice-no-target", "output-directives-type", "output-jump-type", "drop-key",
                       "harmless-extra-key", "output-null", "state-null-value"])
    if kind == "not-dict":
        return rng.choice([[], "save", 3, None, [d]]), kind
    if kind == "no-version":
        d.pop("version", None)
    elif kind == "passage-type":
        d["current_passage_id"] = rng.choice([3, None, ["Start"], {"a": 1}, True])
    elif kind == "passage-unknown":
        d["current_passage_id"] = rng.choice(["Nowhere", "", "start", names[0] + "x"])
    elif kind == "state-type":
        d["state"] = rng.choice([[], None, "x", 3])
    elif kind == "used-type":
        d["used_choices"] = rng.choice([{}, None, "abc", 3])
    elif kind == "used-item-type":
        d["used_choices"] = list(d.get("used_choices", [])) + [rng.choice([3, None, ["x"]])]
    elif kind == "hooks-type":
        d["hooks"] = rng.choice([[], None, "x", 3])
    elif kind == "hooks-item-type":
        d["hooks"] = {"turn_end": rng.choice(["H0", None, [3], [None], {"a": 1}])}
    elif kind == "join-type":
        d["join_section_index"] = rng.choice([[], None, "x", 1])
    elif kind == "join-negative":
        d["join_section_index"] = {names[0]: -1}
    elif kind == "join-bool":
        d["join_section_index"] = {names[0]: rng.choice([True, "1", None, 1.5 if False else [1]])}
    elif kind == "output-type":
        d["current_output"] = rng.choice([[], "x", 3, True])
    elif kind == "output-content-type" and isinstance(d.get("current_output"), dict):
        d["current_output"]["content"] = rng.choice([None, 3, ["x"]])
    elif kind == "output-passage-unknown" and isinstance(d.get("current_output"), dict):
        d["current_output"]["passage_id"] = rng.choice(["Nowhere", None, 3])
    elif kind == "output-choices-type" and isinstance(d.get("current_output"), dict):
        d["current_output"]["choices"] = rng.choice([None, {}, "x", [3], [None], [[1]]])
    elif kind == "output-choice-no-target" and isinstance(d.get("current_output"), dict):
        d["current_output"]["choices"] = [{"text": "Go"}] if rng.random() < 0.5 else [{"text": 3, "target": "Start"}]
    elif kind == "output-directives-type" and isinstance(d.get("current_output"), dict):
        key = rng.choice(["render_directives", "input_directives"])
        d["current_output"][key] = rng.choice([None, {}, "x", [3], ["d"]])
    elif kind == "output-jump-type" and isinstance(d.get("current_output"), dict):
        d["current_output"]["jump_target"] = rng.choice([3, ["x"], {}, True])
    elif kind == "drop-key":
        k = rng.choice([k for k in d.keys() if k != "version"] or ["version"])
        d.pop(k, None)
        kind = f"drop-key:{k}"
    elif kind == "harmless-extra-key":
        d["zzz_extra"] = {"anything": [1, 2]}
    elif kind == "output-null":
        d["current_output"] = None
    elif kind == "state-null-value":
        d.setdefault("state", {})["nullvar"] = None
    return d, kind


def strip_volatile(doc):
    return {k: v for k, v in doc.items() if k != "timestamp"}


def run(tier: str, seed: int) -> int:
    chk = C.Check("C05", tier, seed, "proof")
    props = C.coq_gate(chk)
    C.use_repo()
    rng = chk.rng
    n_cases, max_ops, n_mut = (110, 10, 3) if tier == "quick" else (1200, 25, 6)
    stats = {"save_points": 0, "continuation_steps": 0, "malformed": {}, "accepted_mutants": 0, "compile_failed": 0,
             "mech": {}}
    vterms, vmeta = [], []
    sterms, smeta = [], []
    stats["save_documents"] = {"compared": 0, "unsupported": 0, "with_metadata_block": 0}
    prof = dict(hooks=0.6, join=0.6, params=0.5, jumps=0.5, inplace=0.6, one_time=0.5, faults=0.05)
    cls = None
    for i in range(n_cases):
        sub = rng.randrange(10 ** 9)
        r = random.Random(sub)
        g = G.Gen(r, G.Profile(**prof))
        src = metadata_block(random.Random(sub ^ 0x5A5A5A)) + g.source()
        try:
            story = R.compile_story(src)
        except Exception:
            stats["compile_failed"] += 1
            continue
        ops = G.gen_ops(r, r.randint(1, max_ops), saveload=True)
        recs, eng = R.run_history(story, ops)
        if eng is None or any(x["obs"][0] == "timeout" for x in recs):
            continue
        names = list(story["passages"].keys())
        cls = R.engine_class()

        def report(sig, what, extra=None, _src=src, _recs=recs, _sub=sub):
            chk.report(sig, what, dict({"subseed": _sub, "story_source": _src,
                                        "ops_before_save": [x["op"] for x in _recs[1:]]}, **(extra or {})))

        with C.quiet():
            before = R.view(eng)
            try:
                d1 = eng.save_state()
                d2 = eng.save_state()
            except Exception as e:  # noqa
                report(f"save-raised-{type(e).__name__}", f"save_state() raised {e!r}")
                continue
            after = R.view(eng)
            # the document itself against the model's (all 12 keys in order, Engine/SaveDocCheck.v)
            try:
                sterms.append(save_doc_term(story, recs, d1))
                smeta.append((sub, src, recs, d1))
                stats["save_documents"]["with_metadata_block"] += 1 if story.get("metadata") else 0
            except (Unsupported, ValueError):
                stats["save_documents"]["unsupported"] += 1
            if clean(before) != clean(after):
                report("save-changed-state", f"save_state() changed {[k for k in before if before[k] != after[k]]}")
            if strip_volatile(d1) != strip_volatile(d2):
                report("save-not-a-function-of-state", "two consecutive saves differ")
            try:
                text = json.dumps(d1)
            except Exception as e:  # noqa
                report("save-not-json", f"json.dumps(save_state()) raised {e!r}")
                continue
            doc = json.loads(text)
            fresh = cls(copy.deepcopy(story))
            try:
                fresh.load_state(copy.deepcopy(doc))
            except Exception as e:  # noqa
                report(f"load-of-own-save-raised-{type(e).__name__}", f"load_state(json(save_state())) raised {e!r}")
                continue
            vf, vo = R.view(fresh), R.view(eng)
        stats["save_points"] += 1
        nontrivial = vo["join"].get(vo["pid"], 0) >= 1 or bool(vo["hooks"]) or "PARAMS" in vo["content"] or len(EP.tr_of(vo)) > 2
        for k in ("join section >= 1" if vo["join"].get(vo["pid"], 0) >= 1 else None,
                  "hooks registered" if vo["hooks"] else None,
                  "parameterised passage shown" if "PARAMS" in vo["content"] else None,
                  "used one-time choices" if vo["used"] else None):
            if k:
                stats["mech"][k] = stats["mech"].get(k, 0) + 1
        chk.count(("s", sub), nontrivial)
        for k in vo:
            if k in ("can_undo", "can_redo", "raw_content"):
                continue
            if vf[k] != vo[k]:
                report(f"load-not-faithful:{k}", f"after load the {k} differ from the saved session", {"saved": vo[k], "loaded": vf[k]})
        if vf["can_undo"] or vf["can_redo"]:
            report("load-kept-history", "undo/redo available right after load")
        # loading into a USED engine (not fresh) must give the same
        with C.quiet():
            used_eng = cls(copy.deepcopy(story))
            try:
                used_eng.choose(0)
            except Exception:
                pass
            try:
                used_eng.load_state(copy.deepcopy(doc))
                vu = R.view(used_eng)
                if clean(vu) != clean(vf):
                    report("load-depends-on-previous-state", f"loading into a used engine differs in {[k for k in vu if vu[k] != vf[k]]}")
            except Exception as e:  # noqa
                report(f"load-into-used-engine-raised-{type(e).__name__}", repr(e))
        # the SAME parsed document loaded again after play (a checkpoint kept in memory): the first load and the play
        # after it must not have changed it, and it must restore the same situation again
        with C.quiet():
            again = cls(copy.deepcopy(story))
            kept = json.loads(text)
            frozen = copy.deepcopy(kept)
            try:
                again.load_state(kept)
                continue_history(again, story, G.gen_ops(r, r.randint(2, 6), "choose-only"))
                if kept != frozen:
                    report("play-after-load-changed-document", "the loaded document changed while the game was played on: "
                           f"{[k for k in kept if kept[k] != frozen.get(k)]}")
                again.load_state(kept)
                v2 = R.view(again)
                for k in vf:
                    if k not in ("can_undo", "can_redo", "raw_content") and v2[k] != vf[k]:
                        report(f"second-load-of-same-document-differs:{k}", f"loading the same document a second time gives other {k}",
                               {"first": vf[k], "second": v2[k]})
            except Exception as e:  # noqa
                report(f"repeat-load-raised-{type(e).__name__}", repr(e))
        # same continuation on the original (history cleared) and on the loaded engine
        with C.quiet():
            eng.undo_stack.clear()
            eng.redo_stack.clear()
        cont = G.gen_ops(r, r.randint(2, max_ops), saveload=True)
        ra, _ = continue_history(eng, story, cont)
        rb, _ = continue_history(fresh, story, cont)
        for k2, (a, b) in enumerate(zip(ra, rb)):
            stats["continuation_steps"] += 1
            if a["obs"] != b["obs"] or clean(a["view"] or {}) != clean(b["view"] or {}):
                diff = [kk for kk in (a["view"] or {}) if (a["view"] or {}).get(kk) != (b["view"] or {}).get(kk)]
                report("continuation-differs", f"step {k2} of the continuation: obs {a['obs']} vs {b['obs']}, fields {diff}",
                       {"continuation": [x["op"] for x in ra[:k2 + 1]]})
                break
        if i < 2:
            chk.sample({"subseed": sub, "story_source": src, "ops_before_save": [x["op"] for x in recs[1:]],
                        "save_document": strip_volatile(doc), "continuation": cont})
        # malformed documents
        for _ in range(n_mut):
            md, tag = mutate_doc(doc, r, names)
            stats["malformed"][tag.split(":")[0]] = stats["malformed"].get(tag.split(":")[0], 0) + 1
            with C.quiet():
                # a running game WITH history, somewhere in the story - often past the first section of a @join passage
                # (undo and redo both available when the story allows it): a rejected load must leave all of it untouched
                pre = [("choose_valid", r.randint(0, 5)) for _ in range(r.randint(1, 4))]
                if g.joins and r.random() < 0.6:
                    pre = [("choose_text", "Enter " + r.choice(g.joins), 0)] + [("choose_text", "Join", r.randint(0, 5)) for _ in range(r.randint(1, 3))]
                pre += [("choose_valid", r.randint(0, 5)), ("undo",)]
                _, target = R.run_history(story, pre)
                if target is None:
                    target = cls(copy.deepcopy(story))
                vb = R.view(target)
                depth_b = (len(target.undo_stack), len(target.redo_stack))
                try:
                    target.load_state(copy.deepcopy(md))
                    accepted = True
                except ValueError:
                    accepted = False
                except Exception as e:  # noqa
                    accepted = None
                    report(f"malformed-save-raised-{type(e).__name__}:{tag}", f"load_state of a malformed document raised {e!r}",
                           {"document": md})
                va = R.view(target)
            if accepted is False and (clean(va) != clean(vb) or depth_b != (len(target.undo_stack), len(target.redo_stack))):
                changed = [k for k in va if va[k] != vb[k]] or ["undo/redo history"]
                report(f"rejected-load-changed-state:{tag}", f"ValueError but {changed} changed", {"document": md})
            if accepted:
                stats["accepted_mutants"] += 1
            legacy_rejected = (accepted is False and isinstance(md, dict) and md.get("current_output") is None)
            if legacy_rejected:
                # older format: re-entering the saved passage failed and the game was put back (load_outcomes);
                # whether re-entry succeeds is not a matter of the document's shape
                stats["malformed"]["legacy-reentry-failed"] = stats["malformed"].get("legacy-reentry-failed", 0) + 1
            if accepted is not None and not legacy_rejected:
                try:
                    vterms.append(f"({coq_list(coq_str(n) for n in names)}, {pj(md)}, {coq_bool(accepted)})")
                    vmeta.append((tag, md, names, accepted))
                except (Unsupported, ValueError):
                    pass
        # the unmutated document must be accepted by the shape test
        try:
            vterms.append(f"({coq_list(coq_str(n) for n in names)}, {pj(doc)}, true)")
            vmeta.append(("valid", doc, names, True))
        except (Unsupported, ValueError):
            pass

    bad, shown, log = C.run_coq_cases(chk.scratch, HEADER, vterms, "vcase", "vcase_bad", shard=150, show_fn="vcase_show")
    for b in bad:
        if isinstance(b, int):
            tag, md, names, accepted = vmeta[b]
            if accepted:
                chk.report(f"malformed-save-accepted:{tag}",
                           "load_state accepted a document that the specification of well-formed saves (valid_doc, for which "
                           "load_rejects_malformed is proved) rejects", {"document": md, "passages": names})
            else:
                chk.disagree("valid_doc", "load_state rejected a document the model's shape test accepts",
                             {"document": md, "passages": names, "tag": tag})
        else:
            chk.disagree("valid_doc-coqc", "a case shard failed to evaluate", {"log": log[-1500:]})
    # ---- the save document itself: model's save_json after the same history vs the dict save_state() returned ----
    stats["save_documents"]["compared"] = len(sterms)
    bad, shown, log = C.run_coq_cases(chk.scratch, HEADER_DOC, sterms, "scase", "scase_bad", shard=12, show_fn="scase_show")
    for b in bad:
        if isinstance(b, int):
            sub_, src_, recs_, d_ = smeta[b]
            chk.disagree("save-document", "the document of save_state() differs from the model's save_json after the same history "
                         "(keys_ok, top_ok, output_ok, model's output without choices, model's top level): " + (shown.get(b) or "")[:2500],
                         {"subseed": sub_, "story_source": src_, "ops": [x["op"] for x in recs_[1:]],
                          "document": {k: v for k, v in d_.items()}})
        else:
            chk.disagree("save-document-coqc", "a case shard failed to evaluate", {"log": log[-1500:]})
    # ---- "after a JSON round trip": real save documents and compiled stories as TEXT against Codec/JsonText.v ----
    from . import jsontext_tie
    stats["json_text"] = jsontext_tie.phase(chk, random.Random(rng.randrange(10 ** 9)), 20 if tier == "quick" else 200,
                                            docs=True, texts=False)
    # ---- a save kept IN MEMORY while the session goes on (quick-save slot): the document taken at a point and encoded at
    # once must equal the same document encoded only after further play mutated lists / dicts in place ----
    stats["quick_saves"] = 0
    for k in range(20 if tier == "quick" else 200):
        r = random.Random(rng.randrange(10 ** 9))
        g = G.Gen(r, G.Profile(hooks=0.4, join=0.3, params=0.3, jumps=0.4, inplace=1.0, one_time=0.4, faults=0.0))
        src = g.source()
        try:
            story = R.compile_story(src)
        except Exception:
            continue
        recs, eng = R.run_history(story, [("choose_valid", r.randint(0, 5)) for _ in range(r.randint(0, 4))])
        if eng is None:
            continue
        with C.quiet():
            try:
                slot = eng.save_state()
                at_once = json.loads(json.dumps(slot))
                for _ in range(r.randint(2, 6)):
                    n_ch = len(eng.current().choices)
                    if not n_ch:
                        break
                    try:
                        eng.choose(r.randrange(n_ch))
                    except Exception:  # noqa
                        break
                later = json.loads(json.dumps(slot))
            except Exception:  # noqa
                continue
        stats["quick_saves"] += 1
        chk.count(("quicksave", src), True)
        a, b = strip_volatile(at_once), strip_volatile(later)
        if a != b:
            diff = [kk for kk in a if a[kk] != b.get(kk)]
            chk.report("later-play-changed-save:" + ",".join(sorted(diff)),
                       f"a save document kept in memory changed in {diff} while the session went on (it is loaded later as a "
                       "quick-save: the loaded game would not be the saved one)", {"story_source": src})

    # ---- continuation with OBJECTS in the variables ----
    stats["object_continuations"] = object_continuation_phase(chk, rng, 12 if tier == "quick" else 120)
    chk.cov["programs"] = stats["save_points"]
    chk.cov["disagreements_checked"] = len(vterms)
    chk.cov["rule"] = ("save points = the state after a random history on a generated story (hooks, @join, parameters, chains, "
                       "in-place mutation); each is saved, dumped, loaded into a fresh and into a used engine, compared field by field, "
                       "and continued with the same random continuation on the original (history cleared) and the loaded engine; "
                       "plus mutated documents compared with the model's valid_doc inside Coq.  non-trivial = the save point has join "
                       "progress, hooks, parameters or a chain behind it; distinct by sub-seed")
    chk.notes["input_distribution"] = stats
    chk.assumptions = ["the displayed output's JSON form is decoded by plain data copy (out_enc/out_dec of the theorems)",
                       "variables are in the value codec's supported domain (C06)",
                       "the timestamp of the document is a parameter of the model (the value the implementation wrote is handed in)",
                       "in the document comparison used_choices is compared as a set (model: order of use, engine: sorted) and the "
                       "compiled choice dicts inside current_output are not compared (optional keys, Engine/SaveOutEnc.v)"]
    return chk.finish(props, C.BASE_TRUST + ["modelled: save_state/load_state (Engine/SaveLoad.v) over the value codec (Codec/Codec.v)"],
                      "make -C /verif/coq && coqc -Q /verif/coq Bardic /verif/coq/Props/C05.v")


OBJ_MODULE = '''
import dataclasses


class Pack:
    def __init__(self, owner):
        self.owner = owner
        self.things = []

    def put(self, x):
        self.things.append(x)
        return len(self.things)


class Deck:
    class Card:
        def __init__(self, rank):
            self.rank = rank

        def up(self):
            self.rank += 1
            return self.rank


Card = Deck.Card


@dataclasses.dataclass(frozen=True)
class Coin:
    face: str
    worth: int

    def twice(self):
        return self.worth * 2


class Tally:
    """an object the story uses by CALLING it"""

    def __init__(self):
        self.count = 0

    def __call__(self, k=1):
        self.count += k
        return self.count


class Squad:
    """custom serialisation whose save dict holds OTHER objects (a Card, and a list of Cards)"""

    def __init__(self, lead, rest):
        self.lead = lead
        self.rest = rest

    def to_save_dict(self):
        return {"lead": self.lead, "rest": self.rest}

    @classmethod
    def from_save_dict(cls, d):
        return cls(d["lead"], d["rest"])

    def drill(self):
        return self.lead.up() + sum(c.up() for c in self.rest)


class Sealed:
    _fields = ("tag", "n")

    def __init__(self, tag, n):
        self.tag = tag
        self.n = n

    def __setattr__(self, k, v):
        if k not in self._fields:
            raise AttributeError(k)
        object.__setattr__(self, k, v)

    def bump(self):
        self.n = self.n + 1
        return self.n
'''


def object_continuation_phase(chk, rng, n):
    """Saved games whose variables hold instances of imported classes of several flavours (plain, nested class imported
    under its short name, frozen dataclass, guarded __setattr__, stdlib Wallet/Inventory), also inside lists and other
    objects: after save -> JSON text -> load into a fresh engine the SAME continuation must show the same text, choices
    and variables as the original session (the objects' methods are called by the continuation)."""
    import importlib
    import shutil
    import sys
    import tempfile
    tmp = tempfile.mkdtemp(prefix="bardic_verif_c05_")
    modname = "c05objs"
    with open(os.path.join(tmp, modname + ".py"), "w") as f:
        f.write(OBJ_MODULE)
    sys.path.insert(0, tmp)
    stats = {"stories": 0, "compared_steps": 0}
    try:
        importlib.invalidate_caches()
        cls = R.engine_class()
        for k in range(n):
            r = random.Random(rng.randrange(10 ** 9))
            mk = {"pack": "Pack('ann')", "card": f"Card({r.randint(1, 9)})", "coin": f"Coin('h', {r.randint(1, 9)})",
                  "sealed": f"Sealed('t', {r.randint(0, 5)})", "wallet": f"Wallet({r.randint(0, 50)})", "inv": "Inventory(20)", "tally": "Tally()", "squad": "Squad(Card(1), [Card(2), Card(3)])"}
            use = {"pack": "{pack.put(1)} {len(pack.things)} {pack.owner}", "card": "{card.up()} {card.rank}",
                   "coin": "{coin.twice()} {coin.face}", "sealed": "{sealed.bump()} {sealed.tag}",
                   "wallet": "{wallet.spend(3)} {wallet.gold}", "inv": "{inv.add({'name': 'Rope', 'weight': 1})} {inv.current_weight}", "tally": "{tally()} {tally.count}", "squad": "{squad.drill()} {squad.lead.rank}"}
            kinds = r.sample(sorted(mk), r.randint(2, 5))
            holder = r.choice(["", "list", "attr"])
            lines = [f"from {modname} import Pack, Card, Coin, Sealed, Tally, Squad", "from bardic.stdlib.economy import Wallet",
                     "from bardic.stdlib.inventory import Inventory", "", ":: Start"]
            lines += [f"~ {kd} = {mk[kd]}" for kd in kinds]
            if holder == "list":
                lines.append(f"~ shelf = [{kinds[0]}, [{kinds[1]}]]")
            elif holder == "attr":
                lines += ["~ crate = Pack('crate')", f"~ crate.things = [{kinds[0]}]", f"~ crate.owner = {kinds[1]}"]
            lines += ["Start.", "+ [Go] -> Camp", "", ":: Camp"] + ["Camp " + kd + " " + use[kd] for kd in kinds]
            if holder == "list":
                lines.append("Shelf {type(shelf[0]).__name__} {type(shelf[1][0]).__name__}")
            elif holder == "attr":
                lines.append("Crate {type(crate.things[0]).__name__} {type(crate.owner).__name__}")
            lines += ["+ [Again] -> Camp", "+ [Back] -> Start2", "", ":: Start2", "Back.", "+ [Go] -> Camp"]
            src = "\n".join(lines)
            pre = [("choose", 0)] * r.randint(0, 2)
            post = [("choose", r.choice([0, 0, 1])) for _ in range(r.randint(2, 4))]
            with C.quiet():
                try:
                    story = R.compile_story(src)
                    e1 = cls(copy.deepcopy(story))
                    for op in pre:
                        e1.choose(op[1])
                    doc = json.loads(json.dumps(e1.save_state()))
                    e2 = cls(copy.deepcopy(story))
                    e2.load_state(doc)
                except Exception as ex:  # noqa
                    chk.report("object-save-load-raised", f"saving / loading a game holding {kinds} raised {type(ex).__name__}",
                               {"story_source": src, "ops_before_save": pre, "exception": repr(ex)[:300]})
                    continue
                stats["stories"] += 1
                for j, op in enumerate(post):
                    outs = []
                    for e in (e1, e2):
                        try:
                            o = e.choose(op[1] % max(1, len(e.current().choices)))
                            outs.append(("ok", o.content, [c["text"] for c in o.choices]))
                        except Exception as ex:  # noqa
                            outs.append(("exc", type(ex).__name__))
                    stats["compared_steps"] += 1
                    if outs[0] != outs[1]:
                        chk.report("continuation-differs:objects",
                                   f"after save -> JSON -> load the continuation differs at step {j} for a game holding {kinds} "
                                   f"({holder or 'in variables'}): original {str(outs[0])[:200]!r}, loaded {str(outs[1])[:200]!r}",
                                   {"story_source": src, "ops_before_save": pre, "continuation": post[:j + 1]})
                        break
            chk.count(("objcont", src), True)
    finally:
        sys.path.remove(tmp)
        sys.modules.pop(modname, None)
        shutil.rmtree(tmp, ignore_errors=True)
    return stats


def continue_history(eng, story, ops):
    """Run ops on an existing engine (no construction); returns records like enginerun.run_history."""
    recs = []
    names = list(story["passages"].keys())
    with C.quiet():
        for op in ops:
            kind = op[0]
            conc = op
            try:
                with C.alarm(10):
                    if kind == "choose_valid":
                        n = len(eng.current().choices)
                        conc = ("choose", op[1] % n if n else 0)
                        eng.choose(conc[1]); obs = ("ok",)
                    elif kind == "choose":
                        eng.choose(op[1]); obs = ("ok",)
                    elif kind == "undo":
                        obs = ("bool", eng.undo())
                    elif kind == "redo":
                        obs = ("bool", eng.redo())
                    elif kind == "goto_valid":
                        cands = [n for n in names if not story["passages"][n].get("params") and not n.startswith("H")]
                        conc = ("goto", cands[op[1] % len(cands)])
                        eng.goto(conc[1]); obs = ("ok",)
                    elif kind == "reset":
                        eng.reset_one_time_choices(); obs = ("ok",)
                    elif kind == "read":
                        R.read_battery(eng); obs = ("ok",)
                    else:
                        raise AssertionError(kind)
            except C.Timeout:
                recs.append({"op": conc, "obs": ("timeout",), "view": None})
                break
            except Exception as e:  # noqa
                obs = ("exc", R.exn_kind(e))
            recs.append({"op": conc, "obs": obs, "view": R.view(eng)})
    return recs, eng
