"""C06 — story values and custom objects survive save -> JSON text -> load at any depth.

(a) correspondence: generated value trees built as REAL Python objects (test classes written to a temporary
    module `c06mod` that the story imports, plus bardic.stdlib's Wallet/Inventory) go through the real
    `_serialize_value` / json.dumps / json.loads / `_deserialize_value`, and whole variable dictionaries
    through `save_state` / text / `load_state` into a fresh engine for the same story; inputs and what the
    implementation produced are printed as Coq terms and compared inside Coq with Codec/Codec.v
    (`ser`, `deser`, `save_doc`, `load_doc`).  The model carries the code before and after the candidate
    patches F06a-c under three switches; three probes determine the switches of the tree under test.
(b) direct oracles on the implementation, independent of the model: every supported value must come back
    as an equal value of the same type (tuples as lists), compared by type, `__dict__` and method results;
    every name bound by an import line must still be bound to the same object and still be usable in a
    passage after the load.  Failures are classified by the mechanism of the first difference.
"""
from __future__ import annotations

import json
import os
import random as _r
import shutil
import sys
import tempfile
import types

from . import common as C
from .common import coq_str, coq_Z, coq_list, coq_opt, coq_bool

HEADER = ("From Coq Require Import String Ascii List ZArith Bool.\n"
          "From Bardic Require Import PyStr Value Codec CodecCheck.")

MODULE_SRC = '''"""Test classes of /verif/harness/c06.py (generated file)."""


class Plain:
    """plain attribute object"""

    def __init__(self, name, n):
        self.name = name
        self.n = n

    def describe(self):
        return f"{self.name!r}:{self.n!r}"


class Secret:
    """plain attribute object with a private attribute (like bardic.stdlib's Wallet)"""

    def __init__(self, label, pin):
        self.label = label
        self._pin = pin

    def check(self, pin):
        return pin == self._pin


class Box:
    """an object holding other objects"""

    def __init__(self, label, inner, items):
        self.label = label
        self.inner = inner
        self.items = items

    def count(self):
        return len(self.items)


class Hero:
    """custom serialisation, as in docs/cookbook/custom-classes.md (Character)"""

    def __init__(self, name, hp, bag):
        if hp < 0:
            raise ValueError("hp must not be negative")
        self.name = name
        self.hp = hp
        self.bag = bag

    def alive(self):
        return self.hp > 0

    def to_save_dict(self):
        return {"n": self.name, "h": self.hp, "b": self.bag}

    @classmethod
    def from_save_dict(cls, d):
        return cls(d["n"], d["h"], d["b"])


class Ghost:
    """never imported by the story, so never in engine.context"""

    def __init__(self, x):
        self.x = x


def helper(x):
    return x + 1


import dataclasses


class Deck:
    """a class that holds its helper classes: their __qualname__ differs from the name the story imports"""

    class Card:
        def __init__(self, rank, suit):
            self.rank = rank
            self.suit = suit

        def label(self):
            return f"{self.rank!r} of {self.suit!r}"


Card = Deck.Card


@dataclasses.dataclass(frozen=True)
class Coin:
    """an immutable value object: attribute assignment outside __init__ raises"""
    face: object
    worth: object

    def double(self):
        return (self.worth, self.worth)


class Charm:
    """a plain attribute object one of whose attributes is literally named `_type` (the key the save format uses as its
    own marker)"""

    def __init__(self, name, kind):
        self.name = name
        self._type = kind

    def kind(self):
        return (self._type is None, self.name is None)


class Tally:
    """an object the story uses by calling it (a callable instance is data, not an import binding)"""

    def __init__(self, count, note):
        self.count = count
        self.note = note

    def __call__(self):
        return (self.count is None, self.note is None)


class Sealed:
    """accepts attribute assignment only for its declared fields, and validates them"""
    _fields = ("tag", "body")

    def __init__(self, tag, body):
        self.tag = tag
        self.body = body

    def __setattr__(self, k, v):
        if k not in self._fields:
            raise AttributeError(k)
        object.__setattr__(self, k, v)

    def show(self):
        return [self.tag, type(self.body).__name__]
'''

STORY_SRC = '''from c06mod import Plain, Secret, Box, Hero, helper, Card, Coin, Sealed, Tally, Charm
from bardic.stdlib.economy import Wallet
from bardic.stdlib.inventory import Inventory
from bardic.stdlib.relationship import Relationship
import c06mod as cm
import math
from math import floor
from random import randint

:: Start
Start.
+ [Go] -> Camp

:: Camp
Camp.

:: UseBuiltin
{floor(2.5)}

:: UseMethod
{randint(3, 3)}

:: UseClass
{Wallet(5).gold} {Plain("a", 1).n} {Hero("h", 2, []).hp}

:: UseFunc
{helper(1)}

:: UseModule
{cm.helper(2)} {math.floor(2.5)}
'''
USE = {"class": ("UseClass", "5 1 2"), "function": ("UseFunc", "2"), "module": ("UseModule", "3 2"),
       "builtin-function": ("UseBuiltin", "2"), "bound-method": ("UseMethod", "3")}

# the same values built by `~` statements of a story (Mid mutates them, Camp has no commands)
STORY2_SRC = '''from c06mod import Plain, Secret, Box, Hero, helper
from bardic.stdlib.economy import Wallet
from bardic.stdlib.inventory import Inventory

:: Start
~ w = Wallet(30)
~ hero = Hero("Aria", 7, [Plain("sword", 2), (1, 2)])
~ box = Box("chest", Plain("gem", 9), [{"k": Plain("coin", 1)}])
~ inv = Inventory(10)
~ pair = (1, [2, (3, 4)])
~ sec = Secret("door", 1234)
Start.
+ [Go] -> Mid

:: Mid
~ w.earn(12)
~ hero.hp = 3
~ ok = inv.add({"name": "Rope", "weight": 2, "value": 3})
~ box.items.append(Hero("Bo", helper(0), (Plain("nested", None),)))
Mid.
+ [Rest] -> Camp

:: Camp
Camp.
'''

MODEL_CLASSES = ["Plain", "Secret", "Box", "Hero", "Ghost", "Wallet", "Inventory"]


class Unsupported(Exception):
    pass


class World:
    def __init__(self):
        self.tmp = tempfile.mkdtemp(prefix="bardic_c06_")
        with open(os.path.join(self.tmp, "c06mod.py"), "w") as f:
            f.write(MODULE_SRC)
        sys.modules.pop("c06mod", None)
        sys.path.insert(0, self.tmp)
        import c06mod  # noqa
        from bardic.compiler.compiler import BardCompiler
        from bardic.runtime.engine import BardEngine
        from bardic.stdlib.economy import Wallet
        from bardic.stdlib.inventory import Inventory
        from bardic.stdlib.relationship import Relationship
        self.mod = c06mod
        self.Engine = BardEngine
        self.Wallet, self.Inventory, self.Relationship = Wallet, Inventory, Relationship
        self.story = BardCompiler().compile_string(STORY_SRC)
        self.story2 = BardCompiler().compile_string(STORY2_SRC)

    def engine(self, story=None):
        with C.quiet():
            return self.Engine(story or self.story)

    def close(self):
        if self.tmp in sys.path:
            sys.path.remove(self.tmp)
        sys.modules.pop("c06mod", None)
        shutil.rmtree(self.tmp, ignore_errors=True)


# ------------------------------------------------------------------------------------------------
# generator: a spec tree (plain data, goes into replays), then the real objects
# ------------------------------------------------------------------------------------------------

STRS = ["", "a", "The Fool", "x y", "it's", "_u", "k", "100%", "say \"hi\"", "back\\slash", "new\nline"]
KEYS = ["k", "name", "a b", "", "_hidden", "type", "_data", "n", "items", "x1"]
INTS = [0, 1, -1, 2, 7, 42, -300, 2**31, -(2**40), 10**20]


def gen(rng, depth, py_only=False, unsupported=False):
    """A spec.  depth = remaining nesting budget."""
    k = rng.random()
    if depth <= 0 or k < 0.22:
        s = rng.random()
        if s < 0.12:
            return ("none",)
        if s < 0.27:
            return ("bool", rng.random() < 0.5)
        if s < 0.62:
            return ("int", rng.choice(INTS))
        if py_only and s < 0.7:
            return ("float", rng.choice([0.5, -2.25, 7.0, 1e3]))
        return ("str", rng.choice(STRS))
    sub = lambda: gen(rng, depth - 1, py_only, unsupported)  # noqa
    if unsupported and k < 0.30:
        u = rng.random()
        if u < 0.25:
            return ("typed_dict", rng.choice(["Plain", "Nope", "string_repr", "Hero"]),
                    [(rng.choice(KEYS), sub()) for _ in range(rng.randint(0, 2))], rng.random() < 0.6)
        if u < 0.45:
            return ("ghost", sub())
        if u < 0.6:
            return ("class", rng.choice(["Plain", "Hero", "Wallet"]))
        if u < 0.7:
            return ("func",)
        if u < 0.85:
            return ("badhero", ("str", rng.choice(STRS)), -rng.randint(1, 9), sub())
        return ("herostr", sub())
    if k < 0.36:
        return ("list", [sub() for _ in range(rng.randint(0, 3))])
    if k < 0.47:
        return ("tuple", [sub() for _ in range(rng.randint(0, 3))])
    if k < 0.60:
        ks = rng.sample(KEYS, rng.randint(0, 3))
        return ("dict", [(kk, sub()) for kk in ks])
    if k < 0.70:
        return ("plain", sub(), sub())
    if k < 0.76:
        return ("secret", sub(), sub())
    if k < 0.86:
        return ("box", sub(), sub(), [sub() for _ in range(rng.randint(0, 3))])
    if k < 0.94:
        return ("hero", sub(), rng.choice([0, 1, 3, 99]), sub())
    if k < 0.97:
        return ("wallet", rng.choice([0, 5, 30, 1000]))
    if py_only and rng.random() < 0.45:
        return (rng.choice(["card", "coin", "sealed", "tally", "charm"]), sub(), sub())
    if py_only and rng.random() < 0.5:
        return ("rel", rng.choice(["Alex", "Sam"]), rng.choice([0, 35, 60, 100]), rng.choice([0, 50, 100]),
                rng.choice([-10, 0, 4, 10]), rng.sample(["past", "work", "family"], rng.randint(0, 3)))
    q = [0.5, 2.5] if py_only else []
    return ("inventory", rng.choice([0, 10, 40] + q),
            [{"name": rng.choice(["Rope", "Gem"]), "weight": rng.choice([0, 1, 2] + q), "value": rng.choice([0, 3, 50])}
             for _ in range(rng.randint(0, 3))])


def build(w: World, s):
    t = s[0]
    m = w.mod
    if t == "none":
        return None
    if t in ("bool", "int", "str", "float"):
        return s[1]
    if t == "list":
        return [build(w, x) for x in s[1]]
    if t == "tuple":
        return tuple(build(w, x) for x in s[1])
    if t == "dict":
        return {k: build(w, x) for k, x in s[1]}
    if t == "plain":
        return m.Plain(build(w, s[1]), build(w, s[2]))
    if t == "secret":
        return m.Secret(build(w, s[1]), build(w, s[2]))
    if t == "box":
        return m.Box(build(w, s[1]), build(w, s[2]), [build(w, x) for x in s[3]])
    if t == "hero":
        return m.Hero(build(w, s[1]), s[2], build(w, s[3]))
    if t == "card":
        return m.Card(build(w, s[1]), build(w, s[2]))
    if t == "coin":
        return m.Coin(build(w, s[1]), build(w, s[2]))
    if t == "sealed":
        return m.Sealed(build(w, s[1]), build(w, s[2]))
    if t == "tally":
        return m.Tally(build(w, s[1]), build(w, s[2]))
    if t == "charm":
        return m.Charm(build(w, s[1]), build(w, s[2]))
    if t == "wallet":
        return w.Wallet(s[1])
    if t == "inventory":
        inv = w.Inventory(s[1])
        inv.items = [dict(i) for i in s[2]]
        return inv
    if t == "rel":
        r = w.Relationship(s[1], s[2], s[3], s[4], set(s[5]))
        return r
    # ---- outside the supported domain (correspondence only) ----
    if t == "typed_dict":
        d = {"_type": s[1]}
        if s[3]:
            d["_data"] = {k: build(w, x) for k, x in s[2]}
        else:
            d.update({k: build(w, x) for k, x in s[2]})
        return d
    if t == "ghost":
        return m.Ghost(build(w, s[1]))
    if t == "class":
        return {"Plain": m.Plain, "Hero": m.Hero, "Wallet": w.Wallet}[s[1]]
    if t == "func":
        return m.helper
    if t == "badhero":
        h = m.Hero(build(w, s[1]), 1, build(w, s[3]))
        h.hp = s[2]                       # from_save_dict will raise ValueError
        return h
    if t == "herostr":
        h = m.Hero("h", 1, build(w, s[1]))
        h.hp = "many"                     # from_save_dict will raise TypeError
        return h
    raise AssertionError(t)


def spec_stats(s, depth=1):
    """(max depth, set of kinds, number of objects that sit inside a container or another object)"""
    t = s[0]
    kids = []
    if t in ("list", "tuple"):
        kids = s[1]
    elif t == "dict":
        kids = [x for _, x in s[1]]
    elif t in ("plain", "secret", "card", "coin", "sealed", "tally", "charm"):
        kids = [s[1], s[2]]
    elif t == "box":
        kids = [s[1], s[2]] + list(s[3])
    elif t in ("hero", "badhero"):
        kids = [s[1], s[3]]
    elif t == "typed_dict":
        kids = [x for _, x in s[2]]
    elif t in ("ghost", "herostr"):
        kids = [s[1]]
    d, kinds, nested = depth, {t}, 0
    for x in kids:
        d2, k2, n2 = spec_stats(x, depth + 1)
        d, kinds, nested = max(d, d2), kinds | k2, nested + n2
    if depth > 1 and t in OBJ_KINDS:
        nested += 1
    return d, kinds, nested


OBJ_KINDS = {"plain", "secret", "box", "hero", "wallet", "inventory", "rel"}


# ------------------------------------------------------------------------------------------------
# printing Python data as Coq terms
# ------------------------------------------------------------------------------------------------

def pv(v) -> str:
    if v is None:
        return "VNone"
    if isinstance(v, bool):
        return f"(VBool {coq_bool(v)})"
    if isinstance(v, int):
        return f"(VInt {coq_Z(v)})"
    if isinstance(v, str):
        if not C.is_ascii(v):
            raise Unsupported("non-ascii")
        return f"(VStr {coq_str(v)})"
    if isinstance(v, list):
        return f"(VList {coq_list(pv(x) for x in v)})"
    if isinstance(v, tuple):
        return f"(VTuple {coq_list(pv(x) for x in v)})"
    if isinstance(v, dict):
        if not all(isinstance(k, str) for k in v):
            raise Unsupported("non-string key")
        return f"(VDict {pitems(v, pv)})"
    if isinstance(v, type):
        return f"(VClass {coq_str(v.__name__)})"
    if isinstance(v, types.ModuleType):
        return f"(VModule {coq_str(v.__name__)})"
    if isinstance(v, types.FunctionType):
        return f"(VFunc {coq_str(v.__name__)})"
    if type(v).__name__ in MODEL_CLASSES and hasattr(v, "__dict__"):
        return f"(VObj {coq_str(type(v).__name__)} {pitems(v.__dict__, pv)})"
    raise Unsupported(f"value of type {type(v).__name__}")


def pitems(d, f) -> str:
    return coq_list("(%s, %s)" % (coq_str(k), f(x)) for k, x in d.items())


def pj(j) -> str:
    if j is None:
        return "JNull"
    if isinstance(j, bool):
        return f"(JBool {coq_bool(j)})"
    if isinstance(j, int):
        return f"(JInt {coq_Z(j)})"
    if isinstance(j, str):
        return f"(JStr {coq_str(j)})"
    if isinstance(j, list):
        return f"(JList {coq_list(pj(x) for x in j)})"
    if isinstance(j, dict):
        return f"(JObj {pitems(j, pj)})"
    raise Unsupported(f"json of type {type(j).__name__}")


def pflags(fl) -> str:
    return "(%s, %s, %s)" % tuple(coq_bool(b) for b in fl)


# ------------------------------------------------------------------------------------------------
# the implementation
# ------------------------------------------------------------------------------------------------

def probe_flags(w: World):
    """Which of the three repaired places the tree under test has (see Codec/Codec.v, cfg)."""
    e = w.engine()
    with C.quiet():
        a = e._serialize_value(w.mod.Secret("l", 1))
        underscore_kept = "_pin" in a.get("_data", {})
        b = e._serialize_value(w.mod.Hero("h", 1, [w.mod.Plain("p", 0)]))
        custom_recursed = isinstance(b["_data"]["b"][0], dict)
        c = e._serialize_state({"K": w.mod.Plain, "v": 1})
        imports_kept = "K" not in c
    return (underscore_kept, custom_recursed, imports_kept)


FAILED = ("failed",)     # distinct from a JSON null


def impl_value(w: World, ea, eb, v):
    """(json or None, value or None, ok) — json.loads(json.dumps(_serialize_value(v))), then _deserialize_value."""
    try:
        with C.quiet(), C.alarm(20):
            j = json.loads(json.dumps(ea._serialize_value(v)))
    except (TypeError, ValueError, RecursionError, AttributeError):
        return FAILED, None
    try:
        with C.quiet(), C.alarm(20):
            back = eb._deserialize_value(j)
    except Exception:  # noqa
        return j, ("raised",)
    return j, back


def first_non_json(x, in_custom=False, path="state", in_tuple=False):
    """Where json.dumps fails: (path, mechanism tag)."""
    if x is None or isinstance(x, (bool, int, float, str)):
        return None
    if isinstance(x, (list, tuple)):
        for i, y in enumerate(x):
            r = first_non_json(y, in_custom, f"{path}[{i}]", in_tuple or isinstance(x, tuple))
            if r:
                return r
        return None
    if isinstance(x, dict):
        custom = in_custom or x.get("_custom") is True
        for k, y in x.items():
            if not isinstance(k, str):
                return (path, "non-string-key")
            r = first_non_json(y, custom, f"{path}[{k!r}]", in_tuple)
            if r:
                return r
        return None
    if in_custom:
        return (path, "custom-nested-object")      # inside the dict returned by a to_save_dict
    if in_tuple:
        return (path, "tuple-not-converted")       # a live tuple (holding an object) was left in the save data
    return (path, "set" if isinstance(x, (set, frozenset)) else "object")


def kind_of(x):
    if x is None:
        return "none"
    if isinstance(x, (bool, int, float, str)):
        return type(x).__name__
    if isinstance(x, (list, tuple, dict, set)):
        return type(x).__name__
    return "object"


def probes(w: World, o):
    """Method results per class (the 'working methods' clause)."""
    m = w.mod
    if isinstance(o, w.Wallet):
        return (o.gold, o.can_afford(1), o.to_dict())
    if isinstance(o, w.Inventory):
        return (o.current_weight, o.is_empty, o.total_value, o.has("Rope"))
    if isinstance(o, w.Relationship):
        d = o.to_dict()
        d["topics_discussed"] = sorted(d["topics_discussed"])
        return (d, o.relationship_quality, o.has_discussed("past"), o.has_discussed("as"), o.has_discussed("se"))
    if isinstance(o, m.Secret):
        return (o.check(o.__dict__.get("_pin")), o.check(object()))
    if isinstance(o, m.Box):
        return (o.count(),)
    if isinstance(o, m.Hero):
        return (o.alive(),)
    if isinstance(o, m.Card):           # the methods answer (contents are compared attribute by attribute above)
        return (isinstance(o.label(), str),)
    if isinstance(o, m.Coin):
        return (len(o.double()),)
    if isinstance(o, m.Sealed):
        return (len(o.show()),)
    if isinstance(o, m.Tally):
        return (o(),)
    if isinstance(o, m.Charm):
        return (o.kind(),)
    return ()


def diff(w: World, a, b, path="v"):
    """First difference between the original a and the loaded b: (path, mechanism tag, detail) or None."""
    if isinstance(a, tuple) or isinstance(a, list):
        if type(b) is not list:
            return (path, f"{type(a).__name__}-became-{kind_of(b)}", repr(b)[:80])
        if len(a) != len(b):
            return (path, "length", f"{len(a)} -> {len(b)}")
        for i, (x, y) in enumerate(zip(a, b)):
            r = diff(w, x, y, f"{path}[{i}]")
            if r:
                return r
        return None
    if isinstance(a, dict):
        if type(b) is not dict:
            return (path, f"dict-became-{kind_of(b)}", repr(b)[:80])
        if set(a) != set(b):
            return (path, "dict-keys", f"{sorted(a)} -> {sorted(b)}")
        for k in a:
            r = diff(w, a[k], b[k], f"{path}[{k!r}]")
            if r:
                return r
        return None
    if isinstance(a, (set, frozenset)):
        if type(b) is not type(a):
            return (path, f"set-became-{kind_of(b)}", repr(b)[:80])
        return None if a == b else (path, "set-content", repr(b)[:80])
    if a is None or isinstance(a, (bool, int, float, str)):
        if type(a) is not type(b) or a != b:
            return (path, f"scalar-{type(a).__name__}", f"{a!r} -> {b!r}"[:100])
        return None
    # an object
    if type(b) is not type(a):
        return (path, f"object-became-{kind_of(b)}", repr(b)[:80])
    da, db = a.__dict__, b.__dict__
    for k in da:
        if k not in db:
            return (f"{path}.{k}", "underscore-attribute" if k.startswith("_") else "attribute-missing", k)
    for k in db:
        if k not in da:
            return (f"{path}.{k}", "attribute-extra", k)
    for k in da:
        r = diff(w, da[k], db[k], f"{path}.{k}")
        if r:
            return r
    try:
        pa = probes(w, a)
    except Exception:  # noqa   (the original itself does not answer: not a statement about save/load)
        return None
    try:
        pb = probes(w, b)
    except Exception as e:  # noqa
        return (path, "method-raises", f"{type(e).__name__}: {e}"[:100])
    if pa != pb:
        return (path, "method-result", f"{pa!r} -> {pb!r}"[:120])
    return None


def import_names(e):
    """name -> kind for the names the import lines bound in a fresh engine."""
    out = {}
    for k, v in e.state.items():
        if isinstance(v, type):
            out[k] = "class"
        elif isinstance(v, types.ModuleType):
            out[k] = "module"
        elif isinstance(v, (types.FunctionType, types.BuiltinFunctionType, types.MethodType)):
            out[k] = "function"
    return out


def canon_state(st, modules):
    """Module bindings: the attribute dump (legacy code) is abstracted to {} on both sides."""
    out = {}
    for k, v in st.items():
        if k in modules and isinstance(v, dict):
            if v.get("_type") == "module" and "_data" in v:
                v = dict(v)
                v["_data"] = {}
            elif "_type" not in v:
                v = {}
        out[k] = v
    return out


def run_state_case(w: World, chk: C.Check, variables: dict, specs, supported: bool, label: str, story=None,
                   prepare=None):
    """save_state -> dumps -> loads -> load_state into a fresh engine; oracles; returns data for the Coq case."""
    A = w.engine(story)
    B = w.engine(story)
    imports = import_names(B)
    fresh = dict(B.state)
    if prepare:
        with C.quiet():
            prepare(A)
    for k, v in variables.items():
        A.state[k] = v
    # player input received through submit_inputs() lives in the variable `_inputs` (a string-keyed dict): it is game
    # state like any other and must survive the round trip (every other case; deterministic in the label)
    if sum(map(ord, label)) % 2 == 0:
        with C.quiet():
            A.submit_inputs({"reader_name": "Kate", "age": "33"})
    replay = {"kind": "state", "label": label, "variables": specs, "story": "STORY2_SRC" if story else "STORY_SRC",
              "how": "engine.state[name] = build(spec); save_state(); json.dumps; json.loads; load_state() in a fresh engine"}
    st_before = dict(A.state)

    def fail(sig, what):
        if supported:
            chk.report(sig, what, replay)

    try:
        with C.quiet(), C.alarm(30):
            doc = A.save_state()
    except Exception as e:  # noqa
        fail(f"save-raises:{type(e).__name__}", f"save_state() raised {type(e).__name__}: {e}"[:200])
        return st_before, None, fresh, None, imports
    try:
        text = json.dumps(doc)
    except (TypeError, ValueError) as e:
        where = first_non_json(doc.get("state"))
        tag = where[1] if where else "unknown"
        sig = tag if tag == "custom-nested-object" else f"save-not-json:kind={tag}"
        fail(sig, f"json.dumps(save_state()) raised {type(e).__name__} at {where[0] if where else '?'}: the save "
                  f"data holds a live {tag}")
        return st_before, None, fresh, None, imports
    saved = json.loads(text)
    for name, kind in imports.items():
        if kind == "module" and name in saved.get("state", {}):
            fail("module-dumped", f"the module bound by the import line to {name!r} is written to the save file as a "
                                  f"dump of its attributes ({len(text)} characters of save text)")
    try:
        with C.quiet(), C.alarm(30):
            B.load_state(saved)
    except Exception as e:  # noqa
        fail(f"load-raises:{type(e).__name__}", f"load_state() raised {type(e).__name__}: {e}"[:200])
        return st_before, saved.get("state"), fresh, None, imports
    st_after = dict(B.state)
    # ---- values ----
    names = list(variables) if not prepare else [k for k in A.state if k not in imports and not k.startswith("_")]
    for k in names:
        if k not in B.state:
            fail("value-lost:kind=variable-missing", f"variable {k!r} is not bound after the load")
            continue
        try:
            d = diff(w, A.state[k], B.state[k], k)
        except Exception as e:  # noqa
            d = (k, "compare-raises", f"{type(e).__name__}: {e}"[:100])
        if d:
            fail(f"value-lost:kind={d[1]}", f"after save -> JSON -> load, {d[0]} differs ({d[1]}): {d[2]}")
    if A.state.get("_inputs") != B.state.get("_inputs"):
        fail("value-lost:kind=submitted-inputs", f"_inputs was {A.state.get('_inputs')!r} when saved and is "
                                                 f"{B.state.get('_inputs')!r} after the load")
    # ---- import bindings ----
    for name, kind in imports.items():
        if B.state.get(name) is not fresh[name]:
            fail(f"import-overwritten:kind={kind}",
                 f"the {kind} bound by the import line to {name!r} is {B.state.get(name)!r:.60} after the load")
    if not story:
        for kind, (passage, expect) in USE.items():
            try:
                with C.quiet(), C.alarm(20):
                    got = B.goto(passage).content.strip()
            except Exception as e:  # noqa
                got = f"<{type(e).__name__}>"
            if got != expect:
                fail(f"import-unusable:kind={kind}", f"passage {passage} renders {got!r:.120} after the load, expected {expect!r}")
    return st_before, saved.get("state"), fresh, st_after, imports


def dcase_term(flags, st_before, doc, fresh, st_after, imports):
    mods = {k for k, kind in imports.items() if kind == "module"}
    d = None if doc is None else canon_state(doc, mods)
    a = None if st_after is None else canon_state(st_after, mods)
    return "(%s, %s, %s, %s, %s)" % (
        pflags(flags), pitems(st_before, pv), coq_opt(d, lambda x: pitems(x, pj)), pitems(fresh, pv),
        coq_opt(a, lambda x: pitems(x, pv)))


PINNED = [
    # (label, variables as specs) — the minimal failing inputs of F06a-e, always run
    ("F06a-imports-only", {}),
    ("F06b-wallet", {"w": ("wallet", 30)}),
    ("F06b-secret", {"s": ("secret", ("str", "door"), ("int", 1234))}),
    ("F06c-hero-holds-object", {"h": ("hero", ("str", "Aria"), 3, ("list", [("plain", ("str", "sword"), ("int", 2))]))}),
    ("F06c-hero-holds-tuple", {"h": ("hero", ("str", "Aria"), 3, ("tuple", [("int", 1), ("int", 2)]))}),
    ("F06e-relationship", {"r": ("rel", "Alex", 50, 50, 0, ["past"])}),
    ("nested-object-in-list-in-dict-in-object",
     {"b": ("box", ("str", "chest"), ("dict", [("k", ("list", [("plain", ("str", "gem"), ("tuple", [("int", 1)]))]))]),
            [("inventory", 10, [{"name": "Rope", "weight": 2, "value": 3}])])}),
]


def run(tier: str, seed: int) -> int:
    chk = C.Check("C06", tier, seed, "proof")
    props = C.coq_gate(chk)
    C.use_repo()
    rng = chk.rng
    n_val, n_uns, n_state, n_py, maxd = (420, 160, 140, 120, 4) if tier == "quick" else (5000, 1800, 1500, 1200, 6)
    dist = {"kinds": {}, "depth": {}, "outcome": {}, "state_vars": {}}

    def bump(d, k):
        d[str(k)] = d.get(str(k), 0) + 1

    w = World()
    try:
        flags = probe_flags(w)
        chk.notes["code_variant"] = {"underscore_kept(F06b)": flags[0], "custom_recursed(F06c)": flags[1],
                                     "imports_kept(F06a)": flags[2],
                                     "note": "the theorems of Props/C06.v are about (true,true,true); the _refuted "
                                             "theorems about (false,false,false)"}
        ea, eb = w.engine(), w.engine()

        # ---- (a2) state cases through save_state / load_state; the pinned minimal witnesses of F06a-e run
        #      first so that they are the first entries of a replay file ----
        dterms, dcases = [], []

        def state_case(label, specs, supported=True, coq=True, story=None, prepare=None):
            variables = {k: build(w, s) for k, s in specs.items()}
            res = run_state_case(w, chk, variables, specs, supported, label, story, prepare)
            if coq:
                try:
                    dterms.append(dcase_term(flags, *res))
                    dcases.append({"label": label, "variables": specs})
                except Unsupported as e:
                    bump(dist["outcome"], f"state-skipped:{e}")
            bump(dist["state_vars"], len(specs))
            return res

        for label, specs in PINNED:
            state_case("pinned:" + label, specs, coq=not any(s[0] == "rel" for s in specs.values()))
        # the same through `~` statements of a story
        def play(A):
            A.choose(0)
            A.choose(0)
        state_case("pinned:story-statements", {}, story=w.story2, prepare=play)
        # ---- (a1) value cases: supported stream and out-of-domain stream ----
        vterms, vcases = [], []
        for i in range(n_val + n_uns):
            uns = i >= n_val
            sub_seed = rng.getrandbits(32)
            spec = gen(_r.Random(sub_seed), rng.randint(1, maxd), unsupported=uns)
            v = build(w, spec)
            j, back = impl_value(w, ea, eb, v)
            try:
                term = "(%s, %s, %s, %s)" % (pflags(flags), pv(v), "None" if j is FAILED else f"(Some {pj(j)})",
                                             "None" if (j is FAILED or back == ("raised",)) else f"(Some {pv(back)})")
            except Unsupported as e:
                bump(dist["outcome"], f"skipped:{e}")
                continue
            vterms.append(term)
            vcases.append({"spec": spec, "sub_seed": sub_seed, "stream": "out-of-domain" if uns else "supported",
                           "impl_json": None if j is FAILED else j, "impl_failed": j is FAILED})
            depth, kinds, nested = spec_stats(spec)
            for kk in kinds:
                bump(dist["kinds"], kk)
            bump(dist["depth"], depth)
            bump(dist["outcome"], ("uns:" if uns else "sup:") + ("not-json" if j is FAILED else
                                                                  "deser-raised" if back == ("raised",) else "ok"))
            chk.count(("v", repr(spec)), nested >= 1 and depth >= 3)
            if i < 2:
                chk.sample({"kind": "value", "spec": spec, "serialised": None if j is FAILED else j})
            # direct oracle on the value level (supported stream only)
            if not uns and back == ("raised",):
                chk.report("load-raises", "_deserialize_value raised on what _serialize_value produced",
                           {"kind": "value", "spec": spec, "sub_seed": sub_seed})
            elif not uns and j is not FAILED:
                d = diff(w, v, back, "v")
                if d:
                    chk.report(f"value-lost:kind={d[1]}",
                               f"_deserialize_value(json(_serialize_value(v))): {d[0]} differs ({d[1]}): {d[2]}",
                               {"kind": "value", "spec": spec, "sub_seed": sub_seed})
            elif not uns and j is FAILED:
                with C.quiet():
                    try:
                        where = first_non_json(ea._serialize_value(v), path="v")
                    except Exception as e:  # noqa
                        where = ("v", f"serialize-raises-{type(e).__name__}")
                tag = where[1] if where else "unknown"
                chk.report(tag if tag == "custom-nested-object" else f"save-not-json:kind={tag}",
                           f"_serialize_value(v) is not JSON at {where[0] if where else '?'} ({tag})",
                           {"kind": "value", "spec": spec, "sub_seed": sub_seed})

        # ---- (a2, continued) generated state cases ----
        for i in range(n_state):
            sub_seed = rng.getrandbits(32)
            r2 = _r.Random(sub_seed)
            uns = i % 5 == 4
            specs = {f"v{n}": gen(r2, r2.randint(1, maxd), unsupported=uns) for n in range(r2.randint(1, 4))}
            state_case(f"gen:{sub_seed}", specs, supported=not uns)
            for s in specs.values():
                depth, kinds, nested = spec_stats(s)
                chk.count(("s", repr(s)), nested >= 1 and depth >= 3)
        # python-only stream: floats and Relationship (a set attribute) are outside the model's value type
        for i in range(n_py):
            sub_seed = rng.getrandbits(32)
            r2 = _r.Random(sub_seed)
            specs = {f"v{n}": gen(r2, r2.randint(1, maxd), py_only=True) for n in range(r2.randint(1, 3))}
            state_case(f"py:{sub_seed}", specs, coq=False)
            for s in specs.values():
                depth, kinds, nested = spec_stats(s)
                for kk in kinds & {"rel", "float", "card", "coin", "sealed", "tally", "charm"}:
                    bump(dist["kinds"], kk)
                chk.count(("p", repr(s)), nested >= 1 and depth >= 3)

        # ---- the JSON TEXT codec: real json.dumps / json.loads against Codec/JsonText.v, inside Coq ----
        from . import jsontext_tie
        dist["json_text"] = jsontext_tie.phase(chk, _r.Random(rng.getrandbits(32)), 120 if tier == "quick" else 1200, docs=False, texts=True)

        # ---- evaluate the model inside Coq ----
        disagreements = 0
        for terms, cases, ctype, bad_fn, show_fn, label in [
                (vterms, vcases, "vcase", "vcase_bad", "vcase_show", "value"),
                (dterms, dcases, "dcase", "dcase_bad", "dcase_show", "state")]:
            bad, shown, log = C.run_coq_cases(chk.scratch, HEADER, terms, ctype, bad_fn, shard=120, show_fn=show_fn)
            for b in bad:
                disagreements += 1
                if isinstance(b, int):
                    chk.disagree(label, f"model Codec/Codec.v and implementation differ on a {label} case "
                                        f"(switches {flags})",
                                 {"case": cases[b], "term": terms[b][:3000], "model_says": shown.get(b)})
                else:
                    chk.disagree(label + "-coqc", "case shard failed to evaluate", {"log": log})
        if flags != (True, True, True) and not chk.violations and not chk.known_hits:
            chk.disagree("variant", f"the tree under test has the codec switches {flags}; the theorems of Props/C06.v are "
                                    "about (True, True, True) and no oracle failed", {"flags": list(flags)})
        chk.cov["programs"] = len(vterms) + len(dterms) + n_py
        chk.cov["disagreements_checked"] = len(vterms) + len(dterms)
        chk.cov["disagreements_found"] = disagreements
    finally:
        w.close()
    chk.cov["rule"] = ("value/state cases: random value trees over None/bool/int/str, list, tuple, string-keyed dict, "
                       "Plain/Secret/Box (attribute objects), Hero (to_save_dict/from_save_dict), Wallet, Inventory "
                       "(+ Relationship and floats in the python-only stream); non-trivial = nesting depth >= 3 and at "
                       "least one object inside a container or another object; distinct = by full spec")
    chk.notes["input_distribution"] = dist
    chk.assumptions = [
        "the user's to_save_dict/from_save_dict are deterministic functions of the attribute values and inverse to "
        "each other on the object (hypothesis of codec_roundtrip, met by Hero for hp >= 0)",
        "dicts kept in story variables have string keys and no '_type' key (a dict with a '_type' key reads as a "
        "serialised object; type_key_dict_refuted shows the hypothesis is needed)",
        "ASCII strings, integers (floats and sets are outside the model's value type and exercised by the python-only "
        "oracle stream)",
        "context keys are the class names (an `import X as Y` of a class is outside the model)",
    ]
    return chk.finish(props, C.BASE_TRUST + [
        "modelled: bardic/runtime/engine.py _serialize_value/_deserialize_value/_serialize_state/_deserialize_state/"
        "_is_import_binding and the state part of load_state (engine_browser.py has the same text); json.dumps/"
        "json.loads are exercised on every case but modelled as the identity on JSON trees",
        "the user's to_save_dict/from_save_dict enter the model as functions in the class table; for the test "
        "class Hero they are written out in Codec/CodecCheck.v"],
        "make -C /verif/coq && coqc -Q /verif/coq Bardic /verif/coq/Props/C06.v")


class _Printer:
    """Stands in for common.Check when a replay file is re-run: prints what the oracles report."""

    def __init__(self):
        self.n = 0

    def report(self, signature, what, replay):
        self.n += 1
        print(f"  reproduced [{signature}]: {what}")


def replay(path: str) -> int:
    """Re-run the failing inputs of a replay file on the tree under test (run_check.py C06 --replay FILE)."""
    C.use_repo()
    data = json.load(open(path))
    w = World()
    out = _Printer()
    try:
        print(f"code variant (underscore_kept, custom_recursed, imports_kept) = {probe_flags(w)}")
        ea, eb = w.engine(), w.engine()
        for v in data.get("violations", []):
            r = v.get("replay", {})
            print(f"{v.get('signature')}: {v.get('what', '')[:160]}")
            if r.get("kind") == "value" or "spec" in r.get("case", {}):
                spec = r.get("spec") or r["case"]["spec"]
                val = build(w, spec)
                j, back = impl_value(w, ea, eb, val)
                print(f"  spec = {spec!r}\n  serialised = {'<not JSON>' if j is FAILED else json.dumps(j)[:400]}")
                if j is not FAILED and back != ("raised",):
                    d = diff(w, val, back, "v")
                    print(f"  first difference after the round trip: {d}")
                    out.n += 1 if d else 0
                else:
                    out.n += 1
            elif r.get("kind") == "state" or "variables" in r.get("case", {}):
                specs = r.get("variables") if "variables" in r else r["case"]["variables"]
                story = w.story2 if r.get("story") == "STORY2_SRC" else None

                def play(A):
                    A.choose(0)
                    A.choose(0)
                run_state_case(w, out, {k: build(w, s) for k, s in specs.items()}, specs, True,
                               r.get("label", "replay"), story, play if story else None)
    finally:
        w.close()
    return 1 if out.n else 0
