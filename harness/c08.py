"""C08 — engine property: see harness/engine_props.py (shared driver) and coq/Props/C08.v."""
from .engine_props import run_engine_property


def run(tier: str, seed: int) -> int:
    return run_engine_property("C08", tier, seed, "DESIGN.md section 6 C08")
